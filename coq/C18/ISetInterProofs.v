(** C18: iset-intersection2! and iset-difference2! (model: ISetInter.v) keep the invariant [wf] of
    ISetProofs.v and refine set intersection / difference; the fuel of the model always suffices.
    No axioms (Print Assumptions at the end). *)
From Coq Require Import ZArith List Bool Lia Sorted.
From ChibiV Require Import C18.SpecCont C18.ContProofs C18.ISet C18.ISetProofs C18.ISetInter.
Import ListNotations.
Local Open Scope Z_scope.

(* ------------------------------------------------------------------ node lists *)
Definition nok (n : tree) : Prop := n <> Nil /\ node_ok n.
Definition before (x y : tree) : Prop := t_end x < t_start y.
(** what iset->node-list of a wf tree is: nodes with start <= end and bits in range, each one entirely
    below the next ones *)
Definition SL (l : list tree) : Prop := Forall nok l /\ StronglySorted before l.
Definition mem (m : Z) (l : list tree) : bool := existsb (node_mem m) l.
Definition memA (m : Z) (l : list anode) : bool := existsb (fun x => node_mem m (snd x)) l.

Lemma ssorted_app : forall (A : Type) (R : A -> A -> Prop) l1 l2,
  StronglySorted R l1 -> StronglySorted R l2 -> (forall x y, In x l1 -> In y l2 -> R x y) ->
  StronglySorted R (l1 ++ l2).
Proof.
  intros A R l1 l2 H1 H2 H. induction H1 as [|a l1 Hs IH Hf]; [exact H2|].
  cbn [app]. constructor.
  - apply IH. intros x y Hx Hy. apply H; [right; exact Hx|exact Hy].
  - apply Forall_app. split; [exact Hf|]. apply Forall_forall. intros y Hy. apply H; [left; reflexivity|exact Hy].
Qed.

Lemma tree_all_nodes : forall (P : Z -> Z -> Prop) t, tree_all P t ->
  Forall (fun n => P (t_start n) (t_end n)) (nodes t).
Proof.
  intros P. induction t as [|s e b l IHl r IHr]; intro H; [constructor|].
  cbn [tree_all] in H. destruct H as (H1 & H2 & H3). cbn [nodes].
  apply Forall_app. split; [auto|]. constructor; [exact H1|auto].
Qed.

Lemma nodes_all_tree : forall (P : Z -> Z -> Prop) t,
  Forall (fun n => P (t_start n) (t_end n)) (nodes t) -> tree_all P t.
Proof.
  intros P. induction t as [|s e b l IHl r IHr]; intro H; [exact I|].
  cbn [nodes] in H. apply Forall_app in H. destruct H as [H1 H2]. inversion H2 as [|? ? H3 H4]. subst.
  cbn [tree_all]. auto.
Qed.

Lemma nodes_sorted : forall t, wf t -> SL (nodes t).
Proof.
  intros t Hwf. split; [apply nodes_ok; exact Hwf|].
  induction t as [|s e b l IHl r IHr]; [constructor|].
  cbn [wf] in Hwf. destruct Hwf as (Hse & Hok & Hl & Hr & Hwl & Hwr). cbn [nodes].
  pose proof (tree_all_nodes _ _ Hl) as Fl. pose proof (tree_all_nodes _ _ Hr) as Fr.
  rewrite Forall_forall in Fl, Fr.
  apply ssorted_app; [auto| |].
  - constructor; [auto|]. apply Forall_forall. intros y Hy. unfold before. cbn [t_end]. apply Fr. exact Hy.
  - intros x y Hx [Hy|Hy].
    + subst y. unfold before. cbn [t_start]. apply Fl. exact Hx.
    + unfold before. specialize (Fl x Hx). specialize (Fr y Hy). cbn beta in Fl, Fr. lia.
Qed.

Lemma node_mem_range : forall m n, node_mem m n = true -> t_start n <= m <= t_end n.
Proof. intros m n H. apply (nmem_range _ _ _ _ H). Qed.

Lemma SL_tail : forall x l, SL (x :: l) -> SL l.
Proof. intros x l [H1 H2]. inversion H1. inversion H2. split; assumption. Qed.

Lemma SL_head_ok : forall x l, SL (x :: l) -> nok x.
Proof. intros x l [H1 _]. inversion H1. assumption. Qed.

Lemma SL_mem_tail : forall x l m, SL (x :: l) -> mem m l = true -> t_end x < m.
Proof.
  intros x l m [H1 H2] Hm. inversion H2 as [|? ? _ Hf]. subst. unfold mem in Hm.
  apply existsb_exists in Hm. destruct Hm as (y & Hy & Hym). rewrite Forall_forall in Hf.
  specialize (Hf y Hy). unfold before in Hf. apply node_mem_range in Hym. lia.
Qed.

Lemma SL_mem_ge : forall x l m, SL (x :: l) -> mem m (x :: l) = true -> t_start x <= m.
Proof.
  intros x l m H Hm. unfold mem in Hm. cbn [existsb] in Hm. apply orb_prop in Hm. destruct Hm as [Hm|Hm].
  - apply node_mem_range in Hm. lia.
  - pose proof (SL_mem_tail x l m H Hm). destruct (SL_head_ok x l H) as [_ [Hle _]]. lia.
Qed.

(** replace the head by a node inside the head's range *)
Lemma SL_replace : forall x y l, SL (x :: l) -> nok y -> t_end y <= t_end x -> SL (y :: l).
Proof.
  intros x y l [H1 H2] Hy Hle. inversion H1. inversion H2 as [|? ? Hs Hf]. subst. split.
  - constructor; assumption.
  - constructor; [exact Hs|]. eapply Forall_impl; [|exact Hf]. intros z Hz. unfold before in *. lia.
Qed.

Lemma map_snd_number_from : forall l i, map snd (number_from i l) = l.
Proof. induction l as [|x l IH]; intro i; cbn [number_from map snd]; [reflexivity|]. rewrite IH. reflexivity. Qed.

Lemma memA_map : forall m l, memA m l = mem m (map snd l).
Proof. intros m l. unfold memA, mem. induction l as [|x l IH]; cbn [map existsb]; [reflexivity|]. rewrite IH. reflexivity. Qed.

(* ------------------------------------------------------------------ iset-node-extract, once more *)
Lemma extract_start_bits : forall n s e x, t_bits (node_extract n s e) = Some x -> t_start (node_extract n s e) = s.
Proof. intros n s e x. unfold node_extract. destruct (t_bits n); cbn [t_bits t_start]; [reflexivity|discriminate]. Qed.

Lemma extract_bits_kind : forall n s e, is_some (t_bits (node_extract n s e)) = is_some (t_bits n).
Proof. intros n s e. unfold node_extract. destruct (t_bits n); reflexivity. Qed.

(** the extracted node does not end after the node *)
Lemma extract_end_le : forall bs be bb bl br s' e',
  bs <= be -> bits_ok bs be bb -> s' <= be ->
  t_end (node_extract (Node bs be bb bl br) s' e') <= be.
Proof.
  intros bs be bb bl br s' e' Hbse Hbok H1. unfold node_extract. cbn [t_bits t_start t_end].
  destruct bb as [nb|]; cbn [t_end]; [|lia].
  set (bits := Z.land (Z.shiftl nb (bs - s')) (range_bits s' e')).
  destruct (Z_lt_le_dec e' s') as [Hes|Hes].
  { (* empty window *) lia. }
  cbn [bits_ok] in Hbok. apply small_iff in Hbok; [|lia]. destruct Hbok as [Hnb Hnbhi].
  assert (Hb0 : 0 <= bits).
  { unfold bits. apply Z.land_nonneg. right. apply range_bits_nonneg. lia. }
  assert (Hsmall : 0 <= bits < 2 ^ (be - s' + 1)).
  { apply small_iff; [lia|]. split; [exact Hb0|]. intros i Hi. unfold bits.
    rewrite Z.land_spec, Z.shiftl_spec by lia. rewrite Hnbhi by lia. reflexivity. }
  pose proof (il_le bits (be - s' + 1) ltac:(lia) Hsmall). lia.
Qed.

(* ------------------------------------------------------------------ the pieces of one step *)
Definition ov (a b : tree) : tree := node_extract a (t_start b) (t_end b).
Definition aleft (a b : tree) : option tree :=
  if t_start a <? t_start b then Some (node_extract a (t_start a) (t_start b - 1)) else None.
Definition aright (a b : tree) : option tree :=
  if t_end a >? t_end b then Some (node_extract a (t_end b + 1) (t_end a)) else None.
Definition bov (a b : tree) : tree := node_extract b (t_start (ov a b)) (t_end (ov a b)).
Definition bright (a b : tree) : option tree :=
  if t_end b >? t_end (ov a b) then Some (node_extract b (t_end (ov a b) + 1) (t_end b)) else None.

Lemma split_ab_eq : forall a b, split_ab a b = (aleft a b, ov a b, aright a b, bov a b, bright a b).
Proof. reflexivity. Qed.

Definition inode (a b : tree) : tree := inter_bits (set_range a (ov a b)) (ov a b) (bov a b).

Lemma inter_loop_S : forall f ia a na' b nb' res,
  inter_loop (S f) ((ia, a) :: na') (b :: nb') res =
  if t_start b >? t_end a then inter_loop f na' (b :: nb') res
  else if t_start a >? t_end b then inter_loop f ((ia, a) :: na') nb' res
  else inter_loop f (match aright a b with Some x => (None, x) :: na' | None => na' end)
                    (push (bright a b) nb') ((ia, inode a b) :: res).
Proof. reflexivity. Qed.

(** everything the proofs need about one step on two overlapping nodes *)
Record step_facts (a b : tree) (m : Z) : Prop := {
  sf_ov_ok : nok (ov a b);
  sf_ov_start : t_start b <= t_start (ov a b);
  sf_ov_end_b : t_end (ov a b) <= t_end b;
  sf_ov_end_a : t_end (ov a b) <= t_end a;
  sf_ov_mem : node_mem m (ov a b) = (t_start b <=? m) && (m <=? t_end b) && node_mem m a;
  sf_bov_ok : nok (bov a b);
  sf_bov_start : t_start (ov a b) <= t_start (bov a b);
  sf_bov_end : t_end (bov a b) <= t_end (ov a b);
  sf_bov_mem : node_mem m (bov a b) = (t_start (ov a b) <=? m) && (m <=? t_end (ov a b)) && node_mem m b;
  sf_al : forall x, aleft a b = Some x ->
          nok x /\ t_start a <= t_start x /\ t_end x < t_start b /\ t_left x = Nil /\ t_right x = Nil /\
          node_mem m x = (m <? t_start b) && node_mem m a;
  sf_al_none : aleft a b = None -> t_start b <= t_start a;
  sf_ar : forall x, aright a b = Some x ->
          nok x /\ t_end b < t_start x /\ t_end x <= t_end a /\ t_left x = Nil /\ t_right x = Nil /\
          node_mem m x = (t_end b <? m) && node_mem m a;
  sf_ar_none : aright a b = None -> t_end a <= t_end b;
  sf_br : forall y, bright a b = Some y ->
          nok y /\ t_end (ov a b) < t_start y /\ t_end y <= t_end b /\
          node_mem m y = (t_end (ov a b) <? m) && node_mem m b;
  sf_br_none : bright a b = None -> t_end b <= t_end (ov a b)
}.

Lemma node_mem_Node : forall m s e b l r, node_mem m (Node s e b l r) = nmem s e b m.
Proof. reflexivity. Qed.

Lemma step_facts_hold : forall a b m, nok a -> nok b ->
  t_start b <= t_end a -> t_start a <= t_end b -> step_facts a b m.
Proof.
  intros [|s e bits l r] [|bs be bb bl br] m [Na [Hse Hok]] [Nb [Hbse Hbok]] H1 H2; try congruence.
  cbn [t_start t_end t_bits] in *.
  destruct (extract_ok s e bits l r bs be Hse Hok Hbse H1 H2) as (os & oe & ob & Eo & Hose & Hook & Ho1 & Ho2 & Hom).
  pose proof (extract_end_le s e bits l r bs be Hse Hok H1) as Hoea. rewrite Eo in Hoea. cbn [t_end] in Hoea.
  destruct (extract_ok bs be bb bl br os oe Hbse Hbok Hose ltac:(lia) ltac:(lia))
    as (ps & pe & pb & Ep & Hpse & Hpok & Hp1 & Hp2 & Hpm).
  assert (Eov : ov (Node s e bits l r) (Node bs be bb bl br) = Node os oe ob Nil Nil) by exact Eo.
  assert (Ebov : bov (Node s e bits l r) (Node bs be bb bl br) = Node ps pe pb Nil Nil).
  { unfold bov. rewrite Eov. exact Ep. }
  constructor; rewrite ?Eov, ?Ebov; cbn [t_start t_end t_bits].
  - split; [discriminate|split; assumption].
  - lia.
  - lia.
  - lia.
  - rewrite !node_mem_Node. apply Hom.
  - split; [discriminate|split; assumption].
  - lia.
  - lia.
  - rewrite !node_mem_Node. apply Hpm.
  - intros x Hx. unfold aleft in Hx. cbn [t_start] in Hx. destruct (Z.ltb_spec s bs) as [C|C]; [|discriminate].
    injection Hx as Hx.
    destruct (extract_ok s e bits l r s (bs - 1) Hse Hok ltac:(lia) ltac:(lia) ltac:(lia))
      as (xs & xe & xb & Ex & Hxse & Hxok & Hx1 & Hx2 & Hxm).
    rewrite Ex in Hx. subst x. cbn [t_start t_end t_left t_right]. split; [split; [discriminate|split; assumption]|].
    split; [lia|]. split; [lia|]. split; [reflexivity|]. split; [reflexivity|].
    rewrite !node_mem_Node, Hxm. unfold nmem.
    destruct (Z.leb_spec s m), (Z.leb_spec m (bs - 1)), (Z.ltb_spec m bs), (Z.leb_spec m e); cbn [andb]; try reflexivity; lia.
  - unfold aleft. cbn [t_start]. destruct (Z.ltb_spec s bs); [discriminate|]. intros _. lia.
  - intros x Hx. unfold aright in Hx. cbn [t_end] in Hx. rewrite Z.gtb_ltb in Hx.
    destruct (Z.ltb_spec be e) as [C|C]; [|discriminate]. injection Hx as Hx.
    destruct (extract_ok s e bits l r (be + 1) e Hse Hok ltac:(lia) ltac:(lia) ltac:(lia))
      as (xs & xe & xb & Ex & Hxse & Hxok & Hx1 & Hx2 & Hxm).
    rewrite Ex in Hx. subst x. cbn [t_start t_end t_left t_right]. split; [split; [discriminate|split; assumption]|].
    split; [lia|]. split; [lia|]. split; [reflexivity|]. split; [reflexivity|].
    rewrite !node_mem_Node, Hxm. unfold nmem.
    destruct (Z.leb_spec (be + 1) m), (Z.ltb_spec be m), (Z.leb_spec m e), (Z.leb_spec s m); cbn [andb]; try reflexivity; lia.
  - unfold aright. cbn [t_end]. rewrite Z.gtb_ltb. destruct (Z.ltb_spec be e); [discriminate|]. intros _. lia.
  - intros y Hy. unfold bright in Hy. rewrite Eov in Hy. cbn [t_end] in Hy. rewrite Z.gtb_ltb in Hy.
    destruct (Z.ltb_spec oe be) as [C|C]; [|discriminate]. injection Hy as Hy.
    destruct (extract_ok bs be bb bl br (oe + 1) be Hbse Hbok ltac:(lia) ltac:(lia) ltac:(lia))
      as (xs & xe & xb & Ex & Hxse & Hxok & Hx1 & Hx2 & Hxm).
    rewrite Ex in Hy. subst y. cbn [t_start t_end]. split; [split; [discriminate|split; assumption]|].
    split; [lia|]. split; [lia|].
    rewrite !node_mem_Node, Hxm. unfold nmem.
    destruct (Z.leb_spec (oe + 1) m), (Z.ltb_spec oe m), (Z.leb_spec m be), (Z.leb_spec bs m); cbn [andb]; try reflexivity; lia.
  - unfold bright. rewrite Eov. cbn [t_end]. rewrite Z.gtb_ltb. destruct (Z.ltb_spec oe be); [discriminate|]. intros _. lia.
Qed.

(** the overlap bits of a (or its whole range) against the bits of b-overlap: aligned at overlap's start *)
Lemma overlap_bits_spec : forall a o i, nok o -> t_start a = t_start o -> t_end a = t_end o ->
  Z.testbit (overlap_bits a o) i = node_mem (t_start o + i) o.
Proof.
  intros a [|os oe ob ol or] i [No [Hse Hok]] Es Ee; [congruence|]. cbn [t_start t_end t_bits] in *.
  unfold overlap_bits. cbn [t_bits]. rewrite Es, Ee. rewrite node_mem_Node.
  change (match ob with Some x => x | None => range_bits os oe end) with (bor os oe ob).
  apply bor_spec; assumption.
Qed.

Lemma bits_testbit_mem : forall n x i, nok n -> t_bits n = Some x ->
  Z.testbit x i = node_mem (t_start n + i) n.
Proof.
  intros [|s e b l r] x i [Nn [Hse Hok]] E; [congruence|]. cbn [t_start t_end t_bits] in *. subst b.
  rewrite node_mem_Node. apply (bor_spec s e (Some x) i Hse Hok).
Qed.

(** the mutated node a of iset-intersection2! *)
Lemma inode_ok : forall a b m, nok a -> nok b -> t_start b <= t_end a -> t_start a <= t_end b ->
  nok (inode a b) /\ node_mem m (inode a b) = node_mem m a && node_mem m b.
Proof.
  intros a b m Ha Hb H1 H2. pose proof (step_facts_hold a b m Ha Hb H1 H2) as F.
  destruct F as [Ook Os Oeb Oea Om Pok Ps Pe Pm _ _ _ _ _ _].
  destruct a as [|s e bits l r]; [destruct Ha; congruence|].
  unfold inode, set_range. cbn [set_start set_end].
  set (o := ov (Node s e bits l r) b) in *. set (p := bov (Node s e bits l r) b) in *.
  assert (Hrange : forall m', node_mem m' o = true -> node_mem m' p = node_mem m' b).
  { intros m' Hm'. pose proof (step_facts_hold (Node s e bits l r) b m' Ha Hb H1 H2) as F'.
    unfold p. rewrite (sf_bov_mem _ _ _ F'). fold o. apply node_mem_range in Hm'.
    destruct (Z.leb_spec (t_start o) m'), (Z.leb_spec m' (t_end o)); cbn [andb]; try reflexivity; lia. }
  assert (Hmeet : node_mem m o && node_mem m p = node_mem m (Node s e bits l r) && node_mem m b).
  { destruct (node_mem m (Node s e bits l r)) eqn:Ea.
    - destruct ((t_start b <=? m) && (m <=? t_end b)) eqn:Er.
      + assert (Eo : node_mem m o = true) by (rewrite Om; reflexivity). rewrite Eo, (Hrange m Eo). reflexivity.
      + rewrite Om. cbn [andb]. destruct (node_mem m b) eqn:Eb; [|reflexivity]. apply node_mem_range in Eb.
        destruct (Z.leb_spec (t_start b) m), (Z.leb_spec m (t_end b)); cbn [andb] in Er; try discriminate; lia.
    - rewrite Om. rewrite andb_false_r. reflexivity. }
  rewrite <- Hmeet. clear Hmeet.
  pose proof Ook as Ook'. pose proof Pok as Pok'.
  destruct Ook as [No [Hose Hook]]. destruct Pok as [Np [Hpse Hpok]].
  unfold inter_bits. destruct (t_bits p) as [pb|] eqn:Epb.
  - (* b-overlap has bits: aligned at overlap's start *)
    assert (Eps : t_start p = t_start o) by (apply (extract_start_bits _ _ _ _ Epb)).
    cbn [set_bits]. split.
    + split; [discriminate|]. unfold node_ok. cbn [t_start t_end t_bits bits_ok]. split; [exact Hose|].
      apply small_iff; [lia|]. split.
      * apply Z.land_nonneg. right. destruct p as [|ps pe pb' pl pr]; [congruence|]. cbn [t_bits] in Epb. subst pb'.
        cbn [t_start t_end t_bits bits_ok] in Hpok. lia.
      * intros i Hi. rewrite Z.land_spec.
        rewrite (overlap_bits_spec (Node (t_start o) (t_end o) bits l r) o i Ook' eq_refl eq_refl).
        destruct (node_mem (t_start o + i) o) eqn:E; [|reflexivity]. apply node_mem_range in E. lia.
    + rewrite node_mem_Node. unfold nmem.
      destruct (Z.leb_spec (t_start o) m) as [C1|C1]; cbn [andb].
      * destruct (Z.leb_spec m (t_end o)) as [C2|C2]; cbn [andb].
        -- rewrite Z.land_spec.
           rewrite (overlap_bits_spec (Node (t_start o) (t_end o) bits l r) o (m - t_start o) Ook' eq_refl eq_refl).
           rewrite (bits_testbit_mem p pb (m - t_start o) Pok' Epb). rewrite Eps.
           replace (t_start o + (m - t_start o)) with m by lia. reflexivity.
        -- destruct (node_mem m o) eqn:E; [apply node_mem_range in E; lia|reflexivity].
      * destruct (node_mem m o) eqn:E; [apply node_mem_range in E; lia|reflexivity].
  - (* b-overlap is a range: it is b inside overlap's range, hence it covers overlap *)
    cbn [set_bits]. split.
    + split; [discriminate|]. unfold node_ok. cbn [t_start t_end t_bits]. split; [exact Hose|exact Hook].
    + assert (Ebn : t_bits b = None).
      { pose proof (extract_bits_kind b (t_start o) (t_end o)) as K. fold o in K. change (node_extract b (t_start o) (t_end o)) with p in K.
        rewrite Epb in K. destruct (t_bits b); [discriminate|reflexivity]. }
      replace (node_mem m (Node (t_start o) (t_end o) (t_bits o) l r)) with (node_mem m o)
        by (destruct o; [congruence|reflexivity]).
      destruct (node_mem m o) eqn:E; [|reflexivity]. cbn [andb]. rewrite (Hrange m E).
      symmetry in Om. apply andb_prop in Om. destruct Om as [Om _]. apply andb_prop in Om. destruct Om as [E1 E2].
      destruct b as [|bs be bb bl br]; [destruct Hb; congruence|]. cbn [t_bits t_start t_end] in *. subst bb.
      rewrite node_mem_Node. unfold nmem. rewrite E1, E2. reflexivity.
Qed.

(* ------------------------------------------------------------------ the loop of iset-intersection2! *)
Lemma inter_loop_spec : forall fuel na nb res r,
  SL (map snd na) -> SL nb -> Forall (fun x => nok (snd x)) res ->
  inter_loop fuel na nb res = Some r ->
  Forall (fun x => nok (snd x)) r /\
  forall m, memA m r = memA m res || (memA m na && mem m nb).
Proof.
  induction fuel as [|f IH]; intros na nb res r Ha Hb Hres E; [discriminate|].
  destruct na as [|[ia a] na'].
  { cbn in E. injection E as <-. split; [exact Hres|]. intro m. cbn. rewrite orb_false_r. reflexivity. }
  destruct nb as [|b nb'].
  { cbn in E. injection E as <-. split; [exact Hres|]. intro m. unfold mem. cbn [existsb]. rewrite andb_false_r, orb_false_r. reflexivity. }
  rewrite inter_loop_S in E. cbn [map snd] in Ha.
  pose proof (SL_head_ok _ _ Ha) as Oka. pose proof (SL_head_ok _ _ Hb) as Okb.
  rewrite !Z.gtb_ltb in E.
  destruct (Z.ltb_spec (t_end a) (t_start b)) as [C1|C1].
  { (* a entirely below b: next a *)
    destruct (IH _ _ _ _ (SL_tail _ _ Ha) Hb Hres E) as [R1 R2]. split; [exact R1|]. intro m. rewrite R2.
    f_equal. unfold memA at 2. cbn [existsb snd]. fold (memA m na').
    destruct (node_mem m a) eqn:Ea; [|reflexivity]. cbn [orb].
    destruct (mem m (b :: nb')) eqn:Eb; [|rewrite andb_false_r; reflexivity].
    apply node_mem_range in Ea. pose proof (SL_mem_ge _ _ _ Hb Eb). lia. }
  destruct (Z.ltb_spec (t_end b) (t_start a)) as [C2|C2].
  { (* b entirely below a: next b *)
    destruct (IH ((ia, a) :: na') _ _ _ Ha (SL_tail _ _ Hb) Hres E) as [R1 R2]. split; [exact R1|]. intro m. rewrite R2.
    f_equal. unfold mem at 2. cbn [existsb]. fold (mem m nb').
    destruct (node_mem m b) eqn:Eb; [|reflexivity]. cbn [orb]. rewrite andb_true_r.
    destruct (memA m ((ia, a) :: na')) eqn:Ea; [|reflexivity]. cbn [andb].
    rewrite memA_map in Ea. cbn [map snd] in Ea. pose proof (SL_mem_ge _ _ _ Ha Ea).
    apply node_mem_range in Eb. lia. }
  (* overlap *)
  assert (Ha' : SL (map snd (match aright a b with Some x => (None, x) :: na' | None => na' end))).
  { destruct (aright a b) as [x|] eqn:Ex; [|exact (SL_tail _ _ Ha)].
    destruct (sf_ar _ _ 0 (step_facts_hold a b 0 Oka Okb C1 C2) x Ex) as (X1 & X2 & X3 & _).
    cbn [map snd]. apply (SL_replace a x _ Ha X1 X3). }
  assert (Hb' : SL (push (bright a b) nb')).
  { destruct (bright a b) as [y|] eqn:Ey; cbn [push]; [|exact (SL_tail _ _ Hb)].
    destruct (sf_br _ _ 0 (step_facts_hold a b 0 Oka Okb C1 C2) y Ey) as (Y1 & Y2 & Y3 & _).
    apply (SL_replace b y _ Hb Y1 Y3). }
  assert (Hres' : Forall (fun x : anode => nok (snd x)) ((ia, inode a b) :: res)).
  { constructor; [|exact Hres]. cbn [snd]. apply (inode_ok a b 0 Oka Okb C1 C2). }
  destruct (IH _ _ _ _ Ha' Hb' Hres' E) as [R1 R2]. split; [exact R1|]. intro m. rewrite R2. clear R2 IH E.
  pose proof (step_facts_hold a b m Oka Okb C1 C2) as F.
  destruct (inode_ok a b m Oka Okb C1 C2) as [_ Im].
  change (memA m ((ia, inode a b) :: res)) with (node_mem m (inode a b) || memA m res). rewrite Im.
  (* the a side and the b side of the new lists *)
  match goal with |- context [memA m ?la && mem m ?lb] => set (LA := la); set (LB := lb) end.
  assert (EA : memA m LA = ((t_end b <? m) && node_mem m a) || memA m na').
  { unfold LA. destruct (aright a b) as [x|] eqn:Ex.
    - destruct (sf_ar _ _ _ F x Ex) as (_ & _ & _ & _ & _ & Xm). unfold memA at 1. cbn [existsb snd]. rewrite Xm. reflexivity.
    - pose proof (sf_ar_none _ _ _ F Ex). destruct (node_mem m a) eqn:Ea; [|rewrite andb_false_r; reflexivity].
      apply node_mem_range in Ea. destruct (Z.ltb_spec (t_end b) m); [lia|reflexivity]. }
  assert (EB : mem m LB = ((t_end (ov a b) <? m) && node_mem m b) || mem m nb').
  { unfold LB. destruct (bright a b) as [y|] eqn:Ey; cbn [push].
    - destruct (sf_br _ _ _ F y Ey) as (_ & _ & _ & Ym). unfold mem at 1. cbn [existsb]. rewrite Ym. reflexivity.
    - pose proof (sf_br_none _ _ _ F Ey). destruct (node_mem m b) eqn:Eb; [|rewrite andb_false_r; reflexivity].
      apply node_mem_range in Eb. destruct (Z.ltb_spec (t_end (ov a b)) m); [lia|reflexivity]. }
  rewrite EA, EB. clear EA EB LA LB.
  change (memA m ((ia, a) :: na')) with (node_mem m a || memA m na'). change (mem m (b :: nb')) with (node_mem m b || mem m nb').
  assert (TA : memA m na' = true -> t_end a < m).
  { intro T. rewrite memA_map in T. apply (SL_mem_tail a _ m Ha T). }
  assert (TB : mem m nb' = true -> t_end b < m) by (apply (SL_mem_tail b _ m Hb)).
  assert (RA : node_mem m a = true -> t_start a <= m <= t_end a) by apply node_mem_range.
  assert (RB : node_mem m b = true -> t_start b <= m <= t_end b) by apply node_mem_range.
  assert (RO : node_mem m a = true -> node_mem m b = true -> m <= t_end (ov a b)).
  { intros Ta Tb. specialize (RB Tb). assert (To : node_mem m (ov a b) = true).
    { rewrite (sf_ov_mem _ _ _ F), Ta. destruct (Z.leb_spec (t_start b) m), (Z.leb_spec m (t_end b)); cbn [andb]; try reflexivity; lia. }
    apply node_mem_range in To. lia. }
  pose proof (sf_ov_end_a _ _ _ F) as Oea. pose proof (sf_ov_end_b _ _ _ F) as Oeb.
  destruct (memA m res); [rewrite orb_true_r; reflexivity|]. rewrite orb_false_r. cbn [orb].
  destruct (node_mem m a) eqn:Ta, (node_mem m b) eqn:Tb, (memA m na') eqn:Tna, (mem m nb') eqn:Tnb;
    try specialize (RA eq_refl); try specialize (RB eq_refl); try specialize (TA eq_refl); try specialize (TB eq_refl);
    try specialize (RO eq_refl eq_refl);
    destruct (Z.ltb_spec (t_end b) m), (Z.ltb_spec (t_end (ov a b)) m); cbn [andb orb]; try reflexivity; lia.
Qed.

(** the fuel of the model suffices (any lists): after a step that pushes both remainders the head of
    nodes-a starts above the end of the head of nodes-b, and the next step drops that b-node *)
Definition ahead (na : list anode) (nb : list tree) : bool :=
  match na, nb with x :: _, b :: _ => t_end b <? t_start (snd x) | _, _ => false end.
Definition inter_need (na : list anode) (nb : list tree) : nat :=
  (2 * (length na + length nb) + 1 - (if ahead na nb then 1 else 0))%nat.

Lemma extract_bounds : forall n s e, s <= t_start (node_extract n s e) /\ t_end (node_extract n s e) <= e.
Proof.
  intros n s e. destruct (extract_shape n s e) as (xs & xe & xb & E & H1 & H2). rewrite E. cbn [t_start t_end]. lia.
Qed.

Lemma remainders_ahead : forall a b x y, aright a b = Some x -> bright a b = Some y -> t_end y < t_start x.
Proof.
  intros a b x y Hx Hy. unfold aright in Hx. unfold bright in Hy.
  destruct (t_end a >? t_end b); [|discriminate]. destruct (t_end b >? t_end (ov a b)); [|discriminate].
  injection Hx as <-. injection Hy as <-.
  pose proof (extract_bounds a (t_end b + 1) (t_end a)). pose proof (extract_bounds b (t_end (ov a b) + 1) (t_end b)). lia.
Qed.

Lemma inter_loop_total_gen : forall fuel na nb res, (inter_need na nb <= fuel)%nat ->
  exists r, inter_loop fuel na nb res = Some r.
Proof.
  induction fuel as [|f IH]; intros na nb res Hn.
  { unfold inter_need in Hn. destruct (ahead na nb) eqn:E; [|lia].
    destruct na, nb; cbn in E; try discriminate. cbn [length] in Hn. lia. }
  destruct na as [|[ia a] na']; [eexists; reflexivity|].
  destruct nb as [|b nb']; [eexists; reflexivity|].
  rewrite inter_loop_S. unfold inter_need in Hn. cbn [length ahead snd] in Hn.
  rewrite !Z.gtb_ltb.
  destruct (Z.ltb_spec (t_end a) (t_start b)) as [C1|C1].
  { apply IH. unfold inter_need. cbn [length]. destruct (ahead na' (b :: nb')), (t_end b <? t_start a); lia. }
  destruct (Z.ltb_spec (t_end b) (t_start a)) as [C2|C2].
  { apply IH. unfold inter_need. cbn [length]. destruct (ahead ((ia, a) :: na') nb'); lia. }
  apply IH. unfold inter_need.
  destruct (aright a b) as [x|] eqn:Ex, (bright a b) as [y|] eqn:Ey; cbn [push length].
  - pose proof (remainders_ahead a b x y Ex Ey) as Hxy. cbn [ahead snd].
    destruct (Z.ltb_spec (t_end y) (t_start x)); lia.
  - destruct (ahead ((None, x) :: na') nb'); lia.
  - destruct (ahead na' (y :: nb')); lia.
  - destruct (ahead na' nb'); lia.
Qed.

Theorem inter_loop_total : forall na nb res, exists r, inter_loop (inter_fuel na nb) na nb res = Some r.
Proof.
  intros. apply inter_loop_total_gen. unfold inter_need, inter_fuel. destruct (ahead na nb); lia.
Qed.

(* ------------------------------------------------------------------ iset-intersection2! *)
Lemma inter_finish_fields : forall final x,
  t_start (inter_finish final x) = t_start (snd x) /\ t_end (inter_finish final x) = t_end (snd x) /\
  t_bits (inter_finish final x) = t_bits (snd x) /\ inter_finish final x <> Nil.
Proof.
  intros final [[i|] n]; unfold inter_finish; cbn [fst snd t_start t_end t_bits]; repeat split; discriminate.
Qed.

Lemma inter_finish_mem : forall final m res,
  mem m (map (inter_finish final) res) = memA m res.
Proof.
  intros final m res. unfold mem, memA. induction res as [|x res IH]; cbn [map existsb]; [reflexivity|].
  rewrite IH. f_equal. destruct (inter_finish_fields final x) as (E1 & E2 & E3 & _).
  unfold node_mem. rewrite E1, E2, E3. reflexivity.
Qed.

Lemma inter_finish_ok : forall final res, Forall (fun x : anode => nok (snd x)) res ->
  Forall (fun n => n <> Nil /\ node_ok n) (map (inter_finish final) res).
Proof.
  intros final res H. induction H as [|x res Hx _ IH]; cbn [map]; constructor; [|exact IH].
  destruct (inter_finish_fields final x) as (E1 & E2 & E3 & E4). split; [exact E4|].
  destruct Hx as [_ Hx]. unfold node_ok in *. rewrite E1, E2, E3. exact Hx.
Qed.

Lemma contains_make_iset0 : forall m, contains make_iset0 m = false.
Proof. intro m. cbn [make_iset0 contains]. destruct (m <? 0); [reflexivity|]. destruct (m >? 0); [reflexivity|]. apply Z.testbit_0_l. Qed.

Theorem intersection2_spec : forall a b t, wf a -> wf b -> intersection2 a b = Some t ->
  wf t /\ t <> Nil /\ forall m, contains t m = contains a m && contains b m.
Proof.
  intros a b t Ha Hb E. unfold intersection2, inter_res in E.
  set (na := number_from 0 (nodes a)) in *.
  destruct (inter_loop (inter_fuel na (nodes b)) na (nodes b) []) as [res|] eqn:El; [|discriminate].
  injection E as <-.
  assert (Hna : SL (map snd na)) by (unfold na; rewrite map_snd_number_from; apply nodes_sorted; exact Ha).
  destruct (inter_loop_spec _ _ _ _ _ Hna (nodes_sorted b Hb) (Forall_nil _) El) as [R1 R2].
  set (final := inter_final_tree a res).
  destruct (fold_adjoin_node_ok (map (inter_finish final) res) make_iset0 wf_make_iset0 ltac:(discriminate)
              (inter_finish_ok final res R1)) as (W & N & C).
  split; [exact W|]. split; [exact N|]. intro m. rewrite C, contains_make_iset0. cbn [orb].
  fold (mem m (map (inter_finish final) res)). rewrite inter_finish_mem, R2. cbn [memA existsb orb].
  rewrite memA_map. unfold na. rewrite map_snd_number_from. unfold mem.
  rewrite <- !contains_nodes by assumption. reflexivity.
Qed.

Theorem iset_intersection_refines_set : forall a b t m, wf a -> wf b -> a <> Nil -> b <> Nil ->
  intersection2 a b = Some t ->
  wf t /\ t <> Nil /\ contains t m = contains a m && contains b m.
Proof.
  intros a b t m Ha Hb _ _ E. destruct (intersection2_spec a b t Ha Hb E) as (W & N & C). auto.
Qed.

Theorem iset_intersection_to_list : forall a b t, wf a -> wf b -> intersection2 a b = Some t ->
  to_list t = set_inter (to_list a) (to_list b).
Proof.
  intros a b t Ha Hb E. destruct (intersection2_spec a b t Ha Hb E) as (W & N & C). apply canon_ext.
  - apply to_list_spec. exact W.
  - unfold set_inter. apply canon_filter. apply to_list_spec. exact Ha.
  - intro x. rewrite set_mem_inter, <- !contains_set_mem by assumption. apply C.
Qed.

Theorem intersection2_total : forall a b, exists t, intersection2 a b = Some t.
Proof.
  intros a b. unfold intersection2, inter_res.
  destruct (inter_loop_total (number_from 0 (nodes a)) (nodes b) []) as [r Er]. rewrite Er. eexists. reflexivity.
Qed.

(* ------------------------------------------------------------------ iset-difference2!: the fuel suffices *)
Definition dnode (a b : tree) : tree :=
  diff_bits (set_range (match aleft a b with Some x => insert_left a x | None => a end) (ov a b)) (ov a b) (bov a b).

Lemma diff_node_S : forall recR f a b nb',
  diff_node recR (S f) a (b :: nb') =
  if t_start b >? t_end a then
    match recR (b :: nb') with Some (r', nb2) => Some (set_right a r', nb2) | None => None end
  else if t_start a >? t_end b then diff_node recR f a nb'
  else match aright a b with
       | Some x => match diff_node recR f (t_right (insert_right (dnode a b) x)) (push (bright a b) nb') with
                   | Some (x', nb3) => Some (set_right (insert_right (dnode a b) x) x', nb3)
                   | None => None
                   end
       | None => match recR (push (bright a b) nb') with
                 | Some (r', nb3) => Some (set_right (dnode a b) r', nb3)
                 | None => None
                 end
       end.
Proof. reflexivity. Qed.

Lemma dnode_Node : forall s e bits l r b, exists bits' l1,
  dnode (Node s e bits l r) b =
  Node (t_start (ov (Node s e bits l r) b)) (t_end (ov (Node s e bits l r) b)) bits' l1 r.
Proof.
  intros. unfold dnode, diff_bits, set_range.
  destruct (aleft (Node s e bits l r) b); cbn [insert_left set_left set_start set_end];
    destruct (t_bits (bov (Node s e bits l r) b)); cbn [set_bits]; eexists _, _; reflexivity.
Qed.

Lemma insert_right_hung : forall r n s e x, node_extract n s e = x -> forall s' e' b' l',
  exists xs xe xb xl xr, t_right (insert_right (Node s' e' b' l' r) x) = Node xs xe xb xl xr /\ xs = t_start x.
Proof.
  intros r n s e x Hx s' e' b' l'. destruct (extract_shape n s e) as (xs & xe & xb & E & _). rewrite E in Hx. subst x.
  unfold insert_right. cbn [t_right set_right t_start t_end].
  destruct r as [|rs re rb rl rr]; [cbn [set_left]; eexists _, _, _, _, _; split; reflexivity|].
  cbn [t_start]. destruct (xe <? rs); cbn [set_left set_right]; eexists _, _, _, _, _; split; reflexivity.
Qed.

Definition dahead (a : tree) (nb : list tree) : bool :=
  match nb with b :: _ => t_end b <? t_start a | [] => false end.
Definition diff_need (a : tree) (nb : list tree) : nat :=
  (2 * length nb + 1 - (if dahead a nb then 1 else 0))%nat.

Lemma diff_node_total_gen : forall recR, (forall nb, exists r, recR nb = Some r) ->
  forall fuel a nb, a <> Nil -> (diff_need a nb <= fuel)%nat -> exists r, diff_node recR fuel a nb = Some r.
Proof.
  intros recR HR. induction fuel as [|f IH]; intros a nb Ha Hn.
  { unfold diff_need in Hn. destruct (dahead a nb) eqn:E; [|lia]. destruct nb; cbn in E; [discriminate|]. cbn [length] in Hn. lia. }
  destruct nb as [|b nb']; [eexists; reflexivity|].
  rewrite diff_node_S. unfold diff_need in Hn. cbn [length dahead] in Hn. rewrite !Z.gtb_ltb.
  destruct (Z.ltb_spec (t_end a) (t_start b)) as [C1|C1].
  { destruct (HR (b :: nb')) as [[r' nb2] E]. rewrite E. eexists; reflexivity. }
  destruct (Z.ltb_spec (t_end b) (t_start a)) as [C2|C2].
  { apply IH; [exact Ha|]. unfold diff_need. destruct (dahead a nb'); lia. }
  destruct (aright a b) as [x|] eqn:Ex.
  - destruct a as [|s e bits l r]; [congruence|].
    destruct (dnode_Node s e bits l r b) as (bits' & l1 & Ed). rewrite Ed.
    assert (Hx : node_extract (Node s e bits l r) (t_end b + 1) (t_end (Node s e bits l r)) = x).
    { unfold aright in Ex. destruct (t_end (Node s e bits l r) >? t_end b); [|discriminate]. injection Ex as Ex. exact Ex. }
    destruct (insert_right_hung r _ _ _ x Hx (t_start (ov (Node s e bits l r) b)) (t_end (ov (Node s e bits l r) b)) bits' l1)
      as (xs & xe & xb & xl & xr & Eh & Exs).
    rewrite Eh.
    destruct (IH (Node xs xe xb xl xr) (push (bright (Node s e bits l r) b) nb') ltac:(discriminate)) as [[x' nb3] E].
    { unfold diff_need. destruct (bright (Node s e bits l r) b) as [y|] eqn:Ey; cbn [push length].
      - pose proof (remainders_ahead _ _ x y Ex Ey) as Hxy. cbn [dahead t_start]. rewrite Exs.
        destruct (Z.ltb_spec (t_end y) (t_start x)); lia.
      - destruct (dahead (Node xs xe xb xl xr) nb'); lia. }
    rewrite E. eexists; reflexivity.
  - destruct (HR (push (bright a b) nb')) as [[r' nb3] E]. rewrite E. eexists; reflexivity.
Qed.

Theorem diff_tree_total : forall t nb, exists r, diff_tree t nb = Some r.
Proof.
  induction t as [|s e bits l IHl r IHr]; intro nb; [eexists; reflexivity|].
  cbn [diff_tree]. destruct nb as [|b nb']; [eexists; reflexivity|].
  destruct (IHl (b :: nb')) as [[l' nb1] El]. rewrite El.
  apply diff_node_total_gen; [exact IHr|discriminate|].
  unfold diff_need, diff_fuel. destruct (dahead (Node s e bits l' r) nb1); lia.
Qed.

Theorem difference2_total : forall a b, exists t, difference2 a b = Some t.
Proof.
  intros a b. unfold difference2. destruct (diff_tree_total a (nodes b)) as [[t nb'] E]. rewrite E. eexists; reflexivity.
Qed.

Theorem iset_interdiff_fuel_suffices : forall a b, wf a -> wf b ->
  (exists t, intersection2 a b = Some t) /\ (exists t, difference2 a b = Some t).
Proof. intros a b _ _. split; [apply intersection2_total|apply difference2_total]. Qed.

(* ------------------------------------------------------------------ iset-difference2!: wf and set difference *)
Definition hd_ge (lo : Z) (nb : list tree) : Prop := match nb with [] => True | b :: _ => lo <= t_start b end.
Definition hd_mono (nb nb' : list tree) : Prop :=
  match nb, nb' with
  | b :: _, b' :: _ => t_start b <= t_start b'
  | [], _ :: _ => False
  | _, [] => True
  end.

(** what the traversal of the subtree t with nodes-b = nb must return *)
Record dspec (t : tree) (nb : list tree) (t' : tree) (nb' : list tree) : Prop := {
  d_wf : wf t';
  d_nil : t <> Nil -> t' <> Nil;
  d_mem : forall m, contains t' m = contains t m && negb (mem m nb);
  d_sl : SL nb';
  d_above : forall hi m, tree_all (fun _ e => e <= hi) t -> hi < m -> mem m nb' = mem m nb;
  d_lo : forall lo, tree_all (fun s _ => lo <= s) t -> hd_ge lo nb -> tree_all (fun s _ => lo <= s) t';
  d_hi : forall hi, tree_all (fun _ e => e <= hi) t -> tree_all (fun _ e => e <= hi) t';
  d_done : forall b' rest, nb' = b' :: rest -> tree_all (fun _ e => e < t_start b') t';
  d_mono : hd_mono nb nb'
}.

Lemma hd_mono_refl : forall nb, hd_mono nb nb.
Proof. intros [|b nb]; cbn; [exact I|lia]. Qed.

Lemma hd_mono_trans : forall n1 n2 n3, hd_mono n1 n2 -> hd_mono n2 n3 -> hd_mono n1 n3.
Proof. intros [|a n1] [|b n2] [|c n3]; cbn; try tauto; lia. Qed.

Lemma hd_ge_mono : forall lo n1 n2, hd_ge lo n1 -> hd_mono n1 n2 -> n1 <> [] -> hd_ge lo n2.
Proof. intros lo [|a n1] [|b n2]; cbn; try tauto; try congruence; lia. Qed.

Lemma mem_nil : forall m, mem m [] = false.
Proof. reflexivity. Qed.

Lemma mem_cons : forall m b l, mem m (b :: l) = node_mem m b || mem m l.
Proof. reflexivity. Qed.

Lemma SL_nil : SL [].
Proof. split; constructor. Qed.

Lemma SL_hd_tail : forall b b' l, SL (b :: b' :: l) -> t_end b < t_start b'.
Proof. intros b b' l [_ H]. inversion H as [|? ? _ Hf]. subst. inversion Hf. assumption. Qed.

Lemma SL_push : forall b nb1 y, SL (b :: nb1) -> nok y -> t_end y <= t_end b -> SL (push (Some y) nb1).
Proof. intros b nb1 y H Hy Hle. cbn [push]. apply (SL_replace b y nb1 H Hy Hle). Qed.

Lemma all_lt_le : forall x t, tree_all (fun _ e => e < x) t <-> tree_all (fun _ e => e <= x - 1) t.
Proof. intros x t. split; apply tree_all_impl; intros; lia. Qed.
Lemma all_gt_ge : forall x t, tree_all (fun s _ => x < s) t <-> tree_all (fun s _ => x + 1 <= s) t.
Proof. intros x t. split; apply tree_all_impl; intros; lia. Qed.

Lemma dspec_nil_nb : forall t, wf t -> dspec t [] t [].
Proof.
  intros t Hwf. constructor; try tauto.
  - intro m. rewrite mem_nil, andb_true_r. reflexivity.
  - exact SL_nil.
  - intros; discriminate.
  - exact I.
Qed.

Lemma set_right_insert_right : forall t x z, set_right (insert_right t x) z = set_right t z.
Proof. intros [|s e b l r] x z; reflexivity. Qed.

(** b-overlap inside overlap's range is b *)
Lemma bov_mem_in_ov : forall a b m, nok a -> nok b -> t_start b <= t_end a -> t_start a <= t_end b ->
  node_mem m (ov a b) = true -> node_mem m (bov a b) = node_mem m b.
Proof.
  intros a b m Ha Hb H1 H2 Hm. pose proof (step_facts_hold a b m Ha Hb H1 H2) as F.
  rewrite (sf_bov_mem _ _ _ F). apply node_mem_range in Hm.
  destruct (Z.leb_spec (t_start (ov a b)) m), (Z.leb_spec m (t_end (ov a b))); cbn [andb]; try reflexivity; lia.
Qed.

(** the new bits of a in iset-difference2! *)
Lemma diff_bits_ok : forall a b n m, nok a -> nok b -> t_start b <= t_end a -> t_start a <= t_end b ->
  n <> Nil -> t_start n = t_start (ov a b) -> t_end n = t_end (ov a b) ->
  exists bits', diff_bits n (ov a b) (bov a b) = Node (t_start n) (t_end n) bits' (t_left n) (t_right n) /\
    bits_ok (t_start n) (t_end n) bits' /\
    nmem (t_start n) (t_end n) bits' m = node_mem m (ov a b) && negb (node_mem m (bov a b)).
Proof.
  intros a b n m Ha Hb H1 H2 Hn Es Ee. pose proof (step_facts_hold a b m Ha Hb H1 H2) as F.
  destruct F as [Ook Os Oeb Oea Om Pok Ps Pe Pm _ _ _ _ _ _].
  set (o := ov a b) in *. set (p := bov a b) in *.
  destruct n as [|ns ne nbits nl nr]; [congruence|]. cbn [t_start t_end t_left t_right] in *. subst ns ne.
  pose proof Ook as Ook'. pose proof Pok as Pok'.
  destruct Ook as [No [Hose Hook]]. destruct Pok as [Np [Hpse Hpok]].
  unfold diff_bits. destruct (t_bits p) as [pb|] eqn:Epb; cbn [set_bits].
  - assert (Eps : t_start p = t_start o) by (apply (extract_start_bits _ _ _ _ Epb)).
    eexists. split; [reflexivity|].
    assert (Hob : forall i, Z.testbit (overlap_bits (Node (t_start o) (t_end o) nbits nl nr) o) i = node_mem (t_start o + i) o).
    { intro i. apply overlap_bits_spec; [exact Ook'|reflexivity|reflexivity]. }
    split.
    + cbn [bits_ok]. apply small_iff; [lia|]. split.
      * apply Z.land_nonneg. left.
        destruct o as [|os oe ob ol or]; [congruence|]. unfold overlap_bits. cbn [t_bits t_start t_end] in *.
        change (match ob with Some x => x | None => range_bits os oe end) with (bor os oe ob). apply bor_nonneg; assumption.
      * intros i Hi. rewrite Z.land_spec, Hob.
        destruct (node_mem (t_start o + i) o) eqn:E; [|reflexivity]. apply node_mem_range in E. lia.
    + unfold nmem.
      destruct (Z.leb_spec (t_start o) m) as [C1|C1]; cbn [andb].
      * destruct (Z.leb_spec m (t_end o)) as [C2|C2]; cbn [andb].
        -- rewrite Z.land_spec, Hob, Z.lnot_spec by lia.
           rewrite (bits_testbit_mem p pb (m - t_start o) Pok' Epb). rewrite Eps.
           replace (t_start o + (m - t_start o)) with m by lia. reflexivity.
        -- destruct (node_mem m o) eqn:E; [apply node_mem_range in E; lia|reflexivity].
      * destruct (node_mem m o) eqn:E; [apply node_mem_range in E; lia|reflexivity].
  - eexists. split; [reflexivity|]. split.
    + cbn [bits_ok]. assert (0 < 2 ^ (t_end o - t_start o + 1)) by (apply Z.pow_pos_nonneg; lia). lia.
    + unfold nmem. rewrite Z.testbit_0_l, andb_false_r.
      destruct (node_mem m o) eqn:E; [|reflexivity]. cbn [andb].
      unfold p. rewrite (bov_mem_in_ov a b m Ha Hb H1 H2 E).
      assert (Ebn : t_bits b = None).
      { pose proof (extract_bits_kind b (t_start o) (t_end o)) as K. change (node_extract b (t_start o) (t_end o)) with p in K.
        rewrite Epb in K. destruct (t_bits b); [discriminate|reflexivity]. }
      symmetry in Om. apply andb_prop in Om. destruct Om as [Om _]. apply andb_prop in Om. destruct Om as [E1 E2].
      destruct b as [|bs be bb bl br]; [destruct Hb; congruence|]. cbn [t_bits t_start t_end] in *. subst bb.
      rewrite node_mem_Node. unfold nmem. rewrite E1, E2. reflexivity.
Qed.

(** the node a after the else clause of iset-difference2!, before (iset-insert-right! a right) *)
Lemma dnode_ok : forall s e bits l R b,
  wf (Node s e bits l R) -> nok b -> tree_all (fun _ e' => e' < t_start b) l -> t_start b <= e -> s <= t_end b ->
  exists bits' l1, dnode (Node s e bits l R) b =
      Node (t_start (ov (Node s e bits l R) b)) (t_end (ov (Node s e bits l R) b)) bits' l1 R /\
    bits_ok (t_start (ov (Node s e bits l R) b)) (t_end (ov (Node s e bits l R) b)) bits' /\
    wf l1 /\ tree_all (fun _ e' => e' < t_start (ov (Node s e bits l R) b)) l1 /\
    (forall m, nmem (t_start (ov (Node s e bits l R) b)) (t_end (ov (Node s e bits l R) b)) bits' m =
               node_mem m (ov (Node s e bits l R) b) && negb (node_mem m (bov (Node s e bits l R) b))) /\
    (forall m, contains l1 m = contains l m || ((m <? t_start b) && node_mem m (Node s e bits l R))) /\
    (forall lo, tree_all (fun s' _ => lo <= s') (Node s e bits l R) -> tree_all (fun s' _ => lo <= s') l1) /\
    (forall hi, tree_all (fun _ e' => e' <= hi) (Node s e bits l R) -> tree_all (fun _ e' => e' <= hi) l1).
Proof.
  intros s e bits l R b Hwf Hb HC C1 C2.
  assert (Hwf' := Hwf). cbn [wf] in Hwf'. destruct Hwf' as (Hse & Hok & Hl & Hr & Hwl & Hwr).
  set (a := Node s e bits l R) in *.
  assert (Ha : nok a).
  { split; [discriminate|]. unfold node_ok, a. cbn [t_start t_end t_bits]. tauto. }
  pose proof (step_facts_hold a b 0 Ha Hb C1 C2) as F0.
  assert (A1 : exists l1, (match aleft a b with Some x => insert_left a x | None => a end) = Node s e bits l1 R /\
     wf l1 /\ tree_all (fun _ e' => e' < t_start (ov a b)) l1 /\
     (forall m, contains l1 m = contains l m || ((m <? t_start b) && node_mem m a)) /\
     (forall lo, tree_all (fun s' _ => lo <= s') a -> tree_all (fun s' _ => lo <= s') l1) /\
     (forall hi, tree_all (fun _ e' => e' <= hi) a -> tree_all (fun _ e' => e' <= hi) l1)).
  { pose proof (sf_ov_start _ _ _ F0) as Os.
    destruct (aleft a b) as [x|] eqn:Ex.
    - destruct (sf_al _ _ _ F0 x Ex) as ([Nx [Hxse Hxok]] & X1 & X2 & X3 & X4 & _).
      destruct x as [|xs xe xb xl xr]; [congruence|]. cbn [t_start t_end t_bits t_left t_right] in *. subst xl xr. unfold a in X1. cbn [t_start] in X1.
      exists (Node xs xe xb l Nil).
      assert (Wl1 : wf (Node xs xe xb l Nil)).
      { cbn [wf tree_all]. repeat split; try assumption. eapply tree_all_impl; [|exact Hl]. cbn beta. intros; lia. }
      split.
      { unfold a, insert_left. cbn [t_left set_left t_end t_start].
        destruct l as [|ls le lb ll lr]; [reflexivity|]. cbn [t_start].
        cbn [tree_all] in Hl. cbn [wf] in Hwl. destruct (Z.ltb_spec xe ls); [lia|reflexivity]. }
      split; [exact Wl1|]. split.
      { cbn [tree_all]. split; [lia|]. split; [|exact I]. eapply tree_all_impl; [|exact HC]. cbn beta. intros; lia. }
      split.
      { intro m. rewrite (contains_node_bool _ _ _ _ _ m Wl1). cbn [contains]. rewrite orb_false_r.
        destruct (sf_al _ _ _ (step_facts_hold a b m Ha Hb C1 C2) _ Ex) as (_ & _ & _ & _ & _ & Xm).
        rewrite node_mem_Node in Xm. rewrite Xm. reflexivity. }
      split.
      { intros lo H. unfold a in H. cbn [tree_all] in H. cbn [tree_all]. split; [lia|]. tauto. }
      { intros hi H. unfold a in H. cbn [tree_all] in H. cbn [tree_all]. split; [lia|]. tauto. }
    - exists l. split; [reflexivity|]. split; [exact Hwl|]. split.
      { eapply tree_all_impl; [|exact HC]. cbn beta. intros; lia. }
      split.
      { intro m. pose proof (sf_al_none _ _ _ F0 Ex) as Hn. unfold a in Hn. cbn [t_start] in Hn.
        destruct (node_mem m a) eqn:Em; [|rewrite andb_false_r, orb_false_r; reflexivity].
        apply node_mem_range in Em. unfold a in Em. cbn [t_start] in Em.
        destruct (Z.ltb_spec m (t_start b)); [lia|]. rewrite orb_false_r. reflexivity. }
      split; intros ? H; unfold a in H; cbn [tree_all] in H; tauto. }
  destruct A1 as (l1 & E1 & Wl1 & Bl1 & Cl1 & Lo1 & Hi1).
  unfold dnode. fold a. rewrite E1. unfold set_range. cbn [set_start set_end].
  set (n := Node (t_start (ov a b)) (t_end (ov a b)) bits l1 R).
  destruct (diff_bits_ok a b n 0 Ha Hb C1 C2 ltac:(discriminate) eq_refl eq_refl) as (bits' & Eb & Bok & _).
  cbn [n t_start t_end t_left t_right] in Eb, Bok.
  exists bits', l1. split; [exact Eb|]. split; [exact Bok|]. split; [exact Wl1|]. split; [exact Bl1|].
  split; [|split; [exact Cl1|split; [exact Lo1|exact Hi1]]].
  intro m. destruct (diff_bits_ok a b n m Ha Hb C1 C2 ltac:(discriminate) eq_refl eq_refl) as (bits'' & Eb' & _ & Hm).
  cbn [n t_start t_end t_left t_right] in Eb', Hm. rewrite Eb in Eb'. injection Eb' as <-. exact Hm.
Qed.

Lemma hd_after : forall x nb2 b' rest, hd_ge x nb2 -> hd_mono nb2 (b' :: rest) -> x <= t_start b'.
Proof. intros x [|b2 nb2] b' rest; cbn; [tauto|lia]. Qed.

Lemma hd_ge_weaken : forall x y nb, hd_ge x nb -> y <= x -> hd_ge y nb.
Proof. intros x y [|b nb]; cbn; [tauto|lia]. Qed.

(** the else clause of iset-difference2!, given what the rest of the walk (the right remainder hung
    above R, or R itself) returns *)
Lemma assemble : forall s e bits l R b nb1 X X' nb3,
  wf (Node s e bits l R) -> SL (b :: nb1) -> tree_all (fun _ e' => e' < t_start b) l ->
  t_start b <= e -> s <= t_end b ->
  wf X ->
  (forall m, contains X m = ((t_end b <? m) && node_mem m (Node s e bits l R)) || contains R m) ->
  tree_all (fun s' _ => t_end (ov (Node s e bits l R) b) < s') X ->
  (forall hi, tree_all (fun _ e' => e' <= hi) (Node s e bits l R) -> tree_all (fun _ e' => e' <= hi) X) ->
  (forall lo, lo <= t_start b -> tree_all (fun s' _ => lo <= s') (Node s e bits l R) -> tree_all (fun s' _ => lo <= s') X) ->
  dspec X (push (bright (Node s e bits l R) b) nb1) X' nb3 ->
  dspec (Node s e bits l R) (b :: nb1) (set_right (dnode (Node s e bits l R) b) X') nb3.
Proof.
  intros s e bits l R b nb1 X X' nb3 Hwf Hsl HC C1 C2 WX CX LX HiX LoX D.
  pose proof (SL_head_ok _ _ Hsl) as Hb.
  assert (Hwf' := Hwf). cbn [wf] in Hwf'. destruct Hwf' as (Hse & Hok & Hl & Hr & Hwl & Hwr).
  destruct (dnode_ok s e bits l R b Hwf Hb HC C1 C2) as (bits' & l1 & Ed & Bok & Wl1 & Bl1 & Nm & Cl1 & Lo1 & Hi1).
  rewrite Ed. cbn [set_right]. clear Ed.
  set (a := Node s e bits l R) in *.
  assert (Ha : nok a).
  { split; [discriminate|]. unfold node_ok, a. cbn [t_start t_end t_bits]. tauto. }
  pose proof (step_facts_hold a b 0 Ha Hb C1 C2) as F0.
  pose proof (sf_ov_start _ _ _ F0) as Os. pose proof (sf_ov_end_a _ _ _ F0) as Oea. pose proof (sf_ov_end_b _ _ _ F0) as Oeb.
  destruct (sf_ov_ok _ _ _ F0) as [_ [Ose _]].
  unfold a in Oea. cbn [t_end] in Oea. fold a in Oea.
  set (os := t_start (ov a b)) in *. set (oe := t_end (ov a b)) in *. set (nb2 := push (bright a b) nb1) in *.
  assert (Hg2 : hd_ge (oe + 1) nb2).
  { unfold nb2. destruct (bright a b) as [y|] eqn:Ey; cbn [push].
    - destruct (sf_br _ _ _ F0 y Ey) as (_ & Y2 & _). cbn [hd_ge]. fold oe in Y2. lia.
    - destruct nb1 as [|b1 nb1']; [exact I|]. cbn [hd_ge]. pose proof (SL_hd_tail _ _ _ Hsl). lia. }
  assert (EB : forall m, mem m nb2 = ((oe <? m) && node_mem m b) || mem m nb1).
  { intro m. pose proof (step_facts_hold a b m Ha Hb C1 C2) as F. unfold nb2.
    destruct (bright a b) as [y|] eqn:Ey; cbn [push].
    - destruct (sf_br _ _ _ F y Ey) as (_ & _ & _ & Ym). rewrite mem_cons, Ym. reflexivity.
    - pose proof (sf_br_none _ _ _ F Ey) as Hn. fold oe in Hn. destruct (node_mem m b) eqn:Eb; [|rewrite andb_false_r; reflexivity].
      apply node_mem_range in Eb. destruct (Z.ltb_spec oe m); [lia|reflexivity]. }
  assert (WX' : tree_all (fun s' _ => oe < s') X').
  { apply all_gt_ge. apply (d_lo _ _ _ _ D); [apply all_gt_ge; exact LX|exact Hg2]. }
  assert (Wt : wf (Node os oe bits' l1 X')).
  { cbn [wf]. repeat split; try assumption. apply (d_wf _ _ _ _ D). }
  constructor.
  - exact Wt.
  - intros _. discriminate.
  - intro m. pose proof (step_facts_hold a b m Ha Hb C1 C2) as F.
    rewrite (contains_node_bool _ _ _ _ _ m Wt).
    replace (contains a m) with (contains l m || node_mem m a || contains R m)
      by (symmetry; apply (contains_node_bool s e bits l R m Hwf)).
    rewrite Cl1, Nm, (d_mem _ _ _ _ D), CX, EB, mem_cons.
    assert (No : node_mem m (ov a b) && negb (node_mem m (bov a b)) = node_mem m (ov a b) && negb (node_mem m b)).
    { destruct (node_mem m (ov a b)) eqn:Eo; [|reflexivity]. rewrite (bov_mem_in_ov a b m Ha Hb C1 C2 Eo). reflexivity. }
    rewrite No, (sf_ov_mem _ _ _ F). clear No.
    assert (TL : contains l m = true -> m < t_start b) by (apply contains_lt; assumption).
    assert (TR : contains R m = true -> e < m) by (apply contains_gt; assumption).
    assert (TB : mem m nb1 = true -> t_end b < m) by (apply (SL_mem_tail b _ m Hsl)).
    assert (RA : node_mem m a = true -> s <= m <= e) by (intro T; apply node_mem_range in T; exact T).
    assert (RB : node_mem m b = true -> t_start b <= m <= t_end b) by apply node_mem_range.
    destruct (contains l m) eqn:T1, (node_mem m a) eqn:T2, (contains R m) eqn:T3, (node_mem m b) eqn:T4, (mem m nb1) eqn:T5;
      try specialize (TL eq_refl); try specialize (TR eq_refl); try specialize (TB eq_refl);
      try specialize (RA eq_refl); try specialize (RB eq_refl);
      destruct (Z.ltb_spec m (t_start b)), (Z.ltb_spec (t_end b) m), (Z.ltb_spec oe m),
               (Z.leb_spec (t_start b) m), (Z.leb_spec m (t_end b)); cbn [andb orb negb]; try reflexivity; lia.
  - apply (d_sl _ _ _ _ D).
  - intros hi m Hhi Hm. rewrite (d_above _ _ _ _ D hi m (HiX hi Hhi) Hm), EB, mem_cons.
    unfold a in Hhi. cbn [tree_all] in Hhi. destruct (Z.ltb_spec oe m); [reflexivity|lia].
  - intros lo Hlo Hg. cbn [hd_ge] in Hg. cbn [tree_all]. split; [lia|]. split; [apply Lo1; exact Hlo|].
    apply (d_lo _ _ _ _ D); [apply LoX; assumption|]. apply (hd_ge_weaken _ _ _ Hg2). lia.
  - intros hi Hhi. cbn [tree_all]. split; [unfold a in Hhi; cbn [tree_all] in Hhi; lia|]. split; [apply Hi1; exact Hhi|].
    apply (d_hi _ _ _ _ D). apply HiX. exact Hhi.
  - intros b' rest E3. pose proof (d_mono _ _ _ _ D) as Mo. rewrite E3 in Mo. pose proof (hd_after _ _ _ _ Hg2 Mo) as Hb'.
    cbn [tree_all]. split; [lia|]. split; [|apply (d_done _ _ _ _ D _ _ E3)].
    eapply tree_all_impl; [|exact Bl1]. cbn beta. intros; lia.
  - destruct nb3 as [|b' rest]; [exact I|]. pose proof (d_mono _ _ _ _ D) as Mo. pose proof (hd_after _ _ _ _ Hg2 Mo) as Hb'.
    cbn [hd_mono]. lia.
Qed.

Lemma SL_push_bright : forall a b nb1, nok a -> SL (b :: nb1) -> t_start b <= t_end a -> t_start a <= t_end b ->
  SL (push (bright a b) nb1).
Proof.
  intros a b nb1 Ha Hsl C1 C2. pose proof (step_facts_hold a b 0 Ha (SL_head_ok _ _ Hsl) C1 C2) as F0.
  destruct (bright a b) as [y|] eqn:Ey; [|exact (SL_tail _ _ Hsl)].
  destruct (sf_br _ _ _ F0 y Ey) as (Y1 & _ & Y3 & _). apply (SL_push b nb1 y Hsl Y1 Y3).
Qed.

Lemma done_not_mem : forall t nb m, wf t -> SL nb ->
  (forall b rest, nb = b :: rest -> tree_all (fun _ e' => e' < t_start b) t) ->
  contains t m = true -> mem m nb = false.
Proof.
  intros t [|b rest] m Hwf Hsl HC Hm; [reflexivity|].
  destruct (mem m (b :: rest)) eqn:E; [|reflexivity].
  pose proof (SL_mem_ge _ _ _ Hsl E). pose proof (contains_lt t _ m Hwf (HC b rest eq_refl) Hm). lia.
Qed.

(** the loop at one node of the tree and its chain of right remainders *)
Lemma diff_node_spec : forall recR R, wf R ->
  (forall nb R' nb', SL nb -> recR nb = Some (R', nb') -> dspec R nb R' nb') ->
  forall fuel s e bits l nb a' nb',
  wf (Node s e bits l R) -> SL nb ->
  (forall b rest, nb = b :: rest -> tree_all (fun _ e' => e' < t_start b) l) ->
  diff_node recR fuel (Node s e bits l R) nb = Some (a', nb') ->
  dspec (Node s e bits l R) nb a' nb'.
Proof.
  intros recR R WR HR. induction fuel as [|f IH]; intros s e bits l nb a' nb' Hwf Hsl HC E; [discriminate|].
  destruct nb as [|b nb1].
  { cbn in E. injection E as <- <-. apply dspec_nil_nb. exact Hwf. }
  rewrite diff_node_S in E. cbn [t_start t_end] in E. rewrite !Z.gtb_ltb in E.
  assert (Hwf' := Hwf). cbn [wf] in Hwf'. destruct Hwf' as (Hse & Hok & Hl & Hr & Hwl & _).
  pose proof (SL_head_ok _ _ Hsl) as Hb. pose proof Hb as [_ [Hbse _]].
  specialize (HC b nb1 eq_refl).
  assert (Ha : nok (Node s e bits l R)).
  { split; [discriminate|]. unfold node_ok. cbn [t_start t_end t_bits]. tauto. }
  destruct (Z.ltb_spec e (t_start b)) as [C1|C1].
  { (* b entirely above a: the node is done, on to the right subtree *)
    destruct (recR (b :: nb1)) as [[R' nb2]|] eqn:ER; [|discriminate]. injection E as <- <-. cbn [set_right].
    pose proof (HR _ _ _ Hsl ER) as D.
    assert (WR' : tree_all (fun s' _ => e < s') R').
    { apply all_gt_ge. apply (d_lo _ _ _ _ D); [apply all_gt_ge; exact Hr|]. cbn [hd_ge]. lia. }
    assert (Wt : wf (Node s e bits l R')).
    { cbn [wf]. repeat split; try assumption. apply (d_wf _ _ _ _ D). }
    constructor.
    - exact Wt.
    - intros _. discriminate.
    - intro m. rewrite (contains_node_bool _ _ _ _ _ m Wt), (contains_node_bool _ _ _ _ _ m Hwf), (d_mem _ _ _ _ D).
      assert (TL : contains l m = true -> m < s) by (apply contains_lt; assumption).
      assert (TN : nmem s e bits m = true -> s <= m <= e) by apply nmem_range.
      assert (TM : mem m (b :: nb1) = true -> t_start b <= m) by (apply SL_mem_ge; exact Hsl).
      destruct (contains l m), (nmem s e bits m), (mem m (b :: nb1)); cbn [andb orb negb];
        try specialize (TL eq_refl); try specialize (TN eq_refl); try specialize (TM eq_refl);
        try reflexivity; try lia; rewrite ?andb_true_r, ?andb_false_r; reflexivity.
    - apply (d_sl _ _ _ _ D).
    - intros hi m Hhi Hm. cbn [tree_all] in Hhi. apply (d_above _ _ _ _ D hi m); tauto.
    - intros lo Hlo Hg. cbn [tree_all] in Hlo |- *. split; [tauto|]. split; [tauto|]. apply (d_lo _ _ _ _ D); tauto.
    - intros hi Hhi. cbn [tree_all] in Hhi |- *. split; [tauto|]. split; [tauto|]. apply (d_hi _ _ _ _ D); tauto.
    - intros b' rest E3. pose proof (d_mono _ _ _ _ D) as Mo. rewrite E3 in Mo. cbn [hd_mono] in Mo.
      cbn [tree_all]. split; [lia|]. split; [|apply (d_done _ _ _ _ D _ _ E3)].
      eapply tree_all_impl; [|exact Hl]. cbn beta. intros; lia.
    - apply (d_mono _ _ _ _ D). }
  destruct (Z.ltb_spec (t_end b) s) as [C2|C2].
  { (* b entirely below a: next b *)
    assert (HC1 : forall b1 rest, nb1 = b1 :: rest -> tree_all (fun _ e' => e' < t_start b1) l).
    { intros b1 rest ->. pose proof (SL_hd_tail _ _ _ Hsl). eapply tree_all_impl; [|exact HC]. cbn beta. intros; lia. }
    pose proof (IH s e bits l nb1 a' nb' Hwf (SL_tail _ _ Hsl) HC1 E) as D.
    constructor.
    - apply (d_wf _ _ _ _ D).
    - apply (d_nil _ _ _ _ D).
    - intro m. rewrite (d_mem _ _ _ _ D), mem_cons.
      destruct (contains (Node s e bits l R) m) eqn:Ec; [|reflexivity]. cbn [andb].
      destruct (node_mem m b) eqn:Eb; [|reflexivity]. apply node_mem_range in Eb.
      rewrite (contains_node_bool _ _ _ _ _ m Hwf) in Ec.
      assert (TL : contains l m = true -> m < t_start b) by (apply contains_lt; assumption).
      assert (TN : nmem s e bits m = true -> s <= m <= e) by apply nmem_range.
      assert (TR : contains R m = true -> e < m) by (apply contains_gt; assumption).
      destruct (contains l m), (nmem s e bits m), (contains R m); cbn [orb] in Ec; try discriminate;
        try specialize (TL eq_refl); try specialize (TN eq_refl); try specialize (TR eq_refl); lia.
    - apply (d_sl _ _ _ _ D).
    - intros hi m Hhi Hm. rewrite (d_above _ _ _ _ D hi m Hhi Hm), mem_cons.
      cbn [tree_all] in Hhi. destruct (node_mem m b) eqn:Eb; [|reflexivity]. apply node_mem_range in Eb. lia.
    - intros lo Hlo Hg. apply (d_lo _ _ _ _ D); [exact Hlo|]. cbn [hd_ge] in Hg.
      destruct nb1 as [|b1 rest]; [exact I|]. cbn [hd_ge]. pose proof (SL_hd_tail _ _ _ Hsl). lia.
    - apply (d_hi _ _ _ _ D).
    - apply (d_done _ _ _ _ D).
    - pose proof (d_mono _ _ _ _ D) as Mo. destruct nb' as [|b' rest]; [exact I|].
      destruct nb1 as [|b1 rest1]; [contradiction|]. cbn [hd_mono] in Mo |- *. pose proof (SL_hd_tail _ _ _ Hsl). lia. }
  (* overlap *)
  pose proof (SL_push_bright _ _ _ Ha Hsl C1 C2) as Hsl2.
  destruct (aright (Node s e bits l R) b) as [x|] eqn:Ex.
  - (* a right remainder: it is hung above R and the loop goes on with it *)
    destruct (sf_ar _ _ 0 (step_facts_hold _ _ 0 Ha Hb C1 C2) x Ex) as ([Nx [Hxse Hxok]] & X2 & X3 & X4 & X5 & _).
    destruct x as [|xs xe xb xl xr]; [congruence|]. cbn [t_start t_end t_bits t_left t_right] in *. subst xl xr.
    assert (Eh : t_right (insert_right (dnode (Node s e bits l R) b) (Node xs xe xb Nil Nil)) = Node xs xe xb Nil R).
    { destruct (dnode_Node s e bits l R b) as (bits' & l1 & Ed). rewrite Ed. unfold insert_right. cbn [t_right set_right t_end].
      destruct R as [|rs re rb rl rr]; [reflexivity|]. cbn [t_start]. cbn [tree_all] in Hr.
      destruct (Z.ltb_spec xe rs); [reflexivity|lia]. }
    rewrite Eh in E.
    destruct (diff_node recR f (Node xs xe xb Nil R) (push (bright (Node s e bits l R) b) nb1)) as [[x' nb3]|] eqn:EX; [|discriminate].
    injection E as <- <-. rewrite set_right_insert_right.
    assert (WX : wf (Node xs xe xb Nil R)).
    { cbn [wf tree_all]. repeat split; try assumption. eapply tree_all_impl; [|exact Hr]. cbn beta. intros; lia. }
    pose proof (IH xs xe xb Nil _ x' nb3 WX Hsl2 ltac:(intros; exact I) EX) as D.
    pose proof (sf_ov_end_a _ _ 0 (step_facts_hold _ _ 0 Ha Hb C1 C2)) as Oea. cbn [t_end] in Oea.
    pose proof (sf_ov_end_b _ _ 0 (step_facts_hold _ _ 0 Ha Hb C1 C2)) as Oeb.
    apply (assemble s e bits l R b nb1 (Node xs xe xb Nil R) x' nb3 Hwf Hsl HC C1 C2 WX); [| | | |exact D].
    + intro m. rewrite (contains_node_bool _ _ _ _ _ m WX). cbn [contains]. cbn [orb].
      destruct (sf_ar _ _ m (step_facts_hold _ _ m Ha Hb C1 C2) _ Ex) as (_ & _ & _ & _ & _ & Xm).
      rewrite node_mem_Node in Xm. rewrite Xm. reflexivity.
    + cbn [tree_all]. split; [lia|]. split; [exact I|]. eapply tree_all_impl; [|exact Hr]. cbn beta. intros; lia.
    + intros hi Hhi. cbn [tree_all] in Hhi |- *. split; [lia|]. tauto.
    + intros lo Hlo Hlo2. cbn [tree_all] in Hlo2 |- *. split; [lia|]. tauto.
  - (* no right remainder: the node is done, on to the right subtree *)
    destruct (recR (push (bright (Node s e bits l R) b) nb1)) as [[R' nb3]|] eqn:ER; [|discriminate]. injection E as <- <-.
    pose proof (HR _ _ _ Hsl2 ER) as D.
    pose proof (sf_ov_end_a _ _ 0 (step_facts_hold _ _ 0 Ha Hb C1 C2)) as Oea. cbn [t_end] in Oea.
    pose proof (sf_ar_none _ _ 0 (step_facts_hold _ _ 0 Ha Hb C1 C2) Ex) as An. cbn [t_end] in An.
    apply (assemble s e bits l R b nb1 R R' nb3 Hwf Hsl HC C1 C2 WR); [| | | |exact D].
    + intro m. destruct (node_mem m (Node s e bits l R)) eqn:Em; [|rewrite andb_false_r; reflexivity].
      apply node_mem_range in Em. cbn [t_start t_end] in Em. destruct (Z.ltb_spec (t_end b) m); [lia|reflexivity].
    + eapply tree_all_impl; [|exact Hr]. cbn beta. intros; lia.
    + intros hi Hhi. cbn [tree_all] in Hhi. tauto.
    + intros lo _ Hlo2. cbn [tree_all] in Hlo2. tauto.
Qed.

Theorem diff_tree_spec : forall t nb t' nb', wf t -> SL nb -> diff_tree t nb = Some (t', nb') -> dspec t nb t' nb'.
Proof.
  induction t as [|s e bits l IHl r IHr]; intros nb t' nb' Hwf Hsl E.
  { cbn in E. injection E as <- <-.
    constructor; [exact I|tauto|intro m; reflexivity|exact Hsl|intros; reflexivity|intros; exact I|intros; exact I|intros; exact I|apply hd_mono_refl]. }
  cbn [diff_tree] in E. destruct nb as [|b nb0].
  { injection E as <- <-. apply dspec_nil_nb. exact Hwf. }
  destruct (diff_tree l (b :: nb0)) as [[l' nb1]|] eqn:El; [|discriminate].
  assert (Hwf' := Hwf). cbn [wf] in Hwf'. destruct Hwf' as (Hse & Hok & Hl & Hr & Hwl & Hwr).
  pose proof (IHl _ _ _ Hwl Hsl El) as Dl.
  assert (Hl' : tree_all (fun _ e' => e' < s) l').
  { apply all_lt_le. apply (d_hi _ _ _ _ Dl). apply all_lt_le. exact Hl. }
  assert (W0 : wf (Node s e bits l' r)).
  { cbn [wf]. repeat split; try assumption. apply (d_wf _ _ _ _ Dl). }
  pose proof (diff_node_spec (diff_tree r) r Hwr (fun nb R' nb' Hs Er => IHr nb R' nb' Hwr Hs Er)
                _ s e bits l' nb1 t' nb' W0 (d_sl _ _ _ _ Dl) (d_done _ _ _ _ Dl) E) as Dn.
  constructor.
  - apply (d_wf _ _ _ _ Dn).
  - intros _. apply (d_nil _ _ _ _ Dn). discriminate.
  - intro m. rewrite (d_mem _ _ _ _ Dn), (contains_node_bool _ _ _ _ _ m W0), (contains_node_bool _ _ _ _ _ m Hwf), (d_mem _ _ _ _ Dl).
    assert (TL : contains l m = true -> m < s) by (apply contains_lt; assumption).
    assert (TN : nmem s e bits m = true -> s <= m <= e) by apply nmem_range.
    assert (TR : contains r m = true -> e < m) by (apply contains_gt; assumption).
    destruct (Z_lt_le_dec m s) as [Cm|Cm].
    + assert (En : nmem s e bits m = false) by (destruct (nmem s e bits m); [specialize (TN eq_refl); lia|reflexivity]).
      assert (Er : contains r m = false) by (destruct (contains r m); [specialize (TR eq_refl); lia|reflexivity]).
      rewrite En, Er, !orb_false_r.
      destruct (contains l m && negb (mem m (b :: nb0))) eqn:Ec; [|reflexivity]. cbn [andb].
      rewrite <- (d_mem _ _ _ _ Dl) in Ec.
      rewrite (done_not_mem l' nb1 m (d_wf _ _ _ _ Dl) (d_sl _ _ _ _ Dl) (d_done _ _ _ _ Dl) Ec). reflexivity.
    + assert (Ec : contains l m = false) by (destruct (contains l m); [specialize (TL eq_refl); lia|reflexivity]).
      rewrite Ec. cbn [andb orb].
      rewrite (d_above _ _ _ _ Dl (s - 1) m ltac:(apply all_lt_le; exact Hl) ltac:(lia)). reflexivity.
  - apply (d_sl _ _ _ _ Dn).
  - intros hi m Hhi Hm. cbn [tree_all] in Hhi.
    rewrite (d_above _ _ _ _ Dn hi m); [apply (d_above _ _ _ _ Dl hi m); tauto| |exact Hm].
    cbn [tree_all]. split; [tauto|]. split; [|tauto]. apply (d_hi _ _ _ _ Dl). tauto.
  - intros lo Hlo Hg. cbn [tree_all] in Hlo. apply (d_lo _ _ _ _ Dn).
    + cbn [tree_all]. split; [tauto|]. split; [|tauto]. apply (d_lo _ _ _ _ Dl); tauto.
    + apply (hd_ge_mono lo (b :: nb0) nb1 Hg (d_mono _ _ _ _ Dl)). discriminate.
  - intros hi Hhi. cbn [tree_all] in Hhi. apply (d_hi _ _ _ _ Dn).
    cbn [tree_all]. split; [tauto|]. split; [|tauto]. apply (d_hi _ _ _ _ Dl). tauto.
  - apply (d_done _ _ _ _ Dn).
  - apply (hd_mono_trans _ _ _ (d_mono _ _ _ _ Dl) (d_mono _ _ _ _ Dn)).
Qed.

Theorem difference2_spec : forall a b t, wf a -> wf b -> difference2 a b = Some t ->
  wf t /\ (a <> Nil -> t <> Nil) /\ forall m, contains t m = contains a m && negb (contains b m).
Proof.
  intros a b t Ha Hb E. unfold difference2 in E.
  destruct (diff_tree a (nodes b)) as [[t' nb']|] eqn:Ed; [|discriminate]. injection E as <-.
  pose proof (diff_tree_spec a (nodes b) t' nb' Ha (nodes_sorted b Hb) Ed) as D.
  split; [apply (d_wf _ _ _ _ D)|]. split; [apply (d_nil _ _ _ _ D)|].
  intro m. rewrite (d_mem _ _ _ _ D). unfold mem. rewrite <- contains_nodes by exact Hb. reflexivity.
Qed.

Theorem iset_difference_refines_set : forall a b t m, wf a -> wf b -> a <> Nil -> b <> Nil ->
  difference2 a b = Some t ->
  wf t /\ t <> Nil /\ contains t m = contains a m && negb (contains b m).
Proof.
  intros a b t m Ha Hb Na _ E. destruct (difference2_spec a b t Ha Hb E) as (W & N & C). auto.
Qed.

Theorem iset_difference_to_list : forall a b t, wf a -> wf b -> difference2 a b = Some t ->
  to_list t = set_diff (to_list a) (to_list b).
Proof.
  intros a b t Ha Hb E. destruct (difference2_spec a b t Ha Hb E) as (W & N & C). apply canon_ext.
  - apply to_list_spec. exact W.
  - unfold set_diff. apply canon_filter. apply to_list_spec. exact Ha.
  - intro x. rewrite set_mem_diff, <- !contains_set_mem by assumption. apply C.
Qed.

(* ------------------------------------------------------------------ examples (the trees are those of the real chibi-scheme) *)
(* EXAMPLES *)
Definition ex_a : tree := Node 10 20 None Nil Nil.                 (* {10..20} as a range node *)
Definition ex_b : tree := Node 5 30 (Some 33554817) Nil Nil.       (* the bits node {5 12 13 30} *)
Example ex_b_list : to_list ex_b = [5; 12; 13; 30].
Proof. vm_compute. reflexivity. Qed.
Example ex_inter : intersection2 ex_a ex_b = Some (Node 10 20 (Some 12) Nil Nil) /\
  option_map to_list (intersection2 ex_a ex_b) = Some [12; 13] /\
  option_map to_list (intersection2 ex_b ex_a) = Some [12; 13].
Proof. vm_compute. repeat split; reflexivity. Qed.
Example ex_diff_ab : difference2 ex_a ex_b = Some (Node 10 20 (Some 2035) Nil Nil) /\
  option_map to_list (difference2 ex_a ex_b) = Some [10; 11; 14; 15; 16; 17; 18; 19; 20].
Proof. vm_compute. split; reflexivity. Qed.
Example ex_diff_ba :
  difference2 ex_b ex_a = Some (Node 10 13 (Some 0) (Node 5 5 (Some 1) Nil Nil) (Node 21 30 (Some 512) Nil Nil)) /\
  option_map to_list (difference2 ex_b ex_a) = Some [5; 30].
Proof. vm_compute. split; reflexivity. Qed.

(** the shape of a recorded past failure: the intersection must contain 2 *)
Definition ex_a2 : tree := adjoin_list make_iset0 [2; 1; 52; 65537; 192; 38].
Definition ex_b2 : tree := adjoin_list make_iset0 [1; 2; 52; 192; 65537].
Example ex_inter2 :
  intersection2 ex_a2 ex_b2 =
    Some (Node 65537 65537 None (Node 192 192 None (Node 1 52 (Some 2251799813685251) Nil Nil) Nil) Nil) /\
  option_map (fun t => contains t 2) (intersection2 ex_a2 ex_b2) = Some true /\
  option_map to_list (intersection2 ex_a2 ex_b2) = Some [1; 2; 52; 192; 65537] /\
  option_map to_list (difference2 ex_a2 ex_b2) = Some [38] /\
  difference2 ex_a2 ex_b2 =
    Some (Node 1 52 (Some 137438953472) Nil (Node 65537 65537 (Some 0) (Node 192 192 (Some 0) Nil Nil) Nil)).
Proof. vm_compute. repeat split; reflexivity. Qed.

Print Assumptions iset_intersection_refines_set.
Print Assumptions iset_intersection_to_list.
Print Assumptions iset_interdiff_fuel_suffices.
Print Assumptions iset_difference_refines_set.
Print Assumptions iset_difference_to_list.
