(** C13 (round 3) — executable model of the per-context TABLES of independent (parent-less) contexts:
    heaps, globals vector, type table (type array + type objects + class-precedence vectors), symbol table,
    top-level environment, module table.

    world = [brk] (the process-wide allocator: where the next heap region the C library hands out starts; the
            only thing the contexts share in this model)  x  one optional record per context id.
    A context owns a chain of heap REGIONS (sexp_make_heap / sexp_grow_heap, gc.c) and every object it allocates
    gets an address inside one of them (sexp_alloc, gc.c; the model's allocator is a bump pointer in the newest
    heap — which free chunk the real allocator picks is irrelevant here, only that it lies in the context's own
    heaps).  The tables are lists of addresses.

    C functions mirrored (tree: /repo, sexp.c):
      TNew      sexp_make_context(NULL, size, 0)  sexp.c:661-716  (sexp_bootstrap_context sexp.c:624-655: fresh
                heap; sexp_init_context_globals sexp.c:542-619: fresh globals vector, fresh symbol table vector
                — SEXP_USE_GLOBAL_SYMBOLS = 0 —, type array of SEXP_INIT_NUM_TYPES = 2 * SEXP_NUM_CORE_TYPES
                slots, one COPY of each of the SEXP_NUM_CORE_TYPES entries of _sexp_type_specs)
      TReg      sexp_register_type_op  sexp.c:322-401  (array doubling, id = old num_types, cpl = copy of the
                parent's cpl + the new type itself)
      TIntern   sexp_intern  sexp.c:1567-1623  (bucket = FNV hash mod SEXP_SYMBOL_TABLE_SIZE; bucket search;
                new symbol object + sexp_push of a pair onto the bucket)
      TDefine   sexp_intern + sexp_env_define  eval.c  (existing binding: value replaced; else new cell)
      TLoad     loading a library / the standard environment: a module-table entry plus [nt] registered types
                and [ns] symbols interned by code the model does not look into (counts are parameters)
      TDestroy  sexp_destroy_context  sexp.c:720-747  (finalise, free every heap of the chain)
      TLookup / TFind   read-only probes: value of a global / presence of a symbol (no interning)
    No proofs in this file. *)
From Coq Require Import List Bool Arith NArith.
Import ListNotations.

Definition addr := nat.

Record region := mk_region { r_base : addr; r_size : nat }.

Definition inreg (a : addr) (r : region) : bool := (r_base r <=? a) && (a <? r_base r + r_size r).
Definition inregs (a : addr) (rs : list region) : bool := existsb (inreg a) rs.

(** the heap chain of one context; [used] = units handed out in the newest heap (the head of [regs]) *)
Record hp := mk_hp { regs : list region; used : nat }.

(** sexp_alloc (gc.c:598-624): try the heaps; when nothing fits sexp_grow_heap (gc.c:566-594) obtains a NEW
    region from the process (malloc/mmap), here at [b]; result: address, heap chain, new brk.
    The new heap is at least twice the newest one (gc.c:575-578) and large enough for the request. *)
Definition halloc (b : addr) (h : hp) (n : nat) : addr * hp * addr :=
  match regs h with
  | r :: _ =>
      if used h + n <=? r_size r then (r_base r + used h, mk_hp (regs h) (used h + n), b)
      else let sz := Nat.max (2 * r_size r) n in
           (b, mk_hp (mk_region b sz :: regs h) n, b + sz)
  | [] => (b, mk_hp [mk_region b n] n, b + n)
  end.

Record tyobj := mk_ty {
  ty_addr : addr;             (* the type object itself (sexp_alloc_type(ctx, type, SEXP_TYPE)) *)
  ty_name : nat;              (* WHICH type this is (key of its name: the same C type has the same key everywhere) *)
  ty_namea : addr;            (* the name string object *)
  ty_parent : option nat;     (* id of the parent IN THE SAME TABLE *)
  ty_cplv : addr;             (* its class-precedence vector *)
  ty_cpl : list addr          (* entries of that vector: the ancestors' type objects, then the type itself *)
}.

Definition name := list N.    (* bytes of a symbol name *)

Record symb := mk_symb {
  sy_name : name;
  sy_bucket : nat;            (* bucket of the symbol table vector it was pushed on *)
  sy_addr : addr;             (* the symbol object *)
  sy_cell : addr              (* the pair sexp_push allocated *)
}.

Record bind := mk_bind { b_name : name; b_cell : addr; b_val : nat }.

Record tctx := mk_tctx {
  theap : hp;
  globals : addr;             (* the globals vector, sexp_context_globals *)
  symtab : addr;              (* the vector of buckets, sexp_global(ctx, SEXP_G_SYMBOLS) *)
  tarr : addr;                (* the current type array, sexp_global(ctx, SEXP_G_TYPES) *)
  tcap : nat;                 (* its length, sexp_context_type_array_size *)
  types : list tyobj;         (* position in the list = type id = tag; length = sexp_context_num_types *)
  syms : list symb;           (* newest first *)
  env : list bind;            (* top-level bindings made by TDefine *)
  mods : list (nat * addr)    (* module table: library -> its entry *)
}.

Record tworld := mk_tworld { brk : addr; tcx : nat -> option tctx }.

Definition tw0 : tworld := mk_tworld 0 (fun _ => None).

Definition tupd (f : nat -> option tctx) (x : nat) (v : option tctx) : nat -> option tctx :=
  fun y => if Nat.eqb y x then v else f y.

(** ---------------------------------------------------------------- symbol hash (sexp.c:1554-1563, 1605)
    sexp_string_hash folded from accumulator 0 over all bytes: this is what sexp_intern computes for a name that
    leaves the immediate-symbol (huffman) path at its first character with res = 0, i = 0 (sexp.c:1586-1590:
    the name is empty, starts with a digit or a backquote, or with + / - and is longer than one character).
    The scripted names of the harness all start with a digit; for other names the real bucket also depends on
    the huffman code table, which this model does not contain. *)
Definition fnv_prime : N := 16777619.
Definition two64 : N := 18446744073709551616.
Definition fnv (s : name) : N := fold_left (fun a c => N.lxor ((a * fnv_prime) mod two64) c) s 0%N.
Definition symtab_size : N := 389.     (* SEXP_SYMBOL_TABLE_SIZE, sexp.h:153 *)
Definition bucket_of (s : name) : nat := N.to_nat (fnv s mod symtab_size).

Fixpoint name_eqb (a b : name) : bool :=
  match a, b with
  | [], [] => true
  | x :: a', y :: b' => N.eqb x y && name_eqb a' b'
  | _, _ => false
  end.

Definition find_sym (s : name) (l : list symb) : option symb := find (fun y => name_eqb s (sy_name y)) l.
Definition find_bind (s : name) (l : list bind) : option bind := find (fun y => name_eqb s (b_name y)) l.

(** ---------------------------------------------------------------- operations on ONE context
    each takes the process-wide [brk] and returns the new one: the only interaction with the rest of the world *)

(** sizes in abstract units; every request is >= 1 *)
Definition sz_vec (n : nat) : nat := S n.
Definition sz_type : nat := 4.
Definition sz_str : nat := 1.
Definition sz_pair : nat := 1.

Definition set_heap (c : tctx) (h : hp) : tctx :=
  mk_tctx h (globals c) (symtab c) (tarr c) (tcap c) (types c) (syms c) (env c) (mods c).

(** sexp_register_type_op, sexp.c:322-401; [nm] = key of the name (the caller allocates the name string in the
    same context first); [parent] = id of the parent type in THIS context's table (an id that is not in the
    table counts as no parent: `parent && sexp_typep(parent)`).  Returns the id (tag) given to the new type. *)
Definition reg_type (b : addr) (c : tctx) (nm : nat) (parent : option nat) : tctx * addr * nat :=
  let id := length (types c) in
  let '(na, h1, b1) := halloc b (theap c) sz_str in
  (* sexp.c:337-349: array full -> new vector of twice the length, entries copied, SEXP_G_TYPES replaced *)
  let '(arr, cap, h2, b2) :=
    if tcap c <=? id then let '(a, h, b') := halloc b1 h1 (sz_vec (2 * tcap c)) in (a, 2 * tcap c, h, b')
    else (tarr c, tcap c, h1, b1) in
  (* sexp.c:350 *)
  let '(ta, h3, b3) := halloc b2 h2 sz_type in
  (* sexp.c:378-392: class precedence list *)
  let pt := match parent with Some p => nth_error (types c) p | None => None end in
  let pcpl := match pt with Some t => ty_cpl t | None => [] end in
  let '(cv, h4, b4) := halloc b3 h3 (sz_vec (S (length pcpl))) in
  let t := mk_ty ta nm na (match pt with Some _ => parent | None => None end) cv (pcpl ++ [ta]) in
  (mk_tctx h4 (globals c) (symtab c) arr cap (types c ++ [t]) (syms c) (env c) (mods c), b4, id).

(** sexp_intern, sexp.c:1605-1622.  Returns the symbol's address and whether it was new. *)
Definition intern (b : addr) (c : tctx) (s : name) : tctx * addr * (addr * bool) :=
  match find_sym s (syms c) with
  | Some y => (c, b, (sy_addr y, false))
  | None =>
      let '(sa, h1, b1) := halloc b (theap c) (S (length s / 8)) in
      let '(ca, h2, b2) := halloc b1 h1 sz_pair in
      (mk_tctx h2 (globals c) (symtab c) (tarr c) (tcap c) (types c)
         (mk_symb s (bucket_of s) sa ca :: syms c) (env c) (mods c), b2, (sa, true))
  end.

(** sexp_intern + sexp_env_define (eval.c): an existing binding gets the new value, otherwise a new cell *)
Definition define (b : addr) (c : tctx) (s : name) (v : nat) : tctx * addr :=
  let '(c1, b1, _) := intern b c s in
  match find_bind s (env c1) with
  | Some _ =>
      (mk_tctx (theap c1) (globals c1) (symtab c1) (tarr c1) (tcap c1) (types c1) (syms c1)
         (map (fun x => if name_eqb s (b_name x) then mk_bind (b_name x) (b_cell x) v else x) (env c1)) (mods c1), b1)
  | None =>
      let '(ca, h, b2) := halloc b1 (theap c1) sz_pair in
      (mk_tctx h (globals c1) (symtab c1) (tarr c1) (tcap c1) (types c1) (syms c1)
         (mk_bind s ca v :: env c1) (mods c1), b2)
  end.

(** names of the symbols / keys of the types a library brings along; byte 0 never starts a C string, so these
    cannot collide with scripted names *)
Definition lib_sym (l k : nat) : name := [0%N; N.of_nat l; N.of_nat k].
Definition lib_ty (l k : nat) : nat := 1000 + 100 * l + k.   (* scripted type keys are < 1000 *)

Fixpoint intern_many (b : addr) (c : tctx) (l k : nat) : tctx * addr :=
  match k with
  | 0 => (c, b)
  | S k' => let '(c1, b1) := intern_many b c l k' in let '(c2, b2, _) := intern b1 c1 (lib_sym l k') in (c2, b2)
  end.

Fixpoint reg_many (b : addr) (c : tctx) (l k : nat) : tctx * addr :=
  match k with
  | 0 => (c, b)
  | S k' => let '(c1, b1) := reg_many b c l k' in let '(c2, b2, _) := reg_type b1 c1 (lib_ty l k') None in (c2, b2)
  end.

Definition has_mod (l : nat) (c : tctx) : bool := existsb (fun m => Nat.eqb (fst m) l) (mods c).

(** loading library l: a second load finds the module-table entry and does nothing *)
Definition load (b : addr) (c : tctx) (l nt ns : nat) : tctx * addr :=
  if has_mod l c then (c, b)
  else
    let '(ma, h, b1) := halloc b (theap c) sz_pair in
    let c1 := mk_tctx h (globals c) (symtab c) (tarr c) (tcap c) (types c) (syms c) (env c) ((l, ma) :: mods c) in
    let '(c2, b2) := intern_many b1 c1 l ns in
    reg_many b2 c2 l nt.

(** the n core types copied from _sexp_type_specs (sexp.c:601-618): type object + name string each, cpl absent *)
Fixpoint core_types (b : addr) (h : hp) (n : nat) : list tyobj * hp * addr :=
  match n with
  | 0 => ([], h, b)
  | S n' =>
      let '(ts, h1, b1) := core_types b h n' in
      let '(ta, h2, b2) := halloc b1 h1 sz_type in
      let '(na, h3, b3) := halloc b2 h2 sz_str in
      (ts ++ [mk_ty ta n' na None ta [ta]], h3, b3)
  end.

(** sexp_make_context(NULL, hs, 0): heap of [hs] units at brk; context object, globals vector, symbol table
    vector, type array of 2*ncore slots, ncore type objects *)
Definition new_ctx (ncore : nat) (b : addr) (hs : nat) : tctx * addr :=
  let h0 := mk_hp [mk_region b (S hs)] 1 in          (* unit 0 of the heap: the context object itself *)
  let b0 := b + S hs in
  let '(g, h1, b1) := halloc b0 h0 (sz_vec 8) in
  let '(st, h2, b2) := halloc b1 h1 (sz_vec 8) in
  let '(ar, h3, b3) := halloc b2 h2 (sz_vec (2 * ncore)) in
  let '(ts, h4, b4) := core_types b3 h3 ncore in
  (mk_tctx h4 g st ar (2 * ncore) ts [] [] [], b4).

(** ---------------------------------------------------------------- the world *)

Inductive top :=
| TNew (i : nat) (hs : nat)
| TReg (i : nat) (nm : nat) (parent : option nat)
| TIntern (i : nat) (s : name)
| TDefine (i : nat) (s : name) (v : nat)
| TLoad (i : nat) (l nt ns : nat)
| TDestroy (i : nat)
| TLookup (i : nat) (s : name)
| TFind (i : nat) (s : name).

Inductive tres :=
| XFail                         (* no such context / context exists already *)
| XOk
| XId (id : nat)                (* TReg: the tag given to the new type *)
| XSym (bucket : nat) (fresh : bool)
| XVal (v : option nat)
| XFound (b : bool).

Definition who (o : top) : nat :=
  match o with
  | TNew i _ | TReg i _ _ | TIntern i _ | TDefine i _ _ | TLoad i _ _ _ | TDestroy i | TLookup i _ | TFind i _ => i
  end.

Definition tstep (ncore : nat) (w : tworld) (o : top) : tworld * tres :=
  match o with
  | TNew i hs =>
      match tcx w i with
      | Some _ => (w, XFail)
      | None => let '(c, b) := new_ctx ncore (brk w) hs in (mk_tworld b (tupd (tcx w) i (Some c)), XOk)
      end
  | TReg i nm p =>
      match tcx w i with
      | None => (w, XFail)
      | Some c => let '(c', b, id) := reg_type (brk w) c nm p in (mk_tworld b (tupd (tcx w) i (Some c')), XId id)
      end
  | TIntern i s =>
      match tcx w i with
      | None => (w, XFail)
      | Some c => let '(c', b, r) := intern (brk w) c s in
                  (mk_tworld b (tupd (tcx w) i (Some c')), XSym (bucket_of s) (snd r))
      end
  | TDefine i s v =>
      match tcx w i with
      | None => (w, XFail)
      | Some c => let '(c', b) := define (brk w) c s v in (mk_tworld b (tupd (tcx w) i (Some c')), XOk)
      end
  | TLoad i l nt ns =>
      match tcx w i with
      | None => (w, XFail)
      | Some c => let '(c', b) := load (brk w) c l nt ns in (mk_tworld b (tupd (tcx w) i (Some c')), XOk)
      end
  | TDestroy i =>
      match tcx w i with
      | None => (w, XFail)
      | Some _ => (mk_tworld (brk w) (tupd (tcx w) i None), XOk)      (* freed regions are never handed out again *)
      end
  | TLookup i s =>
      match tcx w i with
      | None => (w, XFail)
      | Some c => (w, XVal (match find_bind s (env c) with Some x => Some (b_val x) | None => None end))
      end
  | TFind i s =>
      match tcx w i with
      | None => (w, XFail)
      | Some c => (w, XFound (match find_sym s (syms c) with Some _ => true | None => false end))
      end
  end.

Fixpoint trun (ncore : nat) (pi : list top) (w : tworld) : tworld :=
  match pi with
  | [] => w
  | o :: r => trun ncore r (fst (tstep ncore w o))
  end.

(** ---------------------------------------------------------------- what the harness can observe *)

(** address-free shape of a context's tables: number of types, type-array length, number of table symbols,
    number of scripted bindings, number of modules *)
Definition shape (c : tctx) : nat * nat * nat * nat * nat :=
  (length (types c), tcap c, length (syms c), length (env c), length (mods c)).

(** identities (model addresses; compared with the implementation only for "changed / did not change" and
    "distinct between contexts") *)
Definition idents (c : tctx) : addr * addr * addr := (globals c, symtab c, tarr c).

Definition tobs (n : nat) (w : tworld) : list (nat * ((nat * nat * nat * nat * nat) * (addr * addr * addr))) :=
  flat_map (fun i => match tcx w i with Some c => [(i, (shape c, idents c))] | None => [] end) (seq 0 n).

Fixpoint ttrace (ncore n : nat) (pi : list top) (w : tworld) :=
  match pi with
  | [] => []
  | o :: r => let '(w', x) := tstep ncore w o in (x, tobs n w') :: ttrace ncore n r w'
  end.

(** the pointers a context's tables hold (what the FOREIGN audit of the harness walks) *)
Definition ty_ptrs (t : tyobj) : list addr := ty_addr t :: ty_namea t :: ty_cplv t :: ty_cpl t.
Definition sym_ptrs (s : symb) : list addr := [sy_addr s; sy_cell s].
Definition ptrs (c : tctx) : list addr :=
  globals c :: symtab c :: tarr c :: flat_map ty_ptrs (types c) ++ flat_map sym_ptrs (syms c)
    ++ map b_cell (env c) ++ map snd (mods c).

(** executable form of the invariant, evaluated by the examples and mirrored on real addresses by the harness *)
Definition owns_b (c : tctx) (a : addr) : bool := inregs a (regs (theap c)).
Definition regions_disjoint (r1 r2 : region) : bool :=
  (r_base r1 + r_size r1 <=? r_base r2) || (r_base r2 + r_size r2 <=? r_base r1).
Definition ctx_closed (c : tctx) : bool := forallb (owns_b c) (ptrs c).
Definition ctxs_disjoint (c1 c2 : tctx) : bool :=
  forallb (fun r1 => forallb (regions_disjoint r1) (regs (theap c2))) (regs (theap c1)).
