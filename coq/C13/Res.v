(** C13 (round 2) — executable model of the process-wide OS resources that independent contexts use.

    The isolation model of C13/Model.v has the process-wide *statics* as its only shared component.  A context
    also uses resources of the process that are not variables of the program: stdio streams / file descriptors
    (the three standard streams the embedder hands to sexp_load_standard_ports, eval.c:2516-2538, and every
    port the context opens itself) and the shared objects it dlopen()s (sexp_load_dl, eval.c:1466-1497).
    Ownership is what the port's no_close flag says (sexp_port_no_closep, set from the embedder's last
    argument): sexp_destroy_context (sexp.c:720-747) runs sexp_finalize_port (sexp.c:204-232) on every port of
    the dying heap, which fclose()s the stream unless no_closep is set.

    world  = which resources are open  x  per library the contexts holding a reference to its mapping
             x  one optional record per context id (what it holds, with the ownership flag; its three
             standard streams; the libraries it imported).
    No proofs in this file. *)
From Coq Require Import List Bool Arith.
Import ListNotations.

Definition rid := nat.      (* a stream / descriptor of the process; 0 1 2 = stdin stdout stderr of the host *)
Definition lib := nat.      (* a compiled library (.so) *)

(** how the embedder creates the context (harness/embed_c13.c, op "new") *)
Inductive mode :=
| Plain      (* no standard ports *)
| Std1       (* sexp_load_standard_ports(ctx, NULL, stdin, stdout, stderr, 1)   -- doc/chibi.scrbl *)
| Dup0.      (* sexp_load_standard_ports(ctx, NULL, fdopen(dup(0)), fdopen(dup(1)), fdopen(dup(2)), 0) *)

Inductive rop :=
| RNew (i : nat) (m : mode)
| ROpen (i : nat)               (* the context opens a file port of its own (open-output-file): owned *)
| RWrite (i : nat) (k : nat)    (* write + flush on the k-th standard port (1 = current-output, 2 = current-error) *)
| RImport (i : nat) (l : lib)   (* (import <C-backed library>): dlopen *)
| RCall (i : nat) (l : lib)     (* call a C function of an imported library *)
| RDestroy (i : nat).           (* sexp_destroy_context *)

Record rctx := mk_rctx {
  holds : list (rid * bool);    (* resources reachable from the context's ports; true = owned (no_closep = 0) *)
  std : list rid;               (* its standard streams, [] for Plain *)
  libs : list lib
}.

Record rworld := mk_rworld {
  ropen : rid -> bool;
  rnext : rid;                  (* next unused resource id (descriptors are never reused in the model) *)
  dlrefs : lib -> list nat;     (* contexts holding a reference (dlopen count) to the library's mapping *)
  rcx : nat -> option rctx
}.

Definition upd {A} (f : nat -> A) (x : nat) (v : A) : nat -> A := fun y => if Nat.eqb y x then v else f y.
Definition mem_nat (x : nat) (l : list nat) : bool := existsb (Nat.eqb x) l.

(** the process before any context exists: the host's three standard streams are open *)
Definition rw0 : rworld := mk_rworld (fun r => Nat.ltb r 3) 3 (fun _ => []) (fun _ => None).

(** resources the dying context owns *)
Definition owned_of (c : rctx) : list rid := map fst (filter snd (holds c)).
Definition close_all (o : rid -> bool) (rs : list rid) : rid -> bool := fun r => if mem_nat r rs then false else o r.

(** [rel]: whether sexp_destroy_context releases the dlopen references of the dying context (the pinned code
    does not: the second pass of sexp_finalize, gc.c:514-515, restarts with an exhausted heap pointer; a tree
    that repairs the leak does).  The theorems hold for both. *)
Definition rstep (rel : bool) (w : rworld) (o : rop) : rworld * bool :=
  match o with
  | RNew i m =>
      match rcx w i with
      | Some _ => (w, false)
      | None =>
          match m with
          | Plain => (mk_rworld (ropen w) (rnext w) (dlrefs w) (upd (rcx w) i (Some (mk_rctx [] [] []))), true)
          | Std1 => (mk_rworld (ropen w) (rnext w) (dlrefs w)
                       (upd (rcx w) i (Some (mk_rctx [(0, false); (1, false); (2, false)] [0; 1; 2] []))), true)
          | Dup0 => let n := rnext w in
                    (mk_rworld (upd (upd (upd (ropen w) n true) (S n) true) (S (S n)) true) (S (S (S n))) (dlrefs w)
                       (upd (rcx w) i (Some (mk_rctx [(n, true); (S n, true); (S (S n), true)] [n; S n; S (S n)] []))), true)
          end
      end
  | ROpen i =>
      match rcx w i with
      | None => (w, false)
      | Some c => let n := rnext w in
                  (mk_rworld (upd (ropen w) n true) (S n) (dlrefs w)
                     (upd (rcx w) i (Some (mk_rctx ((n, true) :: holds c) (std c) (libs c)))), true)
      end
  | RWrite i k =>
      match rcx w i with
      | None => (w, false)
      | Some c => match nth_error (std c) k with Some r => (w, ropen w r) | None => (w, false) end
      end
  | RImport i l =>
      match rcx w i with
      | None => (w, false)
      | Some c => if mem_nat l (libs c) then (w, true)
                  else (mk_rworld (ropen w) (rnext w) (upd (dlrefs w) l (i :: dlrefs w l))
                          (upd (rcx w) i (Some (mk_rctx (holds c) (std c) (l :: libs c)))), true)
      end
  | RCall i l =>
      match rcx w i with
      | None => (w, false)
      | Some c => (w, mem_nat l (libs c) && negb (match dlrefs w l with [] => true | _ => false end))
      end
  | RDestroy i =>
      match rcx w i with
      | None => (w, false)
      | Some c => (mk_rworld (close_all (ropen w) (owned_of c)) (rnext w)
                     (if rel then (fun l => filter (fun j => negb (Nat.eqb j i)) (dlrefs w l)) else dlrefs w)
                     (upd (rcx w) i None), true)
      end
  end.

Fixpoint rrun (rel : bool) (pi : list rop) (w : rworld) : rworld :=
  match pi with
  | [] => w
  | o :: r => rrun rel r (fst (rstep rel w o))
  end.

(** what the harness can observe after each operation: did it succeed, which resources are open, which of
    the libraries 0..nl-1 are mapped *)
Definition observe (nl : nat) (w : rworld) : list rid * list lib :=
  (filter (ropen w) (seq 0 (rnext w)),
   filter (fun l => negb (match dlrefs w l with [] => true | _ => false end)) (seq 0 nl)).

Fixpoint rtrace (rel : bool) (nl : nat) (pi : list rop) (w : rworld) : list (bool * (list rid * list lib)) :=
  match pi with
  | [] => []
  | o :: r => let '(w', ok) := rstep rel w o in (ok, observe nl w') :: rtrace rel nl r w'
  end.

(** the seeded defect, as a model variant: the error port of a Std1 context loses its no_close flag *)
Definition std1_err_owned : rctx := mk_rctx [(0, false); (1, false); (2, true)] [0; 1; 2] [].
