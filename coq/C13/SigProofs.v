(** C13 (round 3) — proofs about the signal-delivery model C13/Sig.v: over ANY history of context creations,
    handler installations, ignores, raises, scheduler runs and destroys, a raised signal reaches the context that
    registered it last and no other; a context only ever sees signals it installed itself; entries of different
    signals are independent; the "one last registered context" variant (the seeded defect) is refuted. *)
From Coq Require Import List Bool Arith Lia.
From ChibiV Require Import C13.Sig.
Import ListNotations.

Lemma supd_same : forall A (f : nat -> A) x v, supd f x v x = v.
Proof. intros. unfold supd. rewrite Nat.eqb_refl. reflexivity. Qed.

Lemma supd_other : forall A (f : nat -> A) x v y, y <> x -> supd f x v y = f y.
Proof. intros A f x v y H. unfold supd. destruct (Nat.eqb y x) eqn:E; [apply Nat.eqb_eq in E; contradiction | reflexivity]. Qed.

Lemma smem_In : forall x l, smem x l = true <-> In x l.
Proof.
  intros x l. unfold smem. rewrite existsb_exists. split.
  - intros [y [Hy E]]. apply Nat.eqb_eq in E. subst. exact Hy.
  - intros H. exists x. split; [exact H | apply Nat.eqb_refl].
Qed.

Lemma sinsert_In : forall s l x, In x (sinsert s l) <-> x = s \/ In x l.
Proof.
  intros s l x. induction l as [|y r IH]; cbn [sinsert].
  - cbn. intuition.
  - destruct (s <? y) eqn:E1.
    + cbn. intuition.
    + destruct (Nat.eqb s y) eqn:E2.
      * apply Nat.eqb_eq in E2. subst y. cbn. intuition.
      * cbn [In]. rewrite IH. intuition.
Qed.

Lemma sremove_In : forall s l x, In x (sremove s l) <-> In x l /\ x <> s.
Proof.
  intros s l x. unfold sremove. rewrite filter_In. split.
  - intros [H E]. split; [exact H|]. apply negb_true_iff in E. apply Nat.eqb_neq in E. exact E.
  - intros [H E]. split; [exact H|]. apply negb_true_iff. apply Nat.eqb_neq. exact E.
Qed.

Definition add_handler (s : sig) (l : list sig) : list sig := if smem s l then l else s :: l.

Lemma add_handler_In : forall s l x, In x (add_handler s l) <-> x = s \/ In x l.
Proof.
  intros s l x. unfold add_handler. destruct (smem s l) eqn:E.
  - apply smem_In in E. split; [intros H; right; exact H | intros [-> | H]; assumption].
  - cbn. intuition.
Qed.

(** ---------------------------------------------------------------- the invariant *)

Record SInv (w : sworld) : Prop := mk_SInv {
  si_used : forall i c, scx w i = Some c -> sused w i = true;
  (* a signal with a handler disposition is routed to a context that was created, and while that context lives
     its own handler vector has a procedure for it *)
  si_route : forall s, sdisp w s = DHandler ->
             exists i, sroute w s = Some i /\ sused w i = true /\ forall c, scx w i = Some c -> In s (handlers c)
}.

Lemma sinv0 : SInv sw0.
Proof. constructor; cbn; intros; discriminate. Qed.

Lemma sstep_inv : forall w o, SInv w -> SInv (fst (sstep w o)).
Proof.
  intros w o [Hu Hr]. destruct o as [i | i s | i s | s | i | i]; cbn [sstep].
  - (* SNew *)
    destruct (sused w i) eqn:U; cbn [fst]; [constructor; assumption|].
    constructor; cbn [scx sused sdisp sroute].
    + intros j c H. destruct (Nat.eq_dec j i) as [->|N].
      * apply supd_same.
      * rewrite supd_other in H by exact N. rewrite supd_other by exact N. eapply Hu; exact H.
    + intros s D. destruct (Hr s D) as [j [R [Uj Hh]]]. exists j. split; [exact R|].
      assert (N : j <> i) by (intros ->; congruence).
      rewrite !supd_other by exact N. split; [exact Uj | exact Hh].
  - (* SInstall *)
    destruct (scx w i) as [c|] eqn:C; cbn [fst]; [|constructor; assumption].
    fold (add_handler s (handlers c)).
    constructor; cbn [scx sused sdisp sroute].
    + intros j c' H. destruct (Nat.eq_dec j i) as [->|N]; [eapply Hu; exact C|].
      rewrite supd_other in H by exact N. eapply Hu; exact H.
    + intros s' D. destruct (Nat.eq_dec s' s) as [->|N].
      * exists i. rewrite supd_same. split; [reflexivity|]. split; [eapply Hu; exact C|].
        intros c' H. rewrite supd_same in H. inversion H. cbn [handlers]. apply add_handler_In. left. reflexivity.
      * rewrite supd_other in D by exact N. destruct (Hr s' D) as [j [R [Uj Hh]]]. exists j.
        rewrite supd_other by exact N. split; [exact R|]. split; [exact Uj|].
        intros c' H. destruct (Nat.eq_dec j i) as [->|Nj].
        -- rewrite supd_same in H. inversion H. cbn [handlers]. apply add_handler_In. right. apply Hh. exact C.
        -- rewrite supd_other in H by exact Nj. apply Hh. exact H.
  - (* SIgnore *)
    destruct (scx w i) as [c|] eqn:C; cbn [fst]; [|constructor; assumption].
    constructor; cbn [scx sused sdisp sroute].
    + intros j c' H. destruct (Nat.eq_dec j i) as [->|N]; [eapply Hu; exact C|].
      rewrite supd_other in H by exact N. eapply Hu; exact H.
    + intros s' D. destruct (Nat.eq_dec s' s) as [->|N]; [rewrite supd_same in D; discriminate|].
      rewrite supd_other in D by exact N. destruct (Hr s' D) as [j [R [Uj Hh]]]. exists j.
      rewrite supd_other by exact N. split; [exact R|]. split; [exact Uj|].
      intros c' H. destruct (Nat.eq_dec j i) as [->|Nj].
      * rewrite supd_same in H. inversion H. cbn [handlers]. apply sremove_In. split; [apply Hh; exact C | exact N].
      * rewrite supd_other in H by exact Nj. apply Hh. exact H.
  - (* SRaise *)
    destruct (sdisp w s) eqn:D; cbn [fst]; try (constructor; assumption).
    destruct (sroute w s) as [i|] eqn:R; cbn [fst]; [|constructor; assumption].
    destruct (scx w i) as [c|] eqn:C; cbn [fst]; [|constructor; assumption].
    constructor; cbn [scx sused sdisp sroute].
    + intros j c' H. destruct (Nat.eq_dec j i) as [->|N]; [eapply Hu; exact C|].
      rewrite supd_other in H by exact N. eapply Hu; exact H.
    + intros s' D'. destruct (Hr s' D') as [j [R' [Uj Hh]]]. exists j. split; [exact R'|]. split; [exact Uj|].
      intros c' H. destruct (Nat.eq_dec j i) as [->|Nj].
      * rewrite supd_same in H. inversion H. cbn [handlers]. apply Hh. exact C.
      * rewrite supd_other in H by exact Nj. apply Hh. exact H.
  - (* SRun *)
    destruct (scx w i) as [c|] eqn:C; cbn [fst]; [|constructor; assumption].
    constructor; cbn [scx sused sdisp sroute].
    + intros j c' H. destruct (Nat.eq_dec j i) as [->|N]; [eapply Hu; exact C|].
      rewrite supd_other in H by exact N. eapply Hu; exact H.
    + intros s' D'. destruct (Hr s' D') as [j [R' [Uj Hh]]]. exists j. split; [exact R'|]. split; [exact Uj|].
      intros c' H. destruct (Nat.eq_dec j i) as [->|Nj].
      * rewrite supd_same in H. inversion H. cbn [handlers run_pending]. apply Hh. exact C.
      * rewrite supd_other in H by exact Nj. apply Hh. exact H.
  - (* SDestroy *)
    destruct (scx w i) as [c|] eqn:C; cbn [fst]; [|constructor; assumption].
    constructor; cbn [scx sused sdisp sroute].
    + intros j c' H. destruct (Nat.eq_dec j i) as [->|N]; [rewrite supd_same in H; discriminate|].
      rewrite supd_other in H by exact N. eapply Hu; exact H.
    + intros s' D'. destruct (Hr s' D') as [j [R' [Uj Hh]]]. exists j. split; [exact R'|]. split; [exact Uj|].
      intros c' H. destruct (Nat.eq_dec j i) as [->|Nj]; [rewrite supd_same in H; discriminate|].
      rewrite supd_other in H by exact Nj. apply Hh. exact H.
Qed.

Lemma srun_inv : forall pi w, SInv w -> SInv (srun pi w).
Proof. induction pi as [|o r IH]; intros w H; cbn [srun]; [exact H | apply IH, sstep_inv, H]. Qed.

Theorem signals_invariant : forall pi, SInv (srun pi sw0).
Proof. intros pi. apply srun_inv, sinv0. Qed.

(** ---------------------------------------------------------------- delivery *)

(** after ANY history: a signal with a handler disposition whose registering context i lives — raise it, let i
    run: the raise succeeds, i's handler ran (the signal is in the part of its log added by that run), its mask
    is empty again, and NO other context changed *)
Theorem signal_reaches_registrant : forall pi s i c,
  let w := srun pi sw0 in
  sdisp w s = DHandler -> sroute w s = Some i -> scx w i = Some c ->
  let w1 := fst (sstep w (SRaise s)) in
  let w2 := fst (sstep w1 (SRun i)) in
  snd (sstep w (SRaise s)) = true /\
  (forall j, j <> i -> scx w2 j = scx w j) /\
  (forall s', sroute w2 s' = sroute w s' /\ sdisp w2 s' = sdisp w s') /\
  exists c2 pre, scx w2 i = Some c2 /\ pending c2 = [] /\ handlers c2 = handlers c /\ got c2 = pre ++ got c /\ In s pre.
Proof.
  intros pi s i c w D R C.
  destruct (signals_invariant pi) as [_ Hr]. fold w in Hr.
  destruct (Hr s D) as [i' [R' [_ Hh]]]. rewrite R in R'. inversion R'. subst i'.
  specialize (Hh c C).
  cbn [sstep]. rewrite D, R, C. cbn [fst snd scx]. rewrite supd_same. cbn [fst scx sroute sdisp].
  split; [reflexivity|]. split; [|split].
  - intros j N. rewrite !supd_other by exact N. reflexivity.
  - intros s'. split; reflexivity.
  - eexists. eexists. rewrite supd_same. split; [reflexivity|]. cbn [run_pending pending handlers got].
    split; [reflexivity|]. split; [reflexivity|]. split; [reflexivity|].
    apply (proj1 (in_rev _ _)). apply filter_In. split; [apply sinsert_In; left; reflexivity | apply smem_In; exact Hh].
Qed.

(** the documented limitation, precisely: (set-signal-action! s h) in j routes s to j whatever was there before;
    every other signal keeps its route and its disposition *)
Theorem install_reroutes_only_that_signal : forall w j s cj,
  scx w j = Some cj ->
  let w' := fst (sstep w (SInstall j s)) in
  sroute w' s = Some j /\ sdisp w' s = DHandler /\
  (forall s', s' <> s -> sroute w' s' = sroute w s' /\ sdisp w' s' = sdisp w s') /\
  (forall i, i <> j -> scx w' i = scx w i).
Proof.
  intros w j s cj C. cbn [sstep]. rewrite C. cbn [fst sroute sdisp scx].
  rewrite !supd_same. split; [reflexivity|]. split; [reflexivity|]. split.
  - intros s' N. rewrite !supd_other by exact N. split; reflexivity.
  - intros i N. rewrite supd_other by exact N. reflexivity.
Qed.

(** a raise changes no context but the one the signal is routed to; routes and dispositions stay *)
Theorem raise_touches_only_routed : forall w s j,
  sroute w s <> Some j ->
  let w' := fst (sstep w (SRaise s)) in
  scx w' j = scx w j /\ (forall s', sroute w' s' = sroute w s' /\ sdisp w' s' = sdisp w s').
Proof.
  intros w s j N. cbn [sstep].
  destruct (sdisp w s); cbn [fst]; try (split; [reflexivity | intros; split; reflexivity]).
  destruct (sroute w s) as [i|] eqn:R; cbn [fst]; try (split; [reflexivity | intros; split; reflexivity]).
  destruct (scx w i) as [c|] eqn:C; cbn [fst scx sroute sdisp]; try (split; [reflexivity | intros; split; reflexivity]).
  split; [|intros; split; reflexivity].
  apply supd_other. intros ->. apply N. reflexivity.
Qed.

Definition swho (o : sop) : option nat :=
  match o with SNew i | SInstall i _ | SIgnore i _ | SRun i | SDestroy i => Some i | SRaise _ => None end.

(** an operation of context i leaves the record of every other context alone *)
Theorem signal_op_is_local : forall w o i j, swho o = Some i -> j <> i -> scx (fst (sstep w o)) j = scx w j.
Proof.
  intros w o i j W N. destruct o as [k | k s | k s | s | k | k]; cbn in W; inversion W; subst k; cbn [sstep].
  - destruct (sused w i); cbn [fst scx]; [reflexivity | apply supd_other; exact N].
  - destruct (scx w i); cbn [fst scx]; [apply supd_other; exact N | reflexivity].
  - destruct (scx w i); cbn [fst scx]; [apply supd_other; exact N | reflexivity].
  - destruct (scx w i); cbn [fst scx]; [apply supd_other; exact N | reflexivity].
  - destruct (scx w i); cbn [fst scx]; [apply supd_other; exact N | reflexivity].
Qed.

(** ---------------------------------------------------------------- history theorem: a context only ever sees
    signals it installed a handler for ITSELF (in its handler vector, its pending mask, its handler log) *)

Definition HInv (pre : list sop) (w : sworld) : Prop :=
  (forall i c s, scx w i = Some c -> In s (handlers c) \/ In s (pending c) \/ In s (got c) -> In (SInstall i s) pre) /\
  (forall s i, sdisp w s = DHandler -> sroute w s = Some i -> In (SInstall i s) pre).

Lemma hinv_step : forall pre w o, HInv pre w -> HInv (pre ++ [o]) (fst (sstep w o)).
Proof.
  intros pre w o [H1 H2].
  assert (W1 : forall i c s, scx w i = Some c -> In s (handlers c) \/ In s (pending c) \/ In s (got c) -> In (SInstall i s) (pre ++ [o]))
    by (intros; apply in_or_app; left; eapply H1; eassumption).
  assert (W2 : forall s i, sdisp w s = DHandler -> sroute w s = Some i -> In (SInstall i s) (pre ++ [o]))
    by (intros; apply in_or_app; left; eapply H2; eassumption).
  destruct o as [i | i s | i s | s | i | i]; cbn [sstep].
  - destruct (sused w i) eqn:U; cbn [fst]; [split; assumption|]. split; cbn [scx sdisp sroute].
    + intros j c s H. destruct (Nat.eq_dec j i) as [->|N].
      * rewrite supd_same in H. inversion H. cbn. intuition.
      * rewrite supd_other in H by exact N. eapply W1; exact H.
    + exact W2.
  - destruct (scx w i) as [c|] eqn:C; cbn [fst]; [|split; assumption].
    fold (add_handler s (handlers c)). split; cbn [scx sdisp sroute].
    + intros j c' s' H X. destruct (Nat.eq_dec j i) as [->|N].
      * rewrite supd_same in H. inversion H. subst c'. cbn [handlers pending got] in X.
        rewrite add_handler_In in X. destruct X as [[-> | X] | X].
        -- apply in_or_app. right. left. reflexivity.
        -- eapply W1; [exact C | left; exact X].
        -- eapply W1; [exact C | right; exact X].
      * rewrite supd_other in H by exact N. eapply W1; eassumption.
    + intros s' j D R. destruct (Nat.eq_dec s' s) as [->|N].
      * rewrite supd_same in R. inversion R. apply in_or_app. right. left. reflexivity.
      * rewrite supd_other in D, R by exact N. eapply W2; eassumption.
  - destruct (scx w i) as [c|] eqn:C; cbn [fst]; [|split; assumption]. split; cbn [scx sdisp sroute].
    + intros j c' s' H X. destruct (Nat.eq_dec j i) as [->|N].
      * rewrite supd_same in H. inversion H. subst c'. cbn [handlers pending got] in X.
        rewrite sremove_In in X. eapply W1; [exact C|]. destruct X as [[X _] | X]; [left; exact X | right; exact X].
      * rewrite supd_other in H by exact N. eapply W1; eassumption.
    + intros s' j D R. destruct (Nat.eq_dec s' s) as [->|N]; [rewrite supd_same in D; discriminate|].
      rewrite supd_other in D, R by exact N. eapply W2; eassumption.
  - destruct (sdisp w s) eqn:D; cbn [fst]; try (split; assumption).
    destruct (sroute w s) as [i|] eqn:R; cbn [fst]; [|split; assumption].
    destruct (scx w i) as [c|] eqn:C; cbn [fst]; [|split; assumption]. split; cbn [scx sdisp sroute]; [|exact W2].
    intros j c' s' H X. destruct (Nat.eq_dec j i) as [->|N].
    + rewrite supd_same in H. inversion H. subst c'. cbn [handlers pending got] in X.
      rewrite sinsert_In in X. destruct X as [X | [[-> | X] | X]].
      * eapply W1; [exact C | left; exact X].
      * eapply W2; eassumption.
      * eapply W1; [exact C | right; left; exact X].
      * eapply W1; [exact C | right; right; exact X].
    + rewrite supd_other in H by exact N. eapply W1; eassumption.
  - destruct (scx w i) as [c|] eqn:C; cbn [fst]; [|split; assumption]. split; cbn [scx sdisp sroute]; [|exact W2].
    intros j c' s' H X. destruct (Nat.eq_dec j i) as [->|N].
    + rewrite supd_same in H. inversion H. subst c'. cbn [run_pending handlers pending got] in X.
      destruct X as [X | [X | X]].
      * eapply W1; [exact C | left; exact X].
      * destruct X.
      * apply in_app_or in X. destruct X as [X | X].
        -- apply (proj2 (in_rev _ _)) in X. apply filter_In in X. destruct X as [X _]. eapply W1; [exact C | right; left; exact X].
        -- eapply W1; [exact C | right; right; exact X].
    + rewrite supd_other in H by exact N. eapply W1; eassumption.
  - destruct (scx w i) as [c|] eqn:C; cbn [fst]; [|split; assumption]. split; cbn [scx sdisp sroute]; [|exact W2].
    intros j c' s' H X. destruct (Nat.eq_dec j i) as [->|N]; [rewrite supd_same in H; discriminate|].
    rewrite supd_other in H by exact N. eapply W1; eassumption.
Qed.

Lemma hinv_run : forall pi pre w, HInv pre w -> HInv (pre ++ pi) (srun pi w).
Proof.
  induction pi as [|o r IH]; intros pre w H; cbn [srun].
  - rewrite app_nil_r. exact H.
  - replace (pre ++ o :: r) with ((pre ++ [o]) ++ r) by (rewrite <- app_assoc; reflexivity).
    apply IH, hinv_step, H.
Qed.

(** for ANY history pi (any number of contexts, any interleaving): whatever signal shows up in context i — in its
    handler log, its pending mask or its handler vector — context i installed a handler for it itself, earlier
    in pi.  (Context ids are never reused, so "i" is the same context object.) *)
Theorem only_own_signals_observed : forall pi i c s,
  scx (srun pi sw0) i = Some c -> In s (got c) \/ In s (pending c) \/ In s (handlers c) -> In (SInstall i s) pi.
Proof.
  intros pi i c s C X.
  assert (H : HInv ([] ++ pi) (srun pi sw0)).
  { apply hinv_run. split; cbn; intros; discriminate. }
  destruct H as [H1 _]. cbn [app] in H1. eapply H1; [exact C|]. tauto.
Qed.

(** ---------------------------------------------------------------- non-vacuity and necessity *)
Module SigExample.
  (* contexts 1 2 3; USR1 = 10 to context 1, USR2 = 12 to context 2, ALRM = 14 first to 1 then re-routed to 3 *)
  Definition pi : list sop :=
    [SNew 1; SNew 2; SInstall 1 10; SInstall 2 12; SInstall 1 14; SRaise 10; SRun 2; SRun 1; SNew 3;
     SInstall 3 14; SRaise 14; SRaise 12; SRun 1; SRun 3; SRun 2; SIgnore 2 12; SRaise 12; SRun 2; SDestroy 2; SRaise 10; SRun 1].

  Example trace_ok : forallb fst (strace 4 pi sw0) = true.
  Proof. vm_compute. reflexivity. Qed.

  Example final_logs : sobs 4 (srun pi sw0) = [(1, ([], [10; 10])); (3, ([], [14]))].
  Proof. vm_compute. reflexivity. Qed.

  (* hypotheses of signal_reaches_registrant are satisfiable *)
  Example reach_hyps : sdisp (srun pi sw0) 10 = DHandler /\ sroute (srun pi sw0) 10 = Some 1 /\ scx (srun pi sw0) 1 <> None.
  Proof. vm_compute. repeat split; discriminate. Qed.

  Fixpoint srun_single (pi : list sop) (w : sworld) : sworld :=
    match pi with [] => w | o :: r => srun_single r (fst (sstep_single w o)) end.

  (* the seeded defect: with ONE last-registered context, the signal context 1 registered is recorded in
     context 2 (which has no handler for it and drops it) and context 1 never runs its handler *)
  Definition demo : list sop := [SNew 1; SNew 2; SInstall 1 10; SInstall 2 12; SRaise 10; SRun 2; SRun 1].
  Example table_delivers : sobs 3 (srun demo sw0) = [(1, ([], [10])); (2, ([], []))].
  Proof. vm_compute. reflexivity. Qed.
  Example single_context_loses_signal : sobs 3 (srun_single demo sw0) = [(1, ([], [])); (2, ([], []))].
  Proof. vm_compute. reflexivity. Qed.
End SigExample.
