(** C13 — the REVIEWED allow-list of process-wide writable objects of the build.

    Every entry was read against the source named in [a_why].  The generated inventory
    (Gen/C13_Statics.v) must be covered by this list ([Inventory.statics_all_classified]); a new static, a new
    writer of a listed static, or a new function leaking the address of a listed static makes that obligation
    fail on the next run and has to be reviewed here. *)
From Coq Require Import String List ZArith.
From ChibiV Require Import C13.Defs.
Import ListNotations.
Local Open Scope string_scope.
Local Open Scope Z_scope.

Definition core := "libchibi-scheme.so".

Definition allow_list : list allow := [
  (* ---- libchibi-scheme.so ---- *)
  mk_allow core "sexp_initialized_p" false InitOnce 4 ["sexp_init"] []
    "sexp.c:22,4023-4031: flag set to 1 by sexp_init, which in this configuration does nothing else; embedding protocol (doc/chibi.scrbl main()) calls sexp_scheme_init once before any context exists";
  mk_allow core "scheme_initialized_p" false InitOnce 4 ["sexp_scheme_init"] []
    "eval.c:13,2779-2784: flag set to 1 by sexp_scheme_init only";
  mk_allow core "_sexp_type_specs" false Immutable 0 [] []
    "sexp.c:256-316: templates of the core types; sexp_init_context_globals (sexp.c:597-618) copies each into a fresh type object of the new context's heap";
  mk_allow core "opcodes" false Immutable 0 [] ["data:sexp_primitive_opcodes"]
    "opcodes.c:35: templates of the primitive opcodes, reached only through sexp_primitive_opcodes; sexp_copy_opcode (eval.c:2327-2349) copies each into the new context's heap";
  mk_allow core "sexp_primitive_opcodes" false Immutable 8 [] []
    "opcodes.c: pointer to opcodes[], never assigned";
  mk_allow core "core_forms" false Immutable 0 [] []
    "eval.c: table of core-form names, read when a context's environment is built";
  mk_allow core "sexp_initial_features" false Immutable 0 [] []
    "eval.c: feature names, copied into each context's feature list";
  mk_allow core "sexp_char_names" false Immutable 0 [] ["sexp_load_image"; "sexp_read_raw"; "sexp_read_raw_depth"]
    "sexp.c: character names (relro); the address takers index it read-only (sexp_read_raw_depth = the reader body since the depth-limit fix 0302f3f; reviewed: sexp.c #\\name lookup loop, reads only)";
  mk_allow core "all_paths" false Immutable 16 [] []
    "gc_heap.c:604: two constant path strings (relro)";
  mk_allow core "_huff_tab" true Immutable 32 [] ["sexp_write_one"]
    "include/chibi/sexp-hufftabs.h: generated decode tables of immediate symbols, non-const but never assigned; sexp_write_one walks them read-only";
  mk_allow core "gc_heap_err_str" false ErrScratch 256
    ["load_image_callback_p2"; "sexp_gc_heap_pack"; "sexp_gc_heap_walk"; "sexp_load_image"; "sexp_load_image_err"]
    ["load_image_callback_p1"; "load_image_fn"; "sexp_callback_remap"; "sexp_gc_heap_pack"; "sexp_gc_heap_walk";
     "sexp_load_image"; "sexp_load_image_err"; "sexp_save_image"]
    "gc_heap.c:10: message buffer of the heap image save/load failure paths; two contexts failing image operations at once can garble each other's message (documented limitation, no context state depends on it)";
  (* ---- compiled libraries ---- *)
  mk_allow "lib/chibi/disasm.so" "sexp_opcode_names" false Immutable 8 [] []
    "opt/opcode_names.h: pointer to the opcode name table, never assigned";
  mk_allow "lib/chibi/disasm.so" "sexp_opcode_names_" false Immutable 0 [] ["data:sexp_opcode_names"]
    "opt/opcode_names.h: opcode names, read-only";
  mk_allow "lib/chibi/optimize/rest.so" "local_ref_op" false Immutable 104 [] []
    "lib/chibi/optimize/rest.c:11: opcode template, memcpy'd into a fresh opcode object of the loading context (copy_opcode)";
  mk_allow "lib/chibi/process.so" "sexp_signal_contexts" false ProcessWide 256 ["sexp_set_signal_action_x_stub"] []
    "lib/chibi/signal.c:7: signal number -> the one context that handles it; signal dispositions are process-wide by nature (documented limitation); written only by set-signal-action!, no longer reset when the library is loaded again (fix C13-signal-init-resets-process-state)";
  mk_allow "lib/srfi/95/qsort.so" "_huff_tab" true Immutable 32 [] []
    "the same generated tables, instantiated again because qsort.c includes sexp-hufftabs.h; read-only";
  (* ---- C runtime startup objects present in every shared object ---- *)
  mk_allow "" "completed.0" false Runtime 1 ["__do_global_dtors_aux"] ["deregister_tm_clones"; "register_tm_clones"]
    "crtbegin: run-once flag of the destructor stub, written at dlclose/exit by the C runtime (the tm_clones stubs take the address of the section end, which coincides with it)";
  mk_allow "" "__dso_handle" false Runtime 8 [] ["__do_global_dtors_aux"; "data:__dso_handle"]
    "crtbegin: self-referencing handle passed to __cxa_finalize"
].
