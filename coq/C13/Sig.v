(** C13 (round 3) — executable model of signal delivery to independent contexts (lib/chibi/signal.c, compiled
    into lib/chibi/process.so; the handlers run in the green-thread scheduler, lib/srfi/18/threads.c:642-660 and
    lib/srfi/18/interface.scm:81-91).

    Process-wide state (the documented limitation, stated precisely):
      sdisp  : signal -> disposition            the kernel's, one per process (sigaction(2))
      sroute : signal -> context                `static sexp sexp_signal_contexts[SEXP_MAX_SIGNUM]` (signal.c:7):
                                                ONE context per signal number.  (set-signal-action! s h) evaluated
                                                in context j stores j (signal.c:64) WHATEVER was there: registering
                                                s in j after i re-routes s to j; entries of different signals are
                                                independent of each other.
    Per context: the handler vector SEXP_G_SIGNAL_HANDLERS (which signals have a Scheme procedure), the pending
    mask SEXP_G_THREADS_SIGNALS, and [got] = the log the scripted handlers keep (newest first).

      SInstall i s  (set-signal-action! s (lambda (n) ...)) in i     signal.c:35-66
      SIgnore i s   (set-signal-action! s #f) in i                   (SIG_IGN; the table entry is still written)
      SRaise s      kill(getpid(), s): the C handler sexp_call_sigaction (signal.c:9-32) sets bit s in the
                    pending mask of sexp_signal_contexts[s]
      SRun i        context i runs its scheduler for a while: the signal runner pops the pending signals lowest
                    number first (sexp_pop_signal, threads.c:537-549) and applies the context's own handler
      SDestroy i    sexp_destroy_context: the table keeps its (now dangling) pointer — a later SRaise of a signal
                    still routed to i with a handler disposition is reported [false] (undefined behaviour)
    No proofs in this file. *)
From Coq Require Import List Bool Arith.
Import ListNotations.

Definition sig := nat.

Inductive disp := DDefault | DIgnore | DHandler.

Record sctx := mk_sctx {
  handlers : list sig;     (* entries of the handler vector that are procedures *)
  pending : list sig;      (* the pending mask, ascending, no duplicates *)
  got : list sig           (* handler runs, newest first *)
}.

Record sworld := mk_sworld {
  sdisp : sig -> disp;
  sroute : sig -> option nat;
  sused : nat -> bool;               (* context ids are never reused (a new context is a new object) *)
  scx : nat -> option sctx
}.

Definition sw0 : sworld := mk_sworld (fun _ => DDefault) (fun _ => None) (fun _ => false) (fun _ => None).

Definition supd {A} (f : nat -> A) (x : nat) (v : A) : nat -> A := fun y => if Nat.eqb y x then v else f y.
Definition smem (x : nat) (l : list nat) : bool := existsb (Nat.eqb x) l.

(** setting a bit of the mask *)
Fixpoint sinsert (s : sig) (l : list sig) : list sig :=
  match l with
  | [] => [s]
  | x :: r => if s <? x then s :: l else if Nat.eqb s x then l else x :: sinsert s r
  end.

Definition sremove (s : sig) (l : list sig) : list sig := filter (fun x => negb (Nat.eqb x s)) l.

Inductive sop :=
| SNew (i : nat)
| SInstall (i : nat) (s : sig)
| SIgnore (i : nat) (s : sig)
| SRaise (s : sig)
| SRun (i : nat)
| SDestroy (i : nat).

(** one scheduler round of the signal runner: every pending signal, lowest first; the handler is looked up in
    THIS context's vector; a signal without a procedure there is dropped (interface.scm:86-88) *)
Definition run_pending (c : sctx) : sctx :=
  mk_sctx (handlers c) [] (rev (filter (fun s => smem s (handlers c)) (pending c)) ++ got c).

Definition sstep (w : sworld) (o : sop) : sworld * bool :=
  match o with
  | SNew i =>
      if sused w i then (w, false)
      else (mk_sworld (sdisp w) (sroute w) (supd (sused w) i true) (supd (scx w) i (Some (mk_sctx [] [] []))), true)
  | SInstall i s =>
      match scx w i with
      | None => (w, false)
      | Some c => (mk_sworld (supd (sdisp w) s DHandler) (supd (sroute w) s (Some i)) (sused w)
                     (supd (scx w) i (Some (mk_sctx (if smem s (handlers c) then handlers c else s :: handlers c) (pending c) (got c)))), true)
      end
  | SIgnore i s =>
      match scx w i with
      | None => (w, false)
      | Some c => (mk_sworld (supd (sdisp w) s DIgnore) (supd (sroute w) s (Some i)) (sused w)
                     (supd (scx w) i (Some (mk_sctx (sremove s (handlers c)) (pending c) (got c)))), true)
      end
  | SRaise s =>
      match sdisp w s with
      | DDefault => (w, false)            (* the default action of the signals used here ends the process *)
      | DIgnore => (w, true)
      | DHandler =>
          match sroute w s with
          | None => (w, true)             (* `if (ctx)` in sexp_call_sigaction *)
          | Some i =>
              match scx w i with
              | None => (w, false)        (* dangling: the registering context was destroyed *)
              | Some c => (mk_sworld (sdisp w) (sroute w) (sused w)
                             (supd (scx w) i (Some (mk_sctx (handlers c) (sinsert s (pending c)) (got c)))), true)
              end
          end
      end
  | SRun i =>
      match scx w i with
      | None => (w, false)
      | Some c => (mk_sworld (sdisp w) (sroute w) (sused w) (supd (scx w) i (Some (run_pending c))), true)
      end
  | SDestroy i =>
      match scx w i with
      | None => (w, false)
      | Some _ => (mk_sworld (sdisp w) (sroute w) (sused w) (supd (scx w) i None), true)
      end
  end.

Fixpoint srun (pi : list sop) (w : sworld) : sworld :=
  match pi with
  | [] => w
  | o :: r => srun r (fst (sstep w o))
  end.

(** what the harness observes after each operation: per live context its pending mask and its handler log *)
Definition sobs (n : nat) (w : sworld) : list (nat * (list sig * list sig)) :=
  flat_map (fun i => match scx w i with Some c => [(i, (pending c, got c))] | None => [] end) (seq 0 n).

Fixpoint strace (n : nat) (pi : list sop) (w : sworld) : list (bool * list (nat * (list sig * list sig))) :=
  match pi with
  | [] => []
  | o :: r => let '(w', ok) := sstep w o in (ok, sobs n w') :: strace n r w'
  end.

(** the seeded defect as a model variant: ONE process-wide "last registered context" instead of the table —
    every signal is routed to whoever registered last *)
Definition sstep_single (w : sworld) (o : sop) : sworld * bool :=
  match o with
  | SInstall i s =>
      match scx w i with
      | None => (w, false)
      | Some c => (mk_sworld (supd (sdisp w) s DHandler) (fun _ => Some i) (sused w)
                     (supd (scx w) i (Some (mk_sctx (if smem s (handlers c) then handlers c else s :: handlers c) (pending c) (got c)))), true)
      end
  | _ => sstep w o
  end.
