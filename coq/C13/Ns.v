(** C13 round 4 — the name space independent contexts share through the file system, and the candidate-name loop of
    lib/chibi/temp-file.scm [call-with-temp-file] (lines 12-44) / [call-with-temp-dir] (lines 55-77).

    Executable model, no proofs.  The candidate names are  base ++ i  with  base = template-pid-second-: ALL contexts of one
    process that use the same template within one second enumerate the SAME candidates, so a candidate is identified by
    its counter i.  [fs] = the candidates that currently exist.  One step = one system call of one context (the granularity
    at which OS threads interleave):

      Testing i  --(file-exists? path)-->  Testing (i+1) if it exists, else Opening i              temp-file.scm:26-27
      Opening i  --(open path flags)-->
          Exclusive (open/create|open/exclusive, mkdir): fails if it exists, else creates          temp-file.scm:29-31 / :64
          Truncate  (open/create|open/truncate, the seeded change; mkdir -p): always "succeeds"
      after a failed creation:
          Fixed (fixes/C13-temp-file-lost-race-raises.patch): Testing (i+1)
          Orig  (pinned code): Recheck i --(file-exists? path)--> Testing (i+1) if it exists, else Raised    temp-file.scm:33-35
                (call-with-temp-dir of the pinned code raises at once: that is Orig with the recheck answering "no")
      Holding i  --(proc returns, delete-file path)-->  Finished                                   temp-file.scm:40-41 *)
From Coq Require Import List Arith Bool.
Import ListNotations.

Inductive creation := Exclusive | Truncate.
Inductive retry := Fixed | Orig.

Inductive phase :=
| Idle               (* has not called call-with-temp-file *)
| Testing (i : nat)
| Opening (i : nat)
| Recheck (i : nat)
| Holding (i : nat)  (* proc is running with path i; this context believes it owns the file *)
| Finished
| Raised.

Record world := mk_world { fs : list nat; ph : nat -> phase }.

Definition w0 : world := mk_world [] (fun _ => Idle).

Definition set_ph (f : nat -> phase) (c : nat) (p : phase) : nat -> phase :=
  fun x => if Nat.eqb x c then p else f x.

Definition exists_in (l : list nat) (i : nat) : bool := existsb (Nat.eqb i) l.
Definition remove_name (l : list nat) (i : nat) : list nat := filter (fun x => negb (Nat.eqb x i)) l.

(** one system call of context c *)
Definition step (cr : creation) (rt : retry) (w : world) (c : nat) : world :=
  match ph w c with
  | Idle => mk_world (fs w) (set_ph (ph w) c (Testing 0))
  | Testing i =>
      if exists_in (fs w) i then mk_world (fs w) (set_ph (ph w) c (Testing (S i)))
      else mk_world (fs w) (set_ph (ph w) c (Opening i))
  | Opening i =>
      match cr with
      | Truncate => mk_world (if exists_in (fs w) i then fs w else i :: fs w) (set_ph (ph w) c (Holding i))
      | Exclusive =>
          if exists_in (fs w) i then
            mk_world (fs w) (set_ph (ph w) c (match rt with Fixed => Testing (S i) | Orig => Recheck i end))
          else mk_world (i :: fs w) (set_ph (ph w) c (Holding i))
      end
  | Recheck i =>
      if exists_in (fs w) i then mk_world (fs w) (set_ph (ph w) c (Testing (S i)))
      else mk_world (fs w) (set_ph (ph w) c Raised)
  | Holding i => mk_world (remove_name (fs w) i) (set_ph (ph w) c Finished)
  | Finished => w
  | Raised => w
  end.

(** an interleaving = the list of context ids in the order their system calls happened *)
Fixpoint run (cr : creation) (rt : retry) (pi : list nat) (w : world) : world :=
  match pi with
  | [] => w
  | c :: r => run cr rt r (step cr rt w c)
  end.

Definition holds (w : world) (c i : nat) : Prop := ph w c = Holding i.
