(** C13 (round 3) — proofs about the executable table model [Tab.v]. *)
From Coq Require Import List Bool Arith NArith Lia.
From ChibiV Require Import C13.Tab.
Import ListNotations.

Arguments bucket_of : simpl never.
Opaque bucket_of.

Definition owns (c : tctx) (a : addr) : Prop := inregs a (regs (theap c)) = true.

Record CInv (b : addr) (c : tctx) : Prop := mk_CInv {
  ci_below : forall r, In r (regs (theap c)) -> r_base r + r_size r <= b;
  ci_ptrs : forall a, In a (ptrs c) -> owns c a;
  ci_cap1 : 1 <= tcap c;
  ci_cap : length (types c) <= tcap c;
  ci_cpl : forall t a, In t (types c) -> In a (ty_cpl t) -> exists t', In t' (types c) /\ ty_addr t' = a;
  ci_parent : forall n t p, nth_error (types c) n = Some t -> ty_parent t = Some p -> p < n;
  ci_syms : NoDup (map sy_name (syms c));
  ci_bucket : forall s, In s (syms c) -> sy_bucket s = bucket_of (sy_name s)
}.

Record TInv (w : tworld) : Prop := mk_TInv {
  ti_ctx : forall i c, tcx w i = Some c -> CInv (brk w) c;
  ti_disj : forall i j ci cj a, i <> j -> tcx w i = Some ci -> tcx w j = Some cj -> owns ci a -> ~ owns cj a
}.

Definition proj (c : tctx) :=
  (map (fun t => (ty_name t, ty_parent t)) (types c), tcap c, map (fun s => (sy_name s, sy_bucket s)) (syms c),
   map (fun x => (b_name x, b_val x)) (env c), map fst (mods c)).
Definition own_ops (i : nat) (pi : list top) : list top := filter (fun o => Nat.eqb (who o) i) pi.

(** ---------------------------------------------------------------- names *)

Lemma name_eqb_eq a b : name_eqb a b = true <-> a = b.
Proof.
  revert b; induction a as [|x a IH]; destruct b as [|y b]; cbn [name_eqb]; try (split; congruence).
  rewrite andb_true_iff, N.eqb_eq, IH. split; [intros [-> ->]; reflexivity | intros H; inversion H; auto].
Qed.

Lemma name_eqb_refl a : name_eqb a a = true.
Proof. apply name_eqb_eq; reflexivity. Qed.

Lemma find_sym_some s l y : find_sym s l = Some y -> In y l /\ sy_name y = s.
Proof.
  unfold find_sym; intros H; apply find_some in H; destruct H as [H1 H2].
  apply name_eqb_eq in H2; auto.
Qed.

Lemma find_sym_none s l : find_sym s l = None -> ~ In s (map sy_name l).
Proof.
  intros H Hin; apply in_map_iff in Hin; destruct Hin as (y & <- & Hy).
  unfold find_sym in H. eapply find_none in H; eauto. cbn beta in H.
  rewrite name_eqb_refl in H; discriminate.
Qed.

(** ---------------------------------------------------------------- heaps *)

Definition below (b : addr) (h : hp) : Prop := forall r, In r (regs h) -> r_base r + r_size r <= b.

Definition ext (b : addr) (h : hp) (b' : addr) (h' : hp) : Prop :=
  b <= b' /\
  (forall x, inregs x (regs h) = true -> inregs x (regs h') = true) /\
  (forall x, inregs x (regs h') = true -> inregs x (regs h) = true \/ b <= x) /\
  below b' h'.

Lemma inreg_iff a r : inreg a r = true <-> r_base r <= a < r_base r + r_size r.
Proof. unfold inreg. rewrite andb_true_iff, Nat.leb_le, Nat.ltb_lt. tauto. Qed.

Lemma inregs_iff a rs : inregs a rs = true <-> exists r, In r rs /\ r_base r <= a < r_base r + r_size r.
Proof.
  unfold inregs. rewrite existsb_exists.
  split; intros (r & H1 & H2); exists r; split; auto; apply inreg_iff; auto.
Qed.

Lemma ext_refl b h : below b h -> ext b h b h.
Proof. intros H. unfold ext. split; [lia|]. split; [auto|]. split; [auto|]. exact H. Qed.

Lemma ext_trans b h b1 h1 b2 h2 : ext b h b1 h1 -> ext b1 h1 b2 h2 -> ext b h b2 h2.
Proof.
  intros (A1&A2&A3&A4) (B1&B2&B3&B4). unfold ext.
  split; [lia|]. split; [auto|]. split; [|exact B4].
  intros x Hx. destruct (B3 x Hx) as [H|H]; [auto | right; lia].
Qed.

Lemma ext_owns b h b' h' x : ext b h b' h' -> inregs x (regs h) = true -> inregs x (regs h') = true.
Proof. intros (_&A&_&_); auto. Qed.

Lemma ext_below b h b' h' : ext b h b' h' -> below b' h'.
Proof. intros (_&_&_&A); auto. Qed.

Lemma ext_le b h b' h' : ext b h b' h' -> b <= b'.
Proof. intros (A&_&_&_); auto. Qed.

Lemma ext_new b h b' h' x : ext b h b' h' -> inregs x (regs h') = true -> inregs x (regs h) = true \/ b <= x.
Proof. intros (_&_&A&_); auto. Qed.

Lemma halloc_ext b h n a h' b' : 1 <= n -> below b h -> halloc b h n = (a, h', b') ->
  ext b h b' h' /\ inregs a (regs h') = true.
Proof.
  intros Hn Hb. unfold ext, below in *. unfold halloc. destruct (regs h) as [|r rs] eqn:R.
  - intros H; inversion H; subst; clear H. cbn [regs].
    split; [split; [lia | split; [| split]] |].
    + intros x Hx; discriminate.
    + intros x Hx. right. apply inregs_iff in Hx. destruct Hx as (r & [<-|[]] & Hr). cbn in Hr. lia.
    + intros r [<-|[]]. cbn. lia.
    + apply inregs_iff. eexists; split; [left; reflexivity|]. cbn. lia.
  - destruct (used h + n <=? r_size r) eqn:EU.
    + apply Nat.leb_le in EU. intros H; inversion H; subst; clear H. cbn [regs].
      split; [split; [lia | split; [auto | split; [auto | exact Hb]]] |].
      apply inregs_iff. exists r; split; [left; reflexivity | lia].
    + intros H; inversion H; subst; clear H. cbn [regs].
      set (sz := Nat.max (2 * r_size r) n). assert (n <= sz) by (unfold sz; lia).
      split; [split; [lia | split; [| split]] |].
      * intros x Hx. apply inregs_iff in Hx. destruct Hx as (r0 & Hr0 & Hx).
        apply inregs_iff. exists r0; split; [right; exact Hr0 | exact Hx].
      * intros x Hx. apply inregs_iff in Hx. destruct Hx as (r0 & [<-|Hr0] & Hx).
        -- right. cbn in Hx. lia.
        -- left. apply inregs_iff. exists r0; auto.
      * intros r0 [<-|Hr0]; [cbn; lia | specialize (Hb r0 Hr0); lia].
      * apply inregs_iff. eexists; split; [left; reflexivity|]. cbn. lia.
Qed.

(** ---------------------------------------------------------------- context invariant: tools *)

Lemma cinv_mono b b' c : b <= b' -> CInv b c -> CInv b' c.
Proof.
  intros L [H1 H2 H3 H4 H5 H6 H7 H8]. constructor; auto.
  intros r Hr. specialize (H1 r Hr). lia.
Qed.

Lemma owns_lt b c a : CInv b c -> owns c a -> a < b.
Proof.
  intros H Ho. apply inregs_iff in Ho. destruct Ho as (r & Hr & Ha).
  pose proof (ci_below _ _ H r Hr). lia.
Qed.

Lemma in_ptrs a c : In a (ptrs c) <->
  globals c = a \/ symtab c = a \/ tarr c = a \/
  (exists t, In t (types c) /\ In a (ty_ptrs t)) \/ (exists s, In s (syms c) /\ In a (sym_ptrs s)) \/
  In a (map b_cell (env c)) \/ In a (map snd (mods c)).
Proof. unfold ptrs. cbn [In]. rewrite !in_app_iff, !in_flat_map. tauto. Qed.

Definition ptrs_ok (P : addr -> Prop) (c : tctx) : Prop :=
  P (globals c) /\ P (symtab c) /\ P (tarr c) /\
  (forall t, In t (types c) -> P (ty_addr t) /\ P (ty_namea t) /\ P (ty_cplv t) /\ forall a, In a (ty_cpl t) -> P a) /\
  (forall s, In s (syms c) -> P (sy_addr s) /\ P (sy_cell s)) /\
  (forall x, In x (env c) -> P (b_cell x)) /\
  (forall m, In m (mods c) -> P (snd m)).

Lemma ptrs_ok_iff (P : addr -> Prop) c : (forall a, In a (ptrs c) -> P a) <-> ptrs_ok P c.
Proof.
  split.
  - intros H. unfold ptrs_ok.
    split; [apply H, in_ptrs; auto|]. split; [apply H, in_ptrs; auto|]. split; [apply H, in_ptrs; auto|].
    split; [|split; [|split]].
    + intros t Ht.
      assert (Q : forall a, In a (ty_ptrs t) -> P a).
      { intros a Ha. apply H, in_ptrs. right; right; right; left. exists t; auto. }
      unfold ty_ptrs in Q. cbn [In] in Q. repeat split; auto 6.
    + intros s Hs.
      assert (Q : forall a, In a (sym_ptrs s) -> P a).
      { intros a Ha. apply H, in_ptrs. right; right; right; right; left. exists s; auto. }
      unfold sym_ptrs in Q. cbn [In] in Q. split; auto.
    + intros x Hx. apply H, in_ptrs. right; right; right; right; right; left. apply in_map; auto.
    + intros m Hm. apply H, in_ptrs. right; right; right; right; right; right. apply in_map; auto.
  - intros (Hg & Hs & Ha & Ht & Hy & He & Hm) a Hin. apply in_ptrs in Hin.
    destruct Hin as [<-|[<-|[<-|[(t & Ht1 & Ht2)|[(s&Hs1&Hs2)|[Hin|Hin]]]]]]; auto.
    + destruct (Ht t Ht1) as (A&B&C&D). unfold ty_ptrs in Ht2; cbn [In] in Ht2.
      destruct Ht2 as [<-|[<-|[<-|Hd]]]; auto.
    + destruct (Hy s Hs1) as (A&B). unfold sym_ptrs in Hs2; cbn [In] in Hs2.
      destruct Hs2 as [<-|[<-|[]]]; auto.
    + apply in_map_iff in Hin; destruct Hin as (x & <- & Hx); auto.
    + apply in_map_iff in Hin; destruct Hin as (x & <- & Hx); auto.
Qed.

Lemma cinv_ptrs_ok b c : CInv b c -> ptrs_ok (owns c) c.
Proof. intros I. apply ptrs_ok_iff. exact (ci_ptrs _ _ I). Qed.

Definition good (b : addr) (c : tctx) (b' : addr) (c' : tctx) : Prop :=
  CInv b' c' /\ ext b (theap c) b' (theap c').

Lemma good_refl b c : CInv b c -> good b c b c.
Proof. intros I; split; [exact I | apply ext_refl; exact (ci_below _ _ I)]. Qed.

Lemma good_trans b c b1 c1 b2 c2 : good b c b1 c1 -> good b1 c1 b2 c2 -> good b c b2 c2.
Proof. intros [_ X1] [I2 X2]. split; [exact I2 | eapply ext_trans; eauto]. Qed.

Ltac fields := cbn [theap globals symtab tarr tcap types syms env mods
                    ty_addr ty_name ty_namea ty_parent ty_cplv ty_cpl
                    sy_name sy_bucket sy_addr sy_cell b_name b_cell b_val regs used].

(** ---------------------------------------------------------------- reg_type *)

Lemma reg_type_inv b c nm p c' b' id : CInv b c -> reg_type b c nm p = (c', b', id) -> good b c b' c'.
Proof.
  intros I. pose proof (cinv_ptrs_ok _ _ I) as (Pg & Ps & Pa & Pt & Py & Pe & Pm).
  unfold reg_type. cbv zeta.
  destruct (halloc b (theap c) sz_str) as [[na h1] b1] eqn:E1. cbv beta iota.
  apply halloc_ext in E1; [| unfold sz_str; lia | exact (ci_below _ _ I)]. destruct E1 as [X1 O1].
  match goal with |- context [if ?x then ?u else ?v] =>
    destruct (if x then u else v) as [[[arr cap] h2] b2] eqn:E2 end.
  cbv beta iota.
  assert (G : ext b1 h1 b2 h2 /\ inregs arr (regs h2) = true /\ S (length (types c)) <= cap /\ 1 <= cap).
  { pose proof (ci_cap1 _ _ I). pose proof (ci_cap _ _ I).
    destruct (tcap c <=? length (types c)) eqn:EC.
    - destruct (halloc b1 h1 (sz_vec (2 * tcap c))) as [[a h] bb] eqn:E. inversion E2; subst; clear E2.
      apply halloc_ext in E; [| unfold sz_vec; lia | exact (ext_below _ _ _ _ X1)]. destruct E as [X O].
      apply Nat.leb_le in EC. split; [exact X|]. split; [exact O|]. lia.
    - inversion E2; subst; clear E2. apply Nat.leb_gt in EC.
      split; [apply ext_refl; exact (ext_below _ _ _ _ X1) |].
      split; [eapply ext_owns; [exact X1 | exact Pa] | lia]. }
  clear E2. destruct G as (X2 & O2 & C2 & C1).
  destruct (halloc b2 h2 sz_type) as [[ta h3] b3] eqn:E3. cbv beta iota.
  apply halloc_ext in E3; [| unfold sz_type; lia | exact (ext_below _ _ _ _ X2)]. destruct E3 as [X3 O3].
  match goal with |- context [halloc b3 h3 ?n] => destruct (halloc b3 h3 n) as [[cv h4] b4] eqn:E4 end.
  cbv beta iota.
  apply halloc_ext in E4; [| unfold sz_vec; lia | exact (ext_below _ _ _ _ X3)]. destruct E4 as [X4 O4].
  intros H; inversion H; subst; clear H.
  assert (X : ext b (theap c) b' h4).
  { eapply ext_trans; [exact X1|]. eapply ext_trans; [exact X2|]. eapply ext_trans; [exact X3|exact X4]. }
  assert (M : forall x, owns c x -> inregs x (regs h4) = true).
  { intros x Hx. eapply ext_owns; [exact X | exact Hx]. }
  assert (Ota : inregs ta (regs h4) = true) by (eapply ext_owns; [exact X4 | exact O3]).
  assert (PC : forall a, In a (match match p with Some p0 => nth_error (types c) p0 | None => None end with
                                | Some t => ty_cpl t | None => [] end) ->
               exists t, In t (types c) /\ In a (ty_cpl t)).
  { intros a Ha. destruct p as [q|]; [destruct (nth_error (types c) q) as [tp|] eqn:EN|]; cbn in Ha; try contradiction.
    apply nth_error_In in EN. eauto. }
  split; [| exact X]. constructor; fields.
  - exact (ext_below _ _ _ _ X4).
  - apply ptrs_ok_iff. unfold ptrs_ok, owns; fields.
    split; [auto|]. split; [auto|].
    split; [eapply ext_owns; [exact X4|]; eapply ext_owns; [exact X3| exact O2] |].
    split; [|split; [|split]].
    + intros t Ht; apply in_app_iff in Ht; destruct Ht as [Ht|[<-|[]]].
      * destruct (Pt t Ht) as (A&B&C&D); repeat split; auto.
      * fields. split; [exact Ota|]. split.
        { eapply ext_owns; [exact X4|]; eapply ext_owns; [exact X3|]; eapply ext_owns; [exact X2| exact O1]. }
        split; [exact O4|].
        intros a Ha; apply in_app_iff in Ha; destruct Ha as [Ha | [<-|[]]]; [| exact Ota].
        destruct (PC a Ha) as (tp & Htp & Hatp). apply M. apply (Pt tp Htp); auto.
    + intros s Hs; destruct (Py s Hs); split; auto.
    + auto.
    + auto.
  - exact C1.
  - rewrite app_length; cbn [length]. lia.
  - intros t a Ht Ha. apply in_app_iff in Ht. destruct Ht as [Ht|[<-|[]]].
    + destruct (ci_cpl _ _ I t a Ht Ha) as (t' & Ht' & E). exists t'; split; [apply in_app_iff; auto | auto].
    + fields. cbn [ty_cpl] in Ha. apply in_app_iff in Ha; destruct Ha as [Ha | [<-|[]]].
      * destruct (PC a Ha) as (tp & Htp & Hatp).
        destruct (ci_cpl _ _ I tp a Htp Hatp) as (t' & Ht' & E). exists t'; split; [apply in_app_iff; auto | auto].
      * eexists; split; [apply in_app_iff; right; left; reflexivity | reflexivity].
  - intros n t q Hn Hp. destruct (Nat.lt_ge_cases n (length (types c))) as [L|L].
    + rewrite nth_error_app1 in Hn by auto. eapply ci_parent; eauto.
    + rewrite nth_error_app2 in Hn by auto.
      destruct (n - length (types c)) as [|d] eqn:ED; cbn in Hn; [| destruct d; discriminate].
      inversion Hn; subst; clear Hn. cbn [ty_parent] in Hp.
      destruct p as [q'|]; [destruct (nth_error (types c) q') eqn:EN|]; try discriminate.
      inversion Hp; subst.
      assert (q < length (types c)) by (apply nth_error_Some; congruence). lia.
  - exact (ci_syms _ _ I).
  - exact (ci_bucket _ _ I).
Qed.

(** ---------------------------------------------------------------- intern / define / load *)

Lemma ptrs_ok_mono (P Q : addr -> Prop) c : (forall a, P a -> Q a) -> ptrs_ok P c -> ptrs_ok Q c.
Proof.
  intros M (Pg & Ps & Pa & Pt & Py & Pe & Pm). unfold ptrs_ok.
  split; [auto|]. split; [auto|]. split; [auto|]. split; [|split; [|split]].
  - intros t Ht. destruct (Pt t Ht) as (A&B&C&D). repeat split; auto.
  - intros s Hs. destruct (Py s Hs). split; auto.
  - auto.
  - auto.
Qed.

Lemma intern_inv b c s c' b' r : CInv b c -> intern b c s = (c', b', r) -> good b c b' c'.
Proof.
  intros I. unfold intern. destruct (find_sym s (syms c)) as [y|] eqn:F.
  - intros H; inversion H; subst. apply good_refl; exact I.
  - destruct (halloc b (theap c) (S (length s / 8))) as [[sa h1] b1] eqn:E1. cbv beta iota.
    apply halloc_ext in E1; [| lia | exact (ci_below _ _ I)]. destruct E1 as [X1 O1].
    destruct (halloc b1 h1 sz_pair) as [[ca h2] b2] eqn:E2. cbv beta iota.
    apply halloc_ext in E2; [| unfold sz_pair; lia | exact (ext_below _ _ _ _ X1)]. destruct E2 as [X2 O2].
    intros H; inversion H; subst; clear H.
    assert (X : ext b (theap c) b' h2) by (eapply ext_trans; eauto).
    assert (M : forall x, owns c x -> inregs x (regs h2) = true)
      by (intros x Hx; eapply ext_owns; [exact X|exact Hx]).
    pose proof (ptrs_ok_mono _ _ _ M (cinv_ptrs_ok _ _ I)) as (Pg & Ps & Pa & Pt & Py & Pe & Pm).
    split; [|exact X]. constructor; fields.
    + exact (ext_below _ _ _ _ X2).
    + apply ptrs_ok_iff. unfold ptrs_ok, owns; fields.
      split; [auto|]. split; [auto|]. split; [auto|]. split; [|split; [|split]]; auto.
      intros y [<-|Hy]; [| auto]. fields. split; [eapply ext_owns; [exact X2| exact O1] | exact O2].
    + exact (ci_cap1 _ _ I).
    + exact (ci_cap _ _ I).
    + exact (ci_cpl _ _ I).
    + exact (ci_parent _ _ I).
    + cbn [map]. fields. constructor; [apply find_sym_none; exact F | exact (ci_syms _ _ I)].
    + intros y [<-|Hy]; [reflexivity | apply (ci_bucket _ _ I); auto].
Qed.

Lemma define_inv b c s v c' b' : CInv b c -> define b c s v = (c', b') -> good b c b' c'.
Proof.
  intros I. unfold define. destruct (intern b c s) as [[c1 b1] r] eqn:EI.
  apply intern_inv in EI; [|exact I]. destruct EI as [I1 X1].
  destruct (find_bind s (env c1)) as [x0|].
  - intros H; inversion H; subst; clear H. split; [| exact X1].
    pose proof (cinv_ptrs_ok _ _ I1) as (Pg & Ps & Pa & Pt & Py & Pe & Pm).
    constructor; fields.
    + exact (ci_below _ _ I1).
    + apply ptrs_ok_iff. unfold ptrs_ok; fields.
      split; [auto|]. split; [auto|]. split; [auto|]. split; [|split; [|split]]; auto.
      intros x Hx. apply in_map_iff in Hx. destruct Hx as (x1 & <- & Hx1).
      destruct (name_eqb s (b_name x1)); fields; apply Pe; auto.
    + exact (ci_cap1 _ _ I1).
    + exact (ci_cap _ _ I1).
    + exact (ci_cpl _ _ I1).
    + exact (ci_parent _ _ I1).
    + exact (ci_syms _ _ I1).
    + exact (ci_bucket _ _ I1).
  - destruct (halloc b1 (theap c1) sz_pair) as [[ca h] b2] eqn:E. cbv beta iota.
    apply halloc_ext in E; [| unfold sz_pair; lia | exact (ci_below _ _ I1)]. destruct E as [X O].
    intros H; inversion H; subst; clear H.
    assert (M : forall x, owns c1 x -> inregs x (regs h) = true)
      by (intros x Hx; eapply ext_owns; [exact X|exact Hx]).
    pose proof (ptrs_ok_mono _ _ _ M (cinv_ptrs_ok _ _ I1)) as (Pg & Ps & Pa & Pt & Py & Pe & Pm).
    split; [| eapply ext_trans; [exact X1 | exact X]]. constructor; fields.
    + exact (ext_below _ _ _ _ X).
    + apply ptrs_ok_iff. unfold ptrs_ok, owns; fields.
      split; [auto|]. split; [auto|]. split; [auto|]. split; [|split; [|split]]; auto.
      intros x [<-|Hx]; [exact O | auto].
    + exact (ci_cap1 _ _ I1).
    + exact (ci_cap _ _ I1).
    + exact (ci_cpl _ _ I1).
    + exact (ci_parent _ _ I1).
    + exact (ci_syms _ _ I1).
    + exact (ci_bucket _ _ I1).
Qed.

Lemma intern_many_inv l k : forall b c c' b', CInv b c -> intern_many b c l k = (c', b') -> good b c b' c'.
Proof.
  induction k as [|k IH]; intros b c c' b' I; cbn [intern_many].
  - intros H; inversion H; subst. apply good_refl; auto.
  - destruct (intern_many b c l k) as [c1 b1] eqn:E1.
    destruct (intern b1 c1 (lib_sym l k)) as [[c2 b2] r] eqn:E2.
    intros H; inversion H; subst; clear H.
    pose proof (IH _ _ _ _ I E1) as G1. eapply good_trans; [exact G1|].
    eapply intern_inv; [exact (proj1 G1) | exact E2].
Qed.

Lemma reg_many_inv l k : forall b c c' b', CInv b c -> reg_many b c l k = (c', b') -> good b c b' c'.
Proof.
  induction k as [|k IH]; intros b c c' b' I; cbn [reg_many].
  - intros H; inversion H; subst. apply good_refl; auto.
  - destruct (reg_many b c l k) as [c1 b1] eqn:E1.
    destruct (reg_type b1 c1 (lib_ty l k) None) as [[c2 b2] r] eqn:E2.
    intros H; inversion H; subst; clear H.
    pose proof (IH _ _ _ _ I E1) as G1. eapply good_trans; [exact G1|].
    eapply reg_type_inv; [exact (proj1 G1) | exact E2].
Qed.

Lemma load_inv b c l nt ns c' b' : CInv b c -> load b c l nt ns = (c', b') -> good b c b' c'.
Proof.
  intros I. unfold load. destruct (has_mod l c).
  - intros H; inversion H; subst. apply good_refl; auto.
  - destruct (halloc b (theap c) sz_pair) as [[ma h] b1] eqn:E. cbv beta iota zeta.
    apply halloc_ext in E; [| unfold sz_pair; lia | exact (ci_below _ _ I)]. destruct E as [X O].
    match goal with |- context [intern_many b1 ?cc l ns] => set (c1 := cc) end.
    assert (G1 : good b c b1 c1).
    { assert (M : forall x, owns c x -> inregs x (regs h) = true)
        by (intros x Hx; eapply ext_owns; [exact X|exact Hx]).
      pose proof (ptrs_ok_mono _ _ _ M (cinv_ptrs_ok _ _ I)) as (Pg & Ps & Pa & Pt & Py & Pe & Pm).
      split; [| exact X]. unfold c1. constructor; fields.
      + exact (ext_below _ _ _ _ X).
      + apply ptrs_ok_iff. unfold ptrs_ok, owns; fields.
        split; [auto|]. split; [auto|]. split; [auto|]. split; [|split; [|split]]; auto.
        intros x [<-|Hx]; [exact O | auto].
      + exact (ci_cap1 _ _ I).
      + exact (ci_cap _ _ I).
      + exact (ci_cpl _ _ I).
      + exact (ci_parent _ _ I).
      + exact (ci_syms _ _ I).
      + exact (ci_bucket _ _ I). }
    destruct (intern_many b1 c1 l ns) as [c2 b2] eqn:E2.
    intros E3.
    pose proof (intern_many_inv _ _ _ _ _ _ (proj1 G1) E2) as G2.
    pose proof (reg_many_inv _ _ _ _ _ _ (proj1 G2) E3) as G3.
    eapply good_trans; [exact G1|]. eapply good_trans; [exact G2 | exact G3].
Qed.

(** ---------------------------------------------------------------- new contexts *)

Lemma core_types_inv n : forall b h ts h' b', below b h -> core_types b h n = (ts, h', b') ->
  ext b h b' h' /\ length ts = n /\
  (forall t, In t ts -> inregs (ty_addr t) (regs h') = true /\ inregs (ty_namea t) (regs h') = true /\
                        ty_cplv t = ty_addr t /\ ty_cpl t = [ty_addr t] /\ ty_parent t = None) /\
  map (fun t => (ty_name t, ty_parent t)) ts = map (fun k => (k, @None nat)) (seq 0 n).
Proof.
  induction n as [|n IH]; intros b h ts h' b' Hb; cbn [core_types].
  - intros H; inversion H; subst. split; [apply ext_refl; auto|]. split; [reflexivity|].
    split; [intros t []| reflexivity].
  - destruct (core_types b h n) as [[ts1 h1] b1] eqn:E0.
    destruct (IH _ _ _ _ _ Hb E0) as (X0 & L0 & T0 & M0).
    destruct (halloc b1 h1 sz_type) as [[ta h2] b2] eqn:E1.
    apply halloc_ext in E1; [| unfold sz_type; lia | exact (ext_below _ _ _ _ X0)]. destruct E1 as [X1 O1].
    destruct (halloc b2 h2 sz_str) as [[na h3] b3] eqn:E2.
    apply halloc_ext in E2; [| unfold sz_str; lia | exact (ext_below _ _ _ _ X1)]. destruct E2 as [X2 O2].
    intros H; inversion H; subst; clear H.
    split; [eapply ext_trans; [exact X0|]; eapply ext_trans; [exact X1 | exact X2] |].
    split; [rewrite app_length; cbn [length]; lia|].
    split.
    + intros t Ht. apply in_app_iff in Ht. destruct Ht as [Ht|[<-|[]]].
      * destruct (T0 t Ht) as (A&B&C&D&E). repeat split; auto.
        -- eapply ext_owns; [exact X2|]. eapply ext_owns; [exact X1| exact A].
        -- eapply ext_owns; [exact X2|]. eapply ext_owns; [exact X1| exact B].
      * fields. repeat split; auto. eapply ext_owns; [exact X2| exact O1].
    + rewrite map_app, seq_S, map_app, M0. reflexivity.
Qed.

Lemma new_ctx_facts ncore b hs c b' : new_ctx ncore b hs = (c, b') ->
  below b' (theap c) /\ b <= b' /\ (forall x, owns c x -> b <= x) /\
  owns c (globals c) /\ owns c (symtab c) /\ owns c (tarr c) /\ tcap c = 2 * ncore /\
  length (types c) = ncore /\
  (forall t, In t (types c) -> owns c (ty_addr t) /\ owns c (ty_namea t) /\
                        ty_cplv t = ty_addr t /\ ty_cpl t = [ty_addr t] /\ ty_parent t = None) /\
  map (fun t => (ty_name t, ty_parent t)) (types c) = map (fun k => (k, @None nat)) (seq 0 ncore) /\
  syms c = [] /\ env c = [] /\ mods c = [].
Proof.
  unfold new_ctx. cbv zeta.
  set (h0 := mk_hp [mk_region b (S hs)] 1).
  assert (B0 : below (b + S hs) h0). { intros r [<-|[]]; cbn; lia. }
  assert (N0 : forall x, inregs x (regs h0) = true -> b <= x).
  { intros x Hx. apply inregs_iff in Hx. destruct Hx as (r & [<-|[]] & Hr). cbn in Hr; lia. }
  destruct (halloc (b + S hs) h0 (sz_vec 8)) as [[g h1] b1] eqn:E1.
  apply halloc_ext in E1; [| unfold sz_vec; lia | exact B0]. destruct E1 as [X1 O1].
  destruct (halloc b1 h1 (sz_vec 8)) as [[st h2] b2] eqn:E2.
  apply halloc_ext in E2; [| unfold sz_vec; lia | exact (ext_below _ _ _ _ X1)]. destruct E2 as [X2 O2].
  destruct (halloc b2 h2 (sz_vec (2 * ncore))) as [[ar h3] b3] eqn:E3.
  apply halloc_ext in E3; [| unfold sz_vec; lia | exact (ext_below _ _ _ _ X2)]. destruct E3 as [X3 O3].
  destruct (core_types b3 h3 ncore) as [[ts h4] b4] eqn:E4.
  destruct (core_types_inv _ _ _ _ _ _ (ext_below _ _ _ _ X3) E4) as (X4 & L4 & T4 & M4).
  intros H; injection H as <- <-. unfold owns; fields.
  assert (X : ext (b + S hs) h0 b4 h4).
  { eapply ext_trans; [exact X1|]. eapply ext_trans; [exact X2|]. eapply ext_trans; [exact X3|exact X4]. }
  split; [exact (ext_below _ _ _ _ X4)|].
  split; [pose proof (ext_le _ _ _ _ X); lia|].
  split. { intros x Hx. destruct (ext_new _ _ _ _ _ X Hx) as [Hy|Hy]; [auto | lia]. }
  split. { eapply ext_owns; [exact X4|]. eapply ext_owns; [exact X3|]. eapply ext_owns; [exact X2|exact O1]. }
  split. { eapply ext_owns; [exact X4|]. eapply ext_owns; [exact X3|exact O2]. }
  split. { eapply ext_owns; [exact X4|exact O3]. }
  split; [reflexivity|]. split; [exact L4|]. split; [exact T4|]. split; [exact M4|]. auto.
Qed.

Lemma new_ctx_inv ncore b hs c b' : 0 < ncore -> new_ctx ncore b hs = (c, b') -> CInv b' c.
Proof.
  intros Hn E. destruct (new_ctx_facts _ _ _ _ _ E) as (B & L & N & Og & Os & Oa & Cap & Len & T & _ & Sy & En & Mo).
  constructor.
  - exact B.
  - apply ptrs_ok_iff. unfold ptrs_ok. rewrite Sy, En, Mo.
    split; [auto|]. split; [auto|]. split; [auto|]. split; [|split; [|split]]; try (intros ? []).
    intros t Ht. destruct (T t Ht) as (A&B1&C&D&_). rewrite C, D. repeat split; auto.
    intros a [<-|[]]; auto.
  - lia.
  - lia.
  - intros t a Ht Ha. destruct (T t Ht) as (_&_&_&D&_). rewrite D in Ha. destruct Ha as [<-|[]]. eauto.
  - intros n t p Hn' Hp. apply nth_error_In in Hn'. destruct (T t Hn') as (_&_&_&_&P). congruence.
  - rewrite Sy. constructor.
  - rewrite Sy. intros s [].
Qed.

(** ---------------------------------------------------------------- the world *)

Lemma tupd_same f i v : tupd f i v i = v.
Proof. unfold tupd; rewrite Nat.eqb_refl; reflexivity. Qed.

Lemma tupd_other f i v j : j <> i -> tupd f i v j = f j.
Proof. unfold tupd; intros; destruct (Nat.eqb_spec j i); congruence. Qed.

Lemma upd_inv w i c' b' : TInv w -> CInv b' c' -> brk w <= b' ->
  (forall x, owns c' x -> (exists c, tcx w i = Some c /\ owns c x) \/ brk w <= x) ->
  TInv (mk_tworld b' (tupd (tcx w) i (Some c'))).
Proof.
  intros [TC TD] I L N. constructor; cbn [brk tcx].
  - intros k c Hk. destruct (Nat.eq_dec k i) as [->|Hne].
    + rewrite tupd_same in Hk. inversion Hk; subst; exact I.
    + rewrite tupd_other in Hk by auto. eapply cinv_mono; [exact L | eapply TC; eauto].
  - intros k j ck cj a Hkj Hk Hj Ok Oj.
    destruct (Nat.eq_dec k i) as [->|Hki]; destruct (Nat.eq_dec j i) as [->|Hji].
    + congruence.
    + rewrite tupd_same in Hk; inversion Hk; subst. rewrite tupd_other in Hj by auto.
      destruct (N a Ok) as [(c & Hc & Oc)|Hge].
      * exact (TD i j c cj a Hkj Hc Hj Oc Oj).
      * pose proof (owns_lt _ _ _ (TC _ _ Hj) Oj). lia.
    + rewrite tupd_same in Hj; inversion Hj; subst. rewrite tupd_other in Hk by auto.
      destruct (N a Oj) as [(c & Hc & Oc)|Hge].
      * exact (TD k i ck c a Hkj Hk Hc Ok Oc).
      * pose proof (owns_lt _ _ _ (TC _ _ Hk) Ok). lia.
    + rewrite tupd_other in Hk by auto. rewrite tupd_other in Hj by auto.
      exact (TD k j ck cj a Hkj Hk Hj Ok Oj).
Qed.

Lemma upd_good w i c c' b' : TInv w -> tcx w i = Some c -> good (brk w) c b' c' ->
  TInv (mk_tworld b' (tupd (tcx w) i (Some c'))).
Proof.
  intros T Hc [I X]. apply upd_inv; auto.
  - exact (ext_le _ _ _ _ X).
  - intros x Hx. destruct (ext_new _ _ _ _ _ X Hx) as [H|H]; [left; eauto | right; exact H].
Qed.

Lemma destroy_inv w i : TInv w -> TInv (mk_tworld (brk w) (tupd (tcx w) i None)).
Proof.
  intros [TC TD]. constructor; cbn [brk tcx].
  - intros k c Hk. destruct (Nat.eq_dec k i) as [->|Hne].
    + rewrite tupd_same in Hk. discriminate.
    + rewrite tupd_other in Hk by auto. eauto.
  - intros k j ck cj a Hkj Hk Hj.
    destruct (Nat.eq_dec k i) as [->|Hki]; [rewrite tupd_same in Hk; discriminate|].
    destruct (Nat.eq_dec j i) as [->|Hji]; [rewrite tupd_same in Hj; discriminate|].
    rewrite tupd_other in Hk by auto. rewrite tupd_other in Hj by auto. eauto.
Qed.

Lemma tinv0 : TInv tw0.
Proof. constructor; cbn; intros; discriminate. Qed.

Lemma tstep_inv' ncore w o : match o with TNew _ _ => 0 < ncore | _ => True end ->
  TInv w -> TInv (fst (tstep ncore w o)).
Proof.
  intros Hn T. destruct o as [i hs|i nm p|i s|i s v|i l nt ns|i|i s|i s]; cbn [tstep];
    destruct (tcx w i) as [c|] eqn:EC; try exact T.
  - destruct (new_ctx ncore (brk w) hs) as [c b] eqn:E. cbn [fst].
    destruct (new_ctx_facts _ _ _ _ _ E) as (_ & L & N & _).
    apply upd_inv; auto. eapply new_ctx_inv; eauto.
  - destruct (reg_type (brk w) c nm p) as [[c' b] id] eqn:E. cbn [fst].
    eapply upd_good; eauto. eapply reg_type_inv; eauto. eapply ti_ctx; eauto.
  - destruct (intern (brk w) c s) as [[c' b] r] eqn:E. cbn [fst].
    eapply upd_good; eauto. eapply intern_inv; eauto. eapply ti_ctx; eauto.
  - destruct (define (brk w) c s v) as [c' b] eqn:E. cbn [fst].
    eapply upd_good; eauto. eapply define_inv; eauto. eapply ti_ctx; eauto.
  - destruct (load (brk w) c l nt ns) as [c' b] eqn:E. cbn [fst].
    eapply upd_good; eauto. eapply load_inv; eauto. eapply ti_ctx; eauto.
  - cbn [fst]. apply destroy_inv; auto.
Qed.

Lemma tstep_inv ncore w o : 0 < ncore -> TInv w -> TInv (fst (tstep ncore w o)).
Proof. intros Hn T. apply tstep_inv'; auto. destruct o; auto. Qed.

Lemma trun_inv ncore pi : 0 < ncore -> forall w, TInv w -> TInv (trun ncore pi w).
Proof.
  intros Hn. induction pi as [|o r IH]; intros w T; cbn [trun]; [exact T|].
  apply IH. apply tstep_inv; auto.
Qed.

Theorem tables_invariant : forall ncore pi, 0 < ncore -> TInv (trun ncore pi tw0).
Proof. intros. apply trun_inv; auto. apply tinv0. Qed.

(** ---------------------------------------------------------------- locality *)

Theorem op_is_local : forall ncore w o j, j <> who o -> tcx (fst (tstep ncore w o)) j = tcx w j.
Proof.
  intros ncore w o j Hj.
  destruct o as [i hs|i nm p|i s|i s v|i l nt ns|i|i s|i s]; cbn [who] in Hj; cbn [tstep];
    destruct (tcx w i) as [c|] eqn:EC; try reflexivity.
  - destruct (new_ctx ncore (brk w) hs) as [c b]. cbn [fst tcx]. apply tupd_other; auto.
  - destruct (reg_type (brk w) c nm p) as [[c' b] id]. cbn [fst tcx]. apply tupd_other; auto.
  - destruct (intern (brk w) c s) as [[c' b] r]. cbn [fst tcx]. apply tupd_other; auto.
  - destruct (define (brk w) c s v) as [c' b]. cbn [fst tcx]. apply tupd_other; auto.
  - destruct (load (brk w) c l nt ns) as [c' b]. cbn [fst tcx]. apply tupd_other; auto.
  - cbn [fst tcx]. apply tupd_other; auto.
Qed.

Definition parent_in (n : nat) (p : option nat) : option nat :=
  match p with Some q => if q <? n then Some q else None | None => None end.

Lemma reg_type_shape b c nm p :
  exists t, types (fst (fst (reg_type b c nm p))) = types c ++ [t] /\ ty_name t = nm /\
    ty_parent t = parent_in (length (types c)) p /\
    snd (reg_type b c nm p) = length (types c) /\
    tcap (fst (fst (reg_type b c nm p))) = (if tcap c <=? length (types c) then 2 * tcap c else tcap c) /\
    syms (fst (fst (reg_type b c nm p))) = syms c /\
    env (fst (fst (reg_type b c nm p))) = env c /\
    mods (fst (fst (reg_type b c nm p))) = mods c.
Proof.
  unfold reg_type. cbv zeta.
  destruct (halloc b (theap c) sz_str) as [[na h1] b1]. cbv beta iota.
  assert (PP : match match p with Some p0 => nth_error (types c) p0 | None => None end with
               | Some _ => p | None => None end = parent_in (length (types c)) p).
  { unfold parent_in. destruct p as [q|]; [|reflexivity].
    destruct (nth_error (types c) q) eqn:EN; destruct (Nat.ltb_spec q (length (types c))) as [L|L]; try reflexivity.
    - apply nth_error_None in L. congruence.
    - apply nth_error_None in EN. lia. }
  destruct (tcap c <=? length (types c)).
  - destruct (halloc b1 h1 (sz_vec (2 * tcap c))) as [[a h] bb]. cbv beta iota.
    destruct (halloc bb h sz_type) as [[ta h3] b3]. cbv beta iota.
    match goal with |- context [halloc b3 h3 ?n] => destruct (halloc b3 h3 n) as [[cv h4] b4] end.
    cbv beta iota. cbn [fst snd]. fields. eexists. split; [reflexivity|]. fields.
    split; [reflexivity|]. split; [exact PP|]. repeat split; reflexivity.
  - cbv beta iota.
    destruct (halloc b1 h1 sz_type) as [[ta h3] b3]. cbv beta iota.
    match goal with |- context [halloc b3 h3 ?n] => destruct (halloc b3 h3 n) as [[cv h4] b4] end.
    cbv beta iota. cbn [fst snd]. fields. eexists. split; [reflexivity|]. fields.
    split; [reflexivity|]. split; [exact PP|]. repeat split; reflexivity.
Qed.

Theorem register_type_local : forall ncore w i nm p c, tcx w i = Some c ->
  let w' := fst (tstep ncore w (TReg i nm p)) in
  snd (tstep ncore w (TReg i nm p)) = XId (length (types c)) /\
  (forall j, j <> i -> tcx w' j = tcx w j) /\
  exists c', tcx w' i = Some c' /\ length (types c') = S (length (types c)) /\
    (exists t, nth_error (types c') (length (types c)) = Some t /\ ty_name t = nm) /\
    (forall n, n < length (types c) -> nth_error (types c') n = nth_error (types c) n).
Proof.
  intros ncore w i nm p c Hc w'. subst w'. cbn [tstep]. rewrite Hc.
  destruct (reg_type_shape (brk w) c nm p) as (t & A & B & _ & D & _).
  destruct (reg_type (brk w) c nm p) as [[c' b] id] eqn:E. cbn [fst snd] in *. cbn [tcx].
  split; [f_equal; exact D|].
  split; [intros j Hj; apply tupd_other; auto|].
  exists c'. split; [apply tupd_same|].
  split; [rewrite A, app_length; cbn [length]; lia|].
  split.
  - exists t. split; [|exact B]. rewrite A, nth_error_app2, Nat.sub_diag by lia. reflexivity.
  - intros n Hn. rewrite A. apply nth_error_app1; auto.
Qed.

Lemma new_local ncore w i hs : tcx w i = None ->
  exists c, tcx (fst (tstep ncore w (TNew i hs))) i = Some c /\ length (types c) = ncore.
Proof.
  intros H. cbn [tstep]. rewrite H. destruct (new_ctx ncore (brk w) hs) as [c b] eqn:E.
  cbn [fst tcx]. exists c. split; [apply tupd_same|].
  destruct (new_ctx_facts _ _ _ _ _ E) as (_&_&_&_&_&_&_&L&_). exact L.
Qed.

Theorem same_type_different_ids : forall ncore, 0 < ncore ->
  exists pi i j nm ci cj ni nj ti tj, i <> j /\
    tcx (trun ncore pi tw0) i = Some ci /\ tcx (trun ncore pi tw0) j = Some cj /\
    nth_error (types ci) ni = Some ti /\ nth_error (types cj) nj = Some tj /\
    ty_name ti = nm /\ ty_name tj = nm /\ ni <> nj.
Proof.
  intros ncore _.
  pose (w1 := fst (tstep ncore tw0 (TNew 1 40))).
  pose (w2 := fst (tstep ncore w1 (TNew 2 40))).
  pose (w3 := fst (tstep ncore w2 (TReg 2 7 None))).
  pose (w4 := fst (tstep ncore w3 (TReg 1 5 None))).
  pose (w5 := fst (tstep ncore w4 (TReg 2 5 None))).
  destruct (new_local ncore tw0 1 40 eq_refl) as (c1 & H11 & L1). fold w1 in H11.
  assert (H12 : tcx w1 2 = None) by (unfold w1; rewrite op_is_local by (cbn; lia); reflexivity).
  destruct (new_local ncore w1 2 40 H12) as (c2 & H22 & L2). fold w2 in H22.
  assert (H21 : tcx w2 1 = Some c1) by (unfold w2; rewrite op_is_local by (cbn; lia); exact H11).
  destruct (register_type_local ncore w2 2 7 None c2 H22) as (_ & O3 & c2' & H32 & L3 & _ & _).
  fold w3 in O3, H32.
  assert (H31 : tcx w3 1 = Some c1) by (rewrite O3 by lia; exact H21).
  destruct (register_type_local ncore w3 1 5 None c1 H31) as (_ & O4 & c1' & H41 & L4 & (t1 & N1 & M1) & _).
  fold w4 in O4, H41.
  assert (H42 : tcx w4 2 = Some c2') by (rewrite O4 by lia; exact H32).
  destruct (register_type_local ncore w4 2 5 None c2' H42) as (_ & O5 & c2'' & H52 & L5 & (t2 & N2 & M2) & _).
  fold w5 in O5, H52.
  assert (H51 : tcx w5 1 = Some c1') by (rewrite O5 by lia; exact H41).
  exists [TNew 1 40; TNew 2 40; TReg 2 7 None; TReg 1 5 None; TReg 2 5 None], 1, 2, 5, c1', c2'',
         (length (types c1)), (length (types c2')), t1, t2.
  change (trun ncore [TNew 1 40; TNew 2 40; TReg 2 7 None; TReg 1 5 None; TReg 2 5 None] tw0) with w5.
  repeat split; auto. lia.
Qed.

(** ---------------------------------------------------------------- interning *)

Theorem intern_local : forall ncore w i s c, TInv w -> tcx w i = Some c ->
  let w' := fst (tstep ncore w (TIntern i s)) in
  (forall j, j <> i -> tcx w' j = tcx w j) /\
  exists c' y, tcx w' i = Some c' /\ find_sym s (syms c') = Some y /\ sy_bucket y = bucket_of s /\
    owns c' (sy_addr y) /\
    (forall j cj, j <> i -> tcx w' j = Some cj -> ~ owns cj (sy_addr y)) /\
    snd (tstep ncore w (TIntern i s)) =
      XSym (bucket_of s) (match find_sym s (syms c) with Some _ => false | None => true end) /\
    (forall y0, find_sym s (syms c) = Some y0 ->
       w' = mk_tworld (brk w) (tupd (tcx w) i (Some c)) /\ c' = c /\ y = y0).
Proof.
  intros ncore w i s c T Hc w'.
  assert (T' : TInv w') by (apply tstep_inv'; [exact I | exact T]).
  split; [intros j Hj; apply (op_is_local ncore w (TIntern i s) j Hj)|].
  pose proof (ti_ctx _ T _ _ Hc) as I.
  subst w'. revert T'. cbn [tstep]. rewrite Hc. unfold intern.
  destruct (find_sym s (syms c)) as [y0|] eqn:F.
  - cbv beta iota. cbn [fst snd tcx]. intros T'. exists c, y0. rewrite tupd_same.
    destruct (find_sym_some _ _ _ F) as [Hin Hname].
    split; [reflexivity|]. split; [exact F|].
    split; [rewrite (ci_bucket _ _ I y0 Hin), Hname; reflexivity|].
    assert (Oy : owns c (sy_addr y0)).
    { destruct (cinv_ptrs_ok _ _ I) as (_&_&_&_&Py&_). apply (Py y0 Hin). }
    split; [exact Oy|]. split.
    { intros j cj Hj Hcj. eapply (ti_disj _ T' i j); [auto | cbn [tcx]; apply tupd_same | exact Hcj | exact Oy]. }
    split; [reflexivity|]. intros y1 Hy1; inversion Hy1; subst. repeat split; reflexivity.
  - destruct (halloc (brk w) (theap c) (S (length s / 8))) as [[sa h1] b1] eqn:E1. cbv beta iota.
    destruct (halloc b1 h1 sz_pair) as [[ca h2] b2] eqn:E2. cbv beta iota. cbn [fst snd tcx].
    apply halloc_ext in E1; [| lia | exact (ci_below _ _ I)]. destruct E1 as [X1 O1].
    apply halloc_ext in E2; [| unfold sz_pair; lia | exact (ext_below _ _ _ _ X1)]. destruct E2 as [X2 O2].
    intros T'. eexists. exists (mk_symb s (bucket_of s) sa ca). rewrite tupd_same.
    split; [reflexivity|]. fields.
    split; [unfold find_sym; cbn [find sy_name]; rewrite name_eqb_refl; reflexivity|].
    split; [reflexivity|].
    assert (Oy : inregs sa (regs h2) = true) by (eapply ext_owns; [exact X2 | exact O1]).
    split; [exact Oy|]. split.
    { intros j cj Hj Hcj. eapply (ti_disj _ T' i j); [auto | cbn [tcx]; apply tupd_same | exact Hcj | exact Oy]. }
    split; [reflexivity|]. intros y0 Hy0; discriminate.
Qed.

(** ---------------------------------------------------------------- destroying *)

Theorem destroy_leaves_others_intact_tables : forall ncore w j cj, TInv w -> tcx w j = Some cj ->
  let w' := fst (tstep ncore w (TDestroy j)) in
  tcx w' j = None /\ (forall i, i <> j -> tcx w' i = tcx w i) /\ TInv w' /\
  (forall i ci a, i <> j -> tcx w i = Some ci -> In a (ptrs ci) -> owns ci a /\ ~ owns cj a).
Proof.
  intros ncore w j cj T Hj w'. subst w'. cbn [tstep]. rewrite Hj. cbn [fst tcx].
  split; [apply tupd_same|]. split; [intros i Hi; apply tupd_other; auto|].
  split; [apply destroy_inv; auto|].
  intros i ci a Hi Hci Ha.
  assert (O : owns ci a) by (exact (ci_ptrs _ _ (ti_ctx _ T _ _ Hci) a Ha)).
  split; [exact O|]. exact (ti_disj _ T i j ci cj a Hi Hci Hj O).
Qed.

(** ---------------------------------------------------------------- noninterference
    every operation acts on the address-free projection of its context as a FUNCTION of that projection alone *)

Definition pj := (list (nat * option nat) * nat * list (name * nat) * list (name * nat) * list nat)%type.

Definition has_name {A : Type} (s : name) (l : list (name * A)) : bool :=
  existsb (fun y => name_eqb s (fst y)) l.

Definition reg_pj (P : pj) (nm : nat) (p : option nat) : pj :=
  let '(ts, cap, sy, en, mo) := P in
  (ts ++ [(nm, parent_in (length ts) p)], (if cap <=? length ts then 2 * cap else cap), sy, en, mo).

Definition intern_pj (P : pj) (s : name) : pj :=
  let '(ts, cap, sy, en, mo) := P in
  if has_name s sy then P else (ts, cap, (s, bucket_of s) :: sy, en, mo).

Definition define_pj (P : pj) (s : name) (v : nat) : pj :=
  let '(ts, cap, sy, en, mo) := intern_pj P s in
  if has_name s en then (ts, cap, sy, map (fun x => if name_eqb s (fst x) then (fst x, v) else x) en, mo)
  else (ts, cap, sy, (s, v) :: en, mo).

Fixpoint intern_many_pj (P : pj) (l k : nat) : pj :=
  match k with 0 => P | S k' => intern_pj (intern_many_pj P l k') (lib_sym l k') end.

Fixpoint reg_many_pj (P : pj) (l k : nat) : pj :=
  match k with 0 => P | S k' => reg_pj (reg_many_pj P l k') (lib_ty l k') None end.

Definition load_pj (P : pj) (l nt ns : nat) : pj :=
  let '(ts, cap, sy, en, mo) := P in
  if existsb (fun x => Nat.eqb x l) mo then P
  else reg_many_pj (intern_many_pj (ts, cap, sy, en, l :: mo) l ns) l nt.

Definition new_pj (ncore : nat) : pj := (map (fun k => (k, @None nat)) (seq 0 ncore), 2 * ncore, [], [], []).

Definition lookup_pj (s : name) (en : list (name * nat)) : option nat :=
  match find (fun y => name_eqb s (fst y)) en with Some y => Some (snd y) | None => None end.

Definition step_pj (ncore : nat) (o : top) (P : option pj) : option pj :=
  match o with
  | TNew _ _ => match P with Some _ => P | None => Some (new_pj ncore) end
  | TReg _ nm p => match P with Some Q => Some (reg_pj Q nm p) | None => None end
  | TIntern _ s => match P with Some Q => Some (intern_pj Q s) | None => None end
  | TDefine _ s v => match P with Some Q => Some (define_pj Q s v) | None => None end
  | TLoad _ l nt ns => match P with Some Q => Some (load_pj Q l nt ns) | None => None end
  | TDestroy _ => None
  | TLookup _ _ => P
  | TFind _ _ => P
  end.

Definition res_pj (o : top) (P : option pj) : tres :=
  match P with
  | None => match o with TNew _ _ => XOk | _ => XFail end
  | Some (ts, cap, sy, en, mo) =>
      match o with
      | TNew _ _ => XFail
      | TReg _ _ _ => XId (length ts)
      | TIntern _ s => XSym (bucket_of s) (negb (has_name s sy))
      | TDefine _ _ _ => XOk
      | TLoad _ _ _ _ => XOk
      | TDestroy _ => XOk
      | TLookup _ s => XVal (lookup_pj s en)
      | TFind _ s => XFound (has_name s sy)
      end
  end.

Lemma reg_type_pj b c nm p : proj (fst (fst (reg_type b c nm p))) = reg_pj (proj c) nm p.
Proof.
  destruct (reg_type_shape b c nm p) as (t & A & B & C & _ & D & E & F & G).
  unfold proj. rewrite A, D, E, F, G. unfold reg_pj. rewrite map_app, map_length. cbn [map].
  rewrite B, C. reflexivity.
Qed.

Lemma find_sym_has s l :
  match find_sym s l with Some _ => true | None => false end =
  has_name s (map (fun s => (sy_name s, sy_bucket s)) l).
Proof.
  unfold find_sym, has_name. induction l as [|a l IH]; cbn [find map existsb fst]; [reflexivity|].
  destruct (name_eqb s (sy_name a)); cbn [orb]; auto.
Qed.

Lemma find_bind_has s l :
  match find_bind s l with Some _ => true | None => false end =
  has_name s (map (fun x => (b_name x, b_val x)) l).
Proof.
  unfold find_bind, has_name. induction l as [|a l IH]; cbn [find map existsb fst]; [reflexivity|].
  destruct (name_eqb s (b_name a)); cbn [orb]; auto.
Qed.

Lemma find_bind_lookup s l :
  match find_bind s l with Some x => Some (b_val x) | None => None end =
  lookup_pj s (map (fun x => (b_name x, b_val x)) l).
Proof.
  unfold find_bind, lookup_pj. induction l as [|a l IH]; cbn [find map fst]; [reflexivity|].
  destruct (name_eqb s (b_name a)); cbn [snd]; auto.
Qed.

Lemma intern_pj_ok b c s :
  proj (fst (fst (intern b c s))) = intern_pj (proj c) s /\
  snd (snd (intern b c s)) = negb (has_name s (map (fun s => (sy_name s, sy_bucket s)) (syms c))).
Proof.
  unfold intern. pose proof (find_sym_has s (syms c)) as H. destruct (find_sym s (syms c)).
  - cbn [fst snd]. unfold intern_pj, proj. rewrite <- H. split; reflexivity.
  - destruct (halloc b (theap c) (S (length s / 8))) as [[sa h1] b1]. cbv beta iota.
    destruct (halloc b1 h1 sz_pair) as [[ca h2] b2]. cbv beta iota. cbn [fst snd].
    unfold intern_pj, proj. fields. rewrite <- H. split; reflexivity.
Qed.

Lemma define_pj_ok b c s v : proj (fst (define b c s v)) = define_pj (proj c) s v.
Proof.
  unfold define. pose proof (intern_pj_ok b c s) as [H _].
  destruct (intern b c s) as [[c1 b1] r]. cbn [fst] in H. unfold define_pj. rewrite <- H.
  pose proof (find_bind_has s (env c1)) as HB. destruct (find_bind s (env c1)).
  - cbn [fst]. unfold proj. fields. rewrite <- HB. rewrite !map_map. do 2 f_equal.
    apply map_ext. intros x. cbn [fst]. destruct (name_eqb s (b_name x)); reflexivity.
  - destruct (halloc b1 (theap c1) sz_pair) as [[ca h] b2]. cbn [fst]. unfold proj. fields.
    rewrite <- HB. reflexivity.
Qed.

Lemma intern_many_pj_ok l k : forall b c, proj (fst (intern_many b c l k)) = intern_many_pj (proj c) l k.
Proof.
  induction k as [|k IH]; intros b c; cbn [intern_many intern_many_pj]; [reflexivity|].
  specialize (IH b c). destruct (intern_many b c l k) as [c1 b1]. cbn [fst] in IH. rewrite <- IH.
  pose proof (intern_pj_ok b1 c1 (lib_sym l k)) as [H _].
  destruct (intern b1 c1 (lib_sym l k)) as [[c2 b2] r]. cbn [fst] in *. exact H.
Qed.

Lemma reg_many_pj_ok l k : forall b c, proj (fst (reg_many b c l k)) = reg_many_pj (proj c) l k.
Proof.
  induction k as [|k IH]; intros b c; cbn [reg_many reg_many_pj]; [reflexivity|].
  specialize (IH b c). destruct (reg_many b c l k) as [c1 b1]. cbn [fst] in IH. rewrite <- IH.
  pose proof (reg_type_pj b1 c1 (lib_ty l k) None) as H.
  destruct (reg_type b1 c1 (lib_ty l k) None) as [[c2 b2] r]. cbn [fst] in *. exact H.
Qed.

Lemma has_mod_pj l c : has_mod l c = existsb (fun x => Nat.eqb x l) (map fst (mods c)).
Proof.
  unfold has_mod. induction (mods c) as [|m ms IH]; cbn [existsb map]; [reflexivity|]. rewrite IH. reflexivity.
Qed.

Lemma load_pj_ok b c l nt ns : proj (fst (load b c l nt ns)) = load_pj (proj c) l nt ns.
Proof.
  unfold load, load_pj. pose proof (has_mod_pj l c) as H. unfold proj at 2. rewrite <- H.
  destruct (has_mod l c); [reflexivity|].
  destruct (halloc b (theap c) sz_pair) as [[ma h] b1]. cbv beta iota zeta.
  match goal with |- context [intern_many b1 ?cc l ns] => set (c1 := cc) end.
  pose proof (intern_many_pj_ok l ns b1 c1) as H1.
  destruct (intern_many b1 c1 l ns) as [c2 b2]. cbn [fst] in H1.
  rewrite reg_many_pj_ok, H1. reflexivity.
Qed.

Lemma tstep_pj ncore w o :
  option_map proj (tcx (fst (tstep ncore w o)) (who o)) = step_pj ncore o (option_map proj (tcx w (who o))) /\
  snd (tstep ncore w o) = res_pj o (option_map proj (tcx w (who o))).
Proof.
  destruct o as [i hs|i nm p|i s|i s v|i l nt ns|i|i s|i s]; cbn [who tstep step_pj];
    destruct (tcx w i) as [c|] eqn:EC; cbn [fst snd option_map]; try rewrite EC; cbn [option_map];
    try (split; reflexivity).
  - destruct (new_ctx ncore (brk w) hs) as [c b] eqn:E. cbn [fst snd tcx]. rewrite tupd_same. cbn [option_map].
    destruct (new_ctx_facts _ _ _ _ _ E) as (_&_&_&_&_&_&Cap&_&_&M&Sy&En&Mo).
    split; [|reflexivity]. unfold proj, new_pj. rewrite M, Cap, Sy, En, Mo. reflexivity.
  - pose proof (reg_type_pj (brk w) c nm p) as H.
    destruct (reg_type_shape (brk w) c nm p) as (_ & _ & _ & _ & D & _).
    destruct (reg_type (brk w) c nm p) as [[c' b] id]. cbn [fst snd tcx] in *. rewrite tupd_same.
    cbn [option_map]. rewrite H, D. unfold res_pj, proj. rewrite map_length. split; reflexivity.
  - pose proof (intern_pj_ok (brk w) c s) as [H R].
    destruct (intern (brk w) c s) as [[c' b] r]. cbn [fst snd tcx] in *. rewrite tupd_same.
    cbn [option_map]. rewrite H, R. split; reflexivity.
  - pose proof (define_pj_ok (brk w) c s v) as H.
    destruct (define (brk w) c s v) as [c' b]. cbn [fst snd tcx] in *. rewrite tupd_same.
    cbn [option_map]. rewrite H. split; reflexivity.
  - pose proof (load_pj_ok (brk w) c l nt ns) as H.
    destruct (load (brk w) c l nt ns) as [c' b]. cbn [fst snd tcx] in *. rewrite tupd_same.
    cbn [option_map]. rewrite H. split; reflexivity.
  - cbn [tcx]. rewrite tupd_same. split; reflexivity.
  - split; [reflexivity|]. unfold res_pj, proj. rewrite find_bind_lookup. reflexivity.
  - split; [reflexivity|]. unfold res_pj, proj. rewrite find_sym_has. reflexivity.
Qed.

Lemma own_ops_cons i o r :
  own_ops i (o :: r) = if Nat.eqb (who o) i then o :: own_ops i r else own_ops i r.
Proof. reflexivity. Qed.

Lemma nonint_gen ncore i pi : forall w1 w2,
  option_map proj (tcx w1 i) = option_map proj (tcx w2 i) ->
  option_map proj (tcx (trun ncore pi w1) i) = option_map proj (tcx (trun ncore (own_ops i pi) w2) i).
Proof.
  induction pi as [|o r IH]; intros w1 w2 H; [exact H|].
  rewrite own_ops_cons. cbn [trun]. destruct (Nat.eqb_spec (who o) i) as [E|E].
  - cbn [trun]. apply IH. subst i.
    rewrite (proj1 (tstep_pj ncore w1 o)), (proj1 (tstep_pj ncore w2 o)), H. reflexivity.
  - apply IH. rewrite op_is_local by auto. exact H.
Qed.

Theorem tables_noninterference : forall ncore pi i,
  option_map proj (tcx (trun ncore pi tw0) i) = option_map proj (tcx (trun ncore (own_ops i pi) tw0) i).
Proof. intros. apply nonint_gen. reflexivity. Qed.

(** the results context i sees *)
Fixpoint tresults (ncore i : nat) (pi : list top) (w : tworld) : list tres :=
  match pi with
  | [] => []
  | o :: r => (if Nat.eqb (who o) i then [snd (tstep ncore w o)] else [])
                ++ tresults ncore i r (fst (tstep ncore w o))
  end.

Lemma results_gen ncore i pi : forall w1 w2,
  option_map proj (tcx w1 i) = option_map proj (tcx w2 i) ->
  tresults ncore i pi w1 = tresults ncore i (own_ops i pi) w2.
Proof.
  induction pi as [|o r IH]; intros w1 w2 H; [reflexivity|].
  rewrite own_ops_cons. cbn [tresults]. destruct (Nat.eqb_spec (who o) i) as [E|E].
  - cbn [tresults]. rewrite (proj2 (Nat.eqb_eq _ _) E). subst i.
    rewrite (proj2 (tstep_pj ncore w1 o)), (proj2 (tstep_pj ncore w2 o)), H. f_equal.
    apply IH. rewrite (proj1 (tstep_pj ncore w1 o)), (proj1 (tstep_pj ncore w2 o)), H. reflexivity.
  - cbn [app]. apply IH. rewrite op_is_local by auto. exact H.
Qed.

Theorem results_noninterference : forall ncore pi i,
  tresults ncore i pi tw0 = tresults ncore i (own_ops i pi) tw0.
Proof. intros. apply results_gen. reflexivity. Qed.

(** ---------------------------------------------------------------- the executable checks mean the invariant *)

Lemma ctx_closed_iff c : ctx_closed c = true <-> (forall a, In a (ptrs c) -> owns c a).
Proof. unfold ctx_closed, owns_b, owns. rewrite forallb_forall. tauto. Qed.

Lemma ctxs_disjoint_sound c1 c2 a : ctxs_disjoint c1 c2 = true -> owns c1 a -> ~ owns c2 a.
Proof.
  unfold ctxs_disjoint, owns. rewrite forallb_forall. intros H O1 O2.
  apply inregs_iff in O1. destruct O1 as (r1 & Hr1 & A1).
  apply inregs_iff in O2. destruct O2 as (r2 & Hr2 & A2).
  specialize (H r1 Hr1). rewrite forallb_forall in H. specialize (H r2 Hr2).
  unfold regions_disjoint in H. apply orb_true_iff in H. rewrite !Nat.leb_le in H. lia.
Qed.

(** ---------------------------------------------------------------- non-vacuity *)

Module TabExample.

Definition nA : name := [49%N; 50%N].
Definition nB : name := [51%N].
Definition nC : name := [52%N].

Definition hist : list top :=
  [ TNew 1 40; TNew 2 30; TNew 3 20;
    TLoad 1 0 2 3; TLoad 2 0 2 3; TLoad 1 0 2 3;
    TReg 1 5 (Some 0); TReg 2 7 None; TReg 2 5 (Some 5); TReg 1 9 (Some 5); TReg 1 10 (Some 77);
    TIntern 1 nA; TIntern 3 nB; TIntern 2 nA; TIntern 1 nA;
    TDefine 1 nA 7; TDefine 2 nC 8; TDefine 1 nA 9;
    TDestroy 2;
    TReg 3 5 (Some 1); TIntern 3 nA; TDefine 3 nA 1; TLoad 3 1 2 3;
    TNew 2 25; TIntern 2 nA; TReg 2 5 None; TLookup 1 nA; TFind 3 nB; TFind 2 nB; TIntern 4 nA ].

Definition live (w : tworld) : list tctx :=
  flat_map (fun i => match tcx w i with Some c => [c] | None => [] end) (seq 0 6).

Fixpoint pairwise {A : Type} (f : A -> A -> bool) (l : list A) : bool :=
  match l with [] => true | x :: r => forallb (f x) r && pairwise f r end.

Definition world_ok (w : tworld) : bool :=
  forallb ctx_closed (live w) && pairwise ctxs_disjoint (live w).

Fixpoint worlds (ncore : nat) (pi : list top) (w : tworld) : list tworld :=
  w :: match pi with [] => [] | o :: r => worlds ncore r (fst (tstep ncore w o)) end.

Definition wf : tworld := trun 3 hist tw0.

(** every live context closed, every pair disjoint, after every prefix of the history *)
Example all_prefixes_ok : forallb world_ok (worlds 3 hist tw0) = true.
Proof. vm_compute. reflexivity. Qed.

Example three_live_at_the_end : length (live wf) = 3.
Proof. vm_compute. reflexivity. Qed.

Example three_live_before_destroy : length (live (trun 3 (firstn 18 hist) tw0)) = 3.
Proof. vm_compute. reflexivity. Qed.

Fixpoint type_id (nm : nat) (ts : list tyobj) (k : nat) : option nat :=
  match ts with [] => None | t :: r => if Nat.eqb (ty_name t) nm then Some k else type_id nm r (S k) end.

(** the same C type (key 5) has three different ids in the three contexts *)
Example type_5_ids :
  map (fun i => option_map (fun c => type_id 5 (types c) 0) (tcx wf i)) [1; 2; 3]
  = [Some (Some 5); Some (Some 3); Some (Some 3)]
  /\ map (fun i => option_map (fun c => type_id 5 (types c) 0) (tcx (trun 3 (firstn 18 hist) tw0) i)) [1; 2; 3]
  = [Some (Some 5); Some (Some 6); Some None].
Proof. vm_compute. split; reflexivity. Qed.

(** parents: given id in the same table, dangling parent id dropped *)
Example parents_1 :
  option_map (fun c => map (fun t => (ty_name t, ty_parent t)) (skipn 5 (types c))) (tcx wf 1)
  = Some [(5, Some 0); (9, Some 5); (10, None)].
Proof. vm_compute. reflexivity. Qed.

Definition sym_addr (s : name) (w : tworld) (i : nat) : option (nat * addr) :=
  match tcx w i with
  | Some c => match find_sym s (syms c) with Some y => Some (sy_bucket y, sy_addr y) | None => None end
  | None => None
  end.

(** the same name: same bucket, three different symbol objects *)
Example name_A_objects :
  match sym_addr nA wf 1, sym_addr nA wf 2, sym_addr nA wf 3 with
  | Some (b1, a1), Some (b2, a2), Some (b3, a3) =>
      Nat.eqb b1 b2 && Nat.eqb b2 b3 && negb (Nat.eqb a1 a2) && negb (Nat.eqb a2 a3) && negb (Nat.eqb a1 a3)
  | _, _, _ => false
  end = true.
Proof. vm_compute. reflexivity. Qed.

(** what context 1 sees: second interning of nA is not fresh; the lookup sees the redefinition *)
Example results_1 :
  map (fun x => match x with XSym _ f => Some (if f then 1 else 0) | XVal (Some v) => Some (10 + v)
                           | XId n => Some (100 + n) | _ => None end)
      (tresults 3 1 hist tw0)
  = [None; None; None; Some 105; Some 106; Some 107; Some 1; Some 0; None; None; Some 19].
Proof. vm_compute. reflexivity. Qed.

(** instances of the theorems on this history *)
Example hist_invariant : TInv wf.
Proof. apply tables_invariant. lia. Qed.

Example hist_noninterference :
  map (fun i => option_map proj (tcx wf i)) [1; 2; 3]
  = map (fun i => option_map proj (tcx (trun 3 (own_ops i hist) tw0) i)) [1; 2; 3].
Proof. cbn [map]. unfold wf. rewrite !(tables_noninterference 3 hist). reflexivity. Qed.

End TabExample.

Print Assumptions tables_invariant.
Print Assumptions op_is_local.
Print Assumptions register_type_local.
Print Assumptions same_type_different_ids.
Print Assumptions intern_local.
Print Assumptions destroy_leaves_others_intact_tables.
Print Assumptions tables_noninterference.
Print Assumptions results_noninterference.
Print Assumptions TabExample.all_prefixes_ok.
