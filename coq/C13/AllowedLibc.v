(** C13 round 4 — the REVIEWED allow-lists for (1) imports of C-library functions that are not thread-safe or touch a
    process attribute and (2) non-atomic file creation sites of the Scheme libraries.  The regenerated inventories
    (Gen/C13_Imports.v) must be covered ([LibcInventory.imports_all_classified], [creation_sites_atomic_or_reviewed]);
    a new import of a listed function (ctime instead of ctime_r, getpwuid instead of getpwuid_r, lgamma instead of lgamma_r,
    rand instead of rand_r ...), a new caller of an allowed one, or a new creation site makes the obligation fail. *)
From Coq Require Import String List.
From ChibiV Require Import C13.Libc.
Import ListNotations.
Local Open Scope string_scope.

Definition core := "libchibi-scheme.so".

Definition import_allow : list iallow := [
  mk_iallow core "dlerror" ["sexp_load_op"] SafeHere
    "eval.c:1491 (sexp_load_dl failure message): glibc keeps the dlerror record per thread (MT-Safe); the string is copied into the context at once";
  mk_iallow core "exit" ["sexp_warn"] DocumentedAttr
    "eval.c:55: strict mode turns a warning into exit(1): terminating the process is what the embedder asked for with SEXP_G_STRICT_P";
  mk_iallow core "getenv" ["sexp_init_eval_context_globals"] ReadOnlyAttr
    "eval.c:512-515: CHIBI_MODULE_PATH / CHIBI_IGNORE_SYSTEM_PATH are read once while a context is set up; the value is copied into the context's heap";
  mk_iallow core "strerror" ["sexp_load_image"] SafeHere
    "gc_heap.c (heap image load failure message; documented outside the claim as ErrScratch): glibc >= 2.32 returns constant strings / a thread-local buffer";
  mk_iallow "lib/chibi/ast.so" "setenv" ["sexp_setenv"] DocumentedAttr
    "(chibi ast) setenv: changing the process environment is the meaning of the procedure; the environment is a process attribute outside the claim";
  mk_iallow "lib/chibi/ast.so" "unsetenv" ["sexp_unsetenv"] DocumentedAttr
    "(chibi ast) unsetenv: as setenv";
  mk_iallow "lib/chibi/ast.so" "strerror" ["sexp_error_string"] SafeHere
    "(chibi ast) integer->error-string, ast.c:600: the result is copied at once by sexp_c_string; glibc >= 2.32 uses constant strings for known numbers and a THREAD-LOCAL buffer for unknown ones; sampled by the libc-errno-math-env workload with unknown numbers that differ per context";
  mk_iallow "lib/chibi/filesystem.so" "chdir" ["sexp_change_directory_stub"] DocumentedAttr
    "(chibi filesystem) change-directory: the working directory is a process attribute (assumption recorded in the evidence)";
  mk_iallow "lib/chibi/filesystem.so" "readdir" ["sexp_readdir_stub"] PerObject
    "filesystem.stub:162: the dirent lives in the DIR stream, which is a C-pointer object in the heap of the context that called opendir; no stream is reachable from two contexts (heap audit)";
  mk_iallow "lib/chibi/process.so" "exit" ["sexp_25_exit_stub"] DocumentedAttr
    "(chibi process) %exit: process termination by definition";
  mk_iallow "lib/chibi/process.so" "sleep" ["sexp_sleep_stub"] SafeHere
    "the sig:SIGCHLD/linux annotation is about the historical SIGALRM/SIGCHLD implementation; Linux glibc sleeps with clock_nanosleep and touches no disposition";
  mk_iallow "lib/chibi/pty.so" "login_tty" ["sexp_login_tty_stub"] PerObject
    "(chibi pty): called in the forked child that is about to exec (one thread); race:ttyname concerns a parent that calls ttyname concurrently, which chibi never imports";
  mk_iallow "lib/chibi/system.so" "chroot" ["sexp_set_root_directory_x_stub"] DocumentedAttr
    "(chibi system) set-root-directory!: root directory of the process by definition";
  mk_iallow "lib/srfi/98/env.so" "environ" ["sexp_get_environment_variables"] ReadOnlyAttr
    "srfi/98/env.c: get-environment-variables copies the array into the calling context's heap; read-only";
  mk_iallow "lib/srfi/98/env.so" "getenv" ["sexp_get_environment_variable"] ReadOnlyAttr
    "srfi/98/env.c:18: the string is copied into the calling context's heap at once; read-only (races only with (chibi ast) setenv, a DocumentedAttr)"
].

Definition site_allow : list sallow := [
  mk_sallow "lib/chibi/log.sld" "define open-output-file/append" "open-flags"
    "log file named by the application, opened O_APPEND on purpose (shared log)";
  mk_sallow "lib/chibi/shell.scm" "define out>" "open-flags" "shell redirection to a file the caller names: create-or-truncate is its meaning";
  mk_sallow "lib/chibi/shell.scm" "define out>>" "open-flags" "shell redirection (append) to a file the caller names";
  mk_sallow "lib/chibi/shell.scm" "define err>" "open-flags" "shell redirection to a file the caller names";
  mk_sallow "lib/chibi/shell.scm" "define err>>" "open-flags" "shell redirection (append) to a file the caller names";
  mk_sallow "lib/chibi/snow/commands.scm" "define command/gen-key" "open-flags" "snow gen-key: key file path from the configuration, mode 600";
  mk_sallow "lib/chibi/snow/fort.scm" "define call-with-locked-file" "open-flags" "lock file: opened create-if-missing and then flock'ed (the lock, not the creation, is the exclusion)";
  mk_sallow "lib/chibi/tar.scm" "define tar-extract" "open-flags" "extraction to the member's path: overwrite is the meaning";
  mk_sallow "lib/chibi/snow/commands.scm" "define update-repository" "call-with-output-file"
    "snow command-line tool (one context per process): repo-<hash>.scm.tmp.<second>-<pid> written and renamed; not a library entry point of an embedded context";
  mk_sallow "lib/chibi/snow/commands.scm" "define update-repository" "create-directory*"
    "snow command-line tool: the repository cache directory (a fixed configured path, mkdir -p on purpose), not the generated name";
  mk_sallow "lib/chibi/snow/commands.scm" "define test-package" "create-directory*"
    "snow command-line tool: directories below the per-run temp dir";
  mk_sallow "lib/chibi/snow/commands.scm" "define test-package" "call-with-output-file"
    "snow command-line tool: tmp-data-<pid> under a directory created for this run by call-with-temp-dir (atomic)"
].
