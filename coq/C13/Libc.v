(** C13 round 4 — state that independent contexts share OUTSIDE chibi's own objects:

    (1) inside the C library: functions that keep their result or their working state in static storage (ctime,
        localtime, getpwuid, strtok, lgamma's signgam, rand ...) are shared by all OS threads of the process; the
        writable-statics inventory (Gen/C13_Statics.v) cannot see that state, but it can see the CALLS: the undefined
        dynamic symbols of every shared object of the build (Gen/C13_Imports.v [imports], regenerated).
    (2) in the file system: names derived from process id + clock are the same in every context of a process, so a file
        created under such a name must be created atomically (Gen/C13_Imports.v [sites], regenerated from lib/**/*.scm, *.sld).

    This file is data and executable checks only (no proofs).

    SOURCE of [mt_unsafe]: the "ATTRIBUTES" sections of the Linux man-pages / the glibc manual (attributes(7)): every
    entry marked [Glibc] is annotated there as "MT-Unsafe" with the quoted keywords (race:<static object>, const:env,
    const:locale, sig:...).  [Posix] = listed in POSIX.1-2017 XSH 2.9.1 as "need not be thread-safe" while glibc >= 2.32
    happens to implement it thread-safely (the hazard text says how).  [Hidden] = MT-Safe as far as memory safety goes, but
    ONE hidden state per process whose value is observable (random number generators): contexts would see each other's draws.
    [Attr] = a process attribute by definition (working directory, root directory, environment array). *)
From Coq Require Import String List Bool.
Import ListNotations.
Local Open Scope string_scope.

Inductive source := Glibc | Posix | Hidden | Attr.

(** what kind of sharing a call introduces *)
Inductive hazard :=
| StaticResult   (* result / scratch in static storage inside libc: concurrent callers read each other's data *)
| HiddenState    (* one process-wide hidden state that successive calls advance or consult *)
| ProcessAttr.   (* reads or writes an attribute of the whole process (environment, locale, cwd, root, termination) *)

Record unsafe := mk_unsafe { u_name : string; u_src : source; u_hazard : hazard; u_note : string }.

Definition mt_unsafe : list unsafe := [
  (* ---- time ---- *)
  mk_unsafe "asctime" Glibc StaticResult "MT-Unsafe race:asctime locale";
  mk_unsafe "ctime" Glibc StaticResult "MT-Unsafe race:tmbuf race:asctime env locale";
  mk_unsafe "gmtime" Glibc StaticResult "MT-Unsafe race:tmbuf env locale";
  mk_unsafe "localtime" Glibc StaticResult "MT-Unsafe race:tmbuf env locale";
  mk_unsafe "getdate" Glibc StaticResult "MT-Unsafe race:getdate env locale";
  (* ---- strings ---- *)
  mk_unsafe "strtok" Glibc HiddenState "MT-Unsafe race:strtok";
  mk_unsafe "strerror" Posix StaticResult "glibc < 2.32: MT-Unsafe race:strerror (static buffer for unknown numbers); >= 2.32 MT-Safe (constant strings, thread-local buffer)";
  mk_unsafe "strsignal" Glibc StaticResult "MT-Unsafe race:strsignal locale";
  mk_unsafe "ecvt" Glibc StaticResult "MT-Unsafe race:ecvt";
  mk_unsafe "fcvt" Glibc StaticResult "MT-Unsafe race:fcvt";
  mk_unsafe "qecvt" Glibc StaticResult "MT-Unsafe race:qecvt";
  mk_unsafe "qfcvt" Glibc StaticResult "MT-Unsafe race:qfcvt";
  mk_unsafe "l64a" Glibc StaticResult "MT-Unsafe race:l64a";
  mk_unsafe "basename" Posix StaticResult "POSIX: may return static storage / modify the argument; glibc MT-Safe";
  mk_unsafe "dirname" Posix StaticResult "POSIX: may return static storage / modify the argument; glibc MT-Safe";
  mk_unsafe "mblen" Glibc HiddenState "MT-Unsafe race";
  mk_unsafe "mbtowc" Glibc HiddenState "MT-Unsafe race";
  mk_unsafe "wctomb" Glibc HiddenState "MT-Unsafe race";
  (* ---- user / group database ---- *)
  mk_unsafe "getpwnam" Glibc StaticResult "MT-Unsafe race:pwnam locale";
  mk_unsafe "getpwuid" Glibc StaticResult "MT-Unsafe race:pwuid locale";
  mk_unsafe "getpwent" Glibc StaticResult "MT-Unsafe race:pwent race:pwentbuf locale";
  mk_unsafe "setpwent" Glibc HiddenState "MT-Unsafe race:pwent locale";
  mk_unsafe "endpwent" Glibc HiddenState "MT-Unsafe race:pwent locale";
  mk_unsafe "getgrnam" Glibc StaticResult "MT-Unsafe race:grnam locale";
  mk_unsafe "getgrgid" Glibc StaticResult "MT-Unsafe race:grgid locale";
  mk_unsafe "getgrent" Glibc StaticResult "MT-Unsafe race:grent race:grentbuf locale";
  mk_unsafe "setgrent" Glibc HiddenState "MT-Unsafe race:grent locale";
  mk_unsafe "endgrent" Glibc HiddenState "MT-Unsafe race:grent locale";
  mk_unsafe "getlogin" Glibc StaticResult "MT-Unsafe race:getlogin race:utent sig:ALRM timer locale";
  mk_unsafe "cuserid" Glibc StaticResult "MT-Unsafe race:cuserid/!string locale";
  mk_unsafe "getpass" Glibc StaticResult "MT-Unsafe term";
  mk_unsafe "getutent" Glibc StaticResult "MT-Unsafe init race:utent race:utentbuf sig:ALRM timer";
  mk_unsafe "getutid" Glibc StaticResult "MT-Unsafe init race:utent sig:ALRM timer";
  mk_unsafe "getutline" Glibc StaticResult "MT-Unsafe init race:utent sig:ALRM timer";
  mk_unsafe "pututline" Glibc HiddenState "MT-Unsafe race:utent sig:ALRM timer";
  mk_unsafe "setutent" Glibc HiddenState "MT-Unsafe race:utent";
  mk_unsafe "endutent" Glibc HiddenState "MT-Unsafe race:utent";
  mk_unsafe "getutxent" Glibc StaticResult "MT-Unsafe init race:utent race:utentbuf sig:ALRM timer";
  mk_unsafe "crypt" Glibc StaticResult "MT-Unsafe race:crypt";
  mk_unsafe "encrypt" Glibc HiddenState "MT-Unsafe race:crypt";
  mk_unsafe "setkey" Glibc HiddenState "MT-Unsafe race:crypt";
  (* ---- network database ---- *)
  mk_unsafe "gethostbyname" Glibc StaticResult "MT-Unsafe race:hostbyname env locale";
  mk_unsafe "gethostbyname2" Glibc StaticResult "MT-Unsafe race:hostbyname2 env locale";
  mk_unsafe "gethostbyaddr" Glibc StaticResult "MT-Unsafe race:hostbyaddr env locale";
  mk_unsafe "gethostent" Glibc StaticResult "MT-Unsafe race:hostent race:hostentbuf env locale";
  mk_unsafe "getservbyname" Glibc StaticResult "MT-Unsafe race:servbyname locale";
  mk_unsafe "getservbyport" Glibc StaticResult "MT-Unsafe race:servbyport locale";
  mk_unsafe "getservent" Glibc StaticResult "MT-Unsafe race:servent race:serventbuf locale";
  mk_unsafe "getprotobyname" Glibc StaticResult "MT-Unsafe race:protobyname locale";
  mk_unsafe "getprotobynumber" Glibc StaticResult "MT-Unsafe race:protobynumber locale";
  mk_unsafe "getprotoent" Glibc StaticResult "MT-Unsafe race:protoent race:protoentbuf locale";
  mk_unsafe "getnetbyname" Glibc StaticResult "MT-Unsafe race:netbyname env locale";
  mk_unsafe "getnetbyaddr" Glibc StaticResult "MT-Unsafe race:netbyaddr locale";
  mk_unsafe "getnetent" Glibc StaticResult "MT-Unsafe race:netent race:netentbuf env locale";
  mk_unsafe "inet_ntoa" Posix StaticResult "POSIX: static buffer; glibc MT-Safe locale (thread-local buffer)";
  mk_unsafe "ether_ntoa" Glibc StaticResult "MT-Unsafe";
  mk_unsafe "ether_aton" Glibc StaticResult "MT-Unsafe";
  (* ---- directories, terminals, temporary names ---- *)
  mk_unsafe "readdir" Glibc StaticResult "MT-Unsafe race:dirstream (the result lives in the DIR: unsafe only when two threads use the SAME stream)";
  mk_unsafe "getmntent" Glibc StaticResult "MT-Unsafe race:mntentbuf locale";
  mk_unsafe "ttyname" Glibc StaticResult "MT-Unsafe race:ttyname";
  mk_unsafe "ptsname" Glibc StaticResult "MT-Unsafe race:ptsname";
  mk_unsafe "login_tty" Glibc StaticResult "MT-Unsafe race:ttyname";
  mk_unsafe "ctermid" Posix StaticResult "POSIX: static buffer when called with NULL; glibc MT-Safe";
  mk_unsafe "tmpnam" Glibc StaticResult "MT-Unsafe race:tmpnam/!s";
  mk_unsafe "tempnam" Posix HiddenState "name is not reserved: check-then-act on the shared name space";
  mk_unsafe "mktemp" Posix HiddenState "name is not reserved: check-then-act on the shared name space";
  mk_unsafe "fcloseall" Glibc HiddenState "MT-Unsafe race:streams";
  (* ---- random numbers ---- *)
  mk_unsafe "rand" Hidden HiddenState "MT-Safe in glibc, one generator per process (POSIX: need not be thread-safe)";
  mk_unsafe "srand" Hidden HiddenState "reseeds the generator of the whole process";
  mk_unsafe "random" Hidden HiddenState "MT-Safe in glibc, one generator per process";
  mk_unsafe "srandom" Hidden HiddenState "reseeds the generator of the whole process";
  mk_unsafe "initstate" Hidden HiddenState "MT-Safe in glibc, replaces the process-wide state";
  mk_unsafe "setstate" Hidden HiddenState "MT-Safe in glibc, replaces the process-wide state";
  mk_unsafe "drand48" Glibc HiddenState "MT-Unsafe race:drand48";
  mk_unsafe "erand48" Glibc HiddenState "MT-Unsafe race:drand48";
  mk_unsafe "lrand48" Glibc HiddenState "MT-Unsafe race:drand48";
  mk_unsafe "nrand48" Glibc HiddenState "MT-Unsafe race:drand48";
  mk_unsafe "mrand48" Glibc HiddenState "MT-Unsafe race:drand48";
  mk_unsafe "jrand48" Glibc HiddenState "MT-Unsafe race:drand48";
  mk_unsafe "srand48" Glibc HiddenState "MT-Unsafe race:drand48";
  mk_unsafe "seed48" Glibc HiddenState "MT-Unsafe race:drand48";
  mk_unsafe "lcong48" Glibc HiddenState "MT-Unsafe race:drand48";
  (* ---- math ---- *)
  mk_unsafe "lgamma" Glibc StaticResult "MT-Unsafe race:signgam (the sign goes to the global signgam)";
  mk_unsafe "lgammaf" Glibc StaticResult "MT-Unsafe race:signgam";
  mk_unsafe "lgammal" Glibc StaticResult "MT-Unsafe race:signgam";
  mk_unsafe "gamma" Glibc StaticResult "MT-Unsafe race:signgam";
  mk_unsafe "signgam" Glibc StaticResult "the global variable itself";
  (* ---- hash table / option parser of libc ---- *)
  mk_unsafe "hcreate" Glibc HiddenState "MT-Unsafe race:hsearch";
  mk_unsafe "hsearch" Glibc HiddenState "MT-Unsafe race:hsearch";
  mk_unsafe "hdestroy" Glibc HiddenState "MT-Unsafe race:hsearch";
  mk_unsafe "getopt" Glibc HiddenState "MT-Unsafe race:getopt env";
  mk_unsafe "getopt_long" Glibc HiddenState "MT-Unsafe race:getopt env";
  (* ---- unlocked stdio ---- *)
  mk_unsafe "getc_unlocked" Glibc HiddenState "MT-Safe race:stream (unsafe on a stream two threads share)";
  mk_unsafe "putc_unlocked" Glibc HiddenState "MT-Safe race:stream";
  mk_unsafe "getchar_unlocked" Glibc HiddenState "MT-Unsafe race:stdin";
  mk_unsafe "putchar_unlocked" Glibc HiddenState "MT-Unsafe race:stdout";
  mk_unsafe "fputs_unlocked" Glibc HiddenState "MT-Safe race:stream";
  mk_unsafe "fwrite_unlocked" Glibc HiddenState "MT-Safe race:stream";
  mk_unsafe "fread_unlocked" Glibc HiddenState "MT-Safe race:stream";
  (* ---- process attributes ---- *)
  mk_unsafe "setenv" Glibc ProcessAttr "MT-Unsafe const:env";
  mk_unsafe "unsetenv" Glibc ProcessAttr "MT-Unsafe const:env";
  mk_unsafe "putenv" Glibc ProcessAttr "MT-Unsafe const:env";
  mk_unsafe "clearenv" Glibc ProcessAttr "MT-Unsafe const:env";
  mk_unsafe "getenv" Posix ProcessAttr "MT-Safe env: safe unless some thread modifies the environment (setenv / putenv)";
  mk_unsafe "secure_getenv" Posix ProcessAttr "MT-Safe env";
  mk_unsafe "environ" Attr ProcessAttr "the environment array itself (const:env)";
  mk_unsafe "setlocale" Glibc ProcessAttr "MT-Unsafe const:locale env";
  mk_unsafe "localeconv" Glibc StaticResult "MT-Unsafe race:localeconv locale";
  mk_unsafe "nl_langinfo" Posix StaticResult "POSIX: static storage; glibc MT-Safe locale";
  mk_unsafe "dlerror" Posix StaticResult "POSIX: need not be thread-safe; glibc MT-Safe (per-thread error record)";
  mk_unsafe "system" Posix ProcessAttr "POSIX 2.9.1 list (signal dispositions while the child runs)";
  mk_unsafe "exit" Glibc ProcessAttr "MT-Unsafe race:exit (terminates the whole process, runs atexit handlers once)";
  mk_unsafe "sleep" Glibc ProcessAttr "MT-Unsafe sig:SIGCHLD/linux";
  mk_unsafe "siginterrupt" Glibc ProcessAttr "MT-Unsafe const:sigintr";
  mk_unsafe "chdir" Attr ProcessAttr "working directory of the whole process";
  mk_unsafe "fchdir" Attr ProcessAttr "working directory of the whole process";
  mk_unsafe "chroot" Attr ProcessAttr "root directory of the whole process";
  mk_unsafe "umask" Attr ProcessAttr "file mode creation mask of the whole process"
].

Definition lmem (x : string) (l : list string) : bool := existsb (String.eqb x) l.
Definition lincl (a b : list string) : bool := forallb (fun x => lmem x b) a.

Fixpoint find_unsafe (tb : list unsafe) (n : string) : option unsafe :=
  match tb with
  | [] => None
  | u :: r => if String.eqb (u_name u) n then Some u else find_unsafe r n
  end.

(** one undefined dynamic symbol of one shared object, with the functions that reference it (collected by the scan only
    for names of [mt_unsafe]; an unsafe name without a collected caller is rejected below) *)
Record import := mk_import { i_lib : string; i_sym : string; i_callers : list string }.

(** why a reviewed import of an unsafe function cannot make two independent contexts interfere *)
Inductive excuse :=
| PerObject      (* the static storage belongs to an object one context owns (readdir: the DIR stream) *)
| SafeHere       (* the supported C library implements it without shared mutable state (stated per entry) *)
| ReadOnlyAttr   (* only READS a process attribute that chibi never writes from library code reachable by default *)
| DocumentedAttr (* reads/writes a process attribute by the very meaning of the Scheme procedure (setenv, chdir, exit):
                    documented in the evidence as outside the isolation claim *)
.

Record iallow := mk_iallow {
  ia_lib : string; ia_sym : string; ia_callers : list string; ia_excuse : excuse; ia_why : string }.

Fixpoint find_iallow (al : list iallow) (lib sym : string) : option iallow :=
  match al with
  | [] => None
  | a :: r => if String.eqb (ia_lib a) lib && String.eqb (ia_sym a) sym then Some a else find_iallow r lib sym
  end.

(** an excuse must fit the hazard: storage inside libc can never be excused as "documented process attribute" *)
Definition excuse_fits (h : hazard) (e : excuse) : bool :=
  match h, e with
  | StaticResult, (PerObject | SafeHere) => true
  | HiddenState, (PerObject | SafeHere) => true
  | ProcessAttr, (SafeHere | ReadOnlyAttr | DocumentedAttr) => true
  | _, _ => false
  end.

Definition check_import (tb : list unsafe) (al : list iallow) (i : import) : bool :=
  match find_unsafe tb (i_sym i) with
  | None => true
  | Some u =>
      match find_iallow al (i_lib i) (i_sym i) with
      | None => false
      | Some a => match i_callers i with [] => false | _ => true end &&
                  lincl (i_callers i) (ia_callers a) && excuse_fits (u_hazard u) (ia_excuse a)
      end
  end.

(** ------------------------------------------------------------------ creation sites of the Scheme libraries *)

Record site := mk_site {
  st_file : string;        (* lib/... *)
  st_form : string;        (* "define name" of the top-level form *)
  st_kind : string;        (* "open-flags" (an expression listing open/create) or the name of a non-atomic creator *)
  st_flags : list string;  (* the open/... constants of that expression *)
  st_generated : bool      (* the form derives a name from current-process-id / the clock / a random number *)
}.

Record sallow := mk_sallow { sa_file : string; sa_form : string; sa_kind : string; sa_why : string }.

Definition site_allowed (al : list sallow) (s : site) : bool :=
  existsb (fun a => String.eqb (sa_file a) (st_file s) && String.eqb (sa_form a) (st_form s) && String.eqb (sa_kind a) (st_kind s)) al.

Definition atomic_flags (s : site) : bool := lmem "open/exclusive" (st_flags s).

(** - a flags expression with open/create beside open/exclusive is atomic: fine anywhere;
    - open/create WITHOUT open/exclusive under a generated name is never acceptable (no allow-list entry can excuse it);
    - open/create without open/exclusive under a caller-supplied name, and non-atomic creators (call-with-output-file ...)
      in a name-generating form, need a reviewed entry. *)
Definition check_site (al : list sallow) (s : site) : bool :=
  if String.eqb (st_kind s) "open-flags" then
    atomic_flags s || (negb (st_generated s) && site_allowed al s)
  else site_allowed al s.
