(** C13 round 4 — proofs about the shared-name-space model C13/Ns.v. *)
From Coq Require Import List Arith Bool Lia.
From ChibiV Require Import C13.Ns.
Import ListNotations.

Lemma exists_in_In : forall l i, exists_in l i = true <-> In i l.
Proof.
  intros l i. unfold exists_in. rewrite existsb_exists. split.
  - intros [x [Hx E]]. apply Nat.eqb_eq in E. subst. exact Hx.
  - intros H. exists i. split; [exact H | apply Nat.eqb_refl].
Qed.

Lemma exists_in_false : forall l i, exists_in l i = false -> ~ In i l.
Proof. intros l i H C. apply exists_in_In in C. rewrite C in H. discriminate. Qed.

Lemma remove_name_In : forall l i j, In j (remove_name l i) <-> In j l /\ j <> i.
Proof.
  intros l i j. unfold remove_name. rewrite filter_In. split; intros [H1 H2]; split; try exact H1.
  - intro E. subst. rewrite Nat.eqb_refl in H2. discriminate.
  - apply negb_true_iff. apply Nat.eqb_neq. exact H2.
Qed.

Lemma set_ph_same : forall f c p, set_ph f c p c = p.
Proof. intros. unfold set_ph. rewrite Nat.eqb_refl. reflexivity. Qed.

Lemma set_ph_other : forall f c p x, x <> c -> set_ph f c p x = f x.
Proof. intros f c p x H. unfold set_ph. apply Nat.eqb_neq in H. rewrite H. reflexivity. Qed.

(** the invariant: a file a context believes it owns exists, and no two contexts believe they own the same file *)
Definition Inv (w : world) : Prop :=
  (forall c i, ph w c = Holding i -> In i (fs w)) /\
  (forall c c' i, ph w c = Holding i -> ph w c' = Holding i -> c = c').

Lemma Inv_w0 : Inv w0.
Proof. split; intros; simpl in *; discriminate. Qed.

(** a step of c that leaves the name space alone and does not make c a holder keeps the invariant *)
Lemma Inv_frame : forall w c p, Inv w -> (forall i, p <> Holding i) -> Inv (mk_world (fs w) (set_ph (ph w) c p)).
Proof.
  intros w c p [Ha Hb] Hp. split; simpl.
  - intros c0 i H. destruct (Nat.eq_dec c0 c) as [->|N].
    + rewrite set_ph_same in H. exfalso. exact (Hp i H).
    + rewrite set_ph_other in H by exact N. exact (Ha c0 i H).
  - intros c0 c1 i H0 H1.
    destruct (Nat.eq_dec c0 c) as [->|N0]; [rewrite set_ph_same in H0; exfalso; exact (Hp i H0)|].
    destruct (Nat.eq_dec c1 c) as [->|N1]; [rewrite set_ph_same in H1; exfalso; exact (Hp i H1)|].
    rewrite set_ph_other in H0, H1 by assumption. exact (Hb c0 c1 i H0 H1).
Qed.

Lemma step_Inv : forall rt w c, Inv w -> Inv (step Exclusive rt w c).
Proof.
  intros rt w c HI. unfold step. destruct (ph w c) as [ |i|i|i|i| | ] eqn:P.
  - apply Inv_frame; [exact HI | intros; discriminate].
  - destruct (exists_in (fs w) i); apply Inv_frame; try exact HI; intros; discriminate.
  - destruct (exists_in (fs w) i) eqn:E.
    + apply Inv_frame; [exact HI | destruct rt; intros; discriminate].
    + destruct HI as [Ha Hb]. pose proof (exists_in_false _ _ E) as Nin. split; simpl.
      * intros c0 j H. destruct (Nat.eq_dec c0 c) as [->|N].
        -- rewrite set_ph_same in H. inversion H. left. reflexivity.
        -- rewrite set_ph_other in H by exact N. right. exact (Ha c0 j H).
      * intros c0 c1 j H0 H1.
        destruct (Nat.eq_dec c0 c) as [->|N0]; destruct (Nat.eq_dec c1 c) as [->|N1]; try reflexivity.
        -- rewrite set_ph_same in H0. inversion H0; subst. rewrite set_ph_other in H1 by exact N1.
           exfalso. exact (Nin (Ha c1 j H1)).
        -- rewrite set_ph_same in H1. inversion H1; subst. rewrite set_ph_other in H0 by exact N0.
           exfalso. exact (Nin (Ha c0 j H0)).
        -- rewrite set_ph_other in H0, H1 by assumption. exact (Hb c0 c1 j H0 H1).
  - destruct (exists_in (fs w) i); apply Inv_frame; try exact HI; intros; discriminate.
  - destruct HI as [Ha Hb]. split; simpl.
    + intros c0 j H. destruct (Nat.eq_dec c0 c) as [->|N]; [rewrite set_ph_same in H; discriminate|].
      rewrite set_ph_other in H by exact N. apply remove_name_In. split; [exact (Ha c0 j H)|].
      intro Ej. subst j. apply N. exact (Hb c0 c i H P).
    + intros c0 c1 j H0 H1.
      destruct (Nat.eq_dec c0 c) as [->|N0]; [rewrite set_ph_same in H0; discriminate|].
      destruct (Nat.eq_dec c1 c) as [->|N1]; [rewrite set_ph_same in H1; discriminate|].
      rewrite set_ph_other in H0, H1 by assumption. exact (Hb c0 c1 j H0 H1).
  - exact HI.
  - exact HI.
Qed.

Lemma run_Inv : forall rt pi w, Inv w -> Inv (run Exclusive rt pi w).
Proof. intros rt pi. induction pi as [|c r IH]; intros w H; simpl; [exact H | apply IH, step_Inv, H]. Qed.

(** MAIN: with atomic creation, for ANY number of contexts using the same template in the same second and ANY interleaving of
    their system calls, no two contexts ever hold the same temporary file, and a held file exists -- with the pinned retry
    logic and with the repaired one *)
Theorem exclusive_creation_unique_owner : forall rt pi c c' i,
  holds (run Exclusive rt pi w0) c i -> holds (run Exclusive rt pi w0) c' i -> c = c'.
Proof. intros rt pi c c' i H H'. exact (proj2 (run_Inv rt pi w0 Inv_w0) c c' i H H'). Qed.

Theorem held_file_exists : forall rt pi c i, holds (run Exclusive rt pi w0) c i -> In i (fs (run Exclusive rt pi w0)).
Proof. intros rt pi c i H. exact (proj1 (run_Inv rt pi w0 Inv_w0) c i H). Qed.

(** the repaired retry logic never raises, whatever the other contexts do *)
Definition calm (w : world) : Prop := forall c, ph w c <> Raised /\ (forall i, ph w c <> Recheck i).

Lemma step_calm : forall cr w c, calm w -> calm (step cr Fixed w c).
Proof.
  intros cr w c H c0. unfold step.
  destruct (ph w c) as [ |i|i|i|i| | ] eqn:P; try exact (H c0);
    try (destruct (H c) as [H1 H2]; exfalso; first [exact (H2 i P) | exact (H1 P)]).
  all: repeat match goal with |- context [if ?b then _ else _] => destruct b end; try destruct cr; simpl;
    (destruct (Nat.eq_dec c0 c) as [->|N];
     [rewrite set_ph_same; split; [discriminate | intros; discriminate]
     | rewrite set_ph_other by exact N; exact (H c0)]).
Qed.

Theorem repaired_never_raises : forall cr pi c, ph (run cr Fixed pi w0) c <> Raised.
Proof.
  intros cr pi. assert (G : forall w, calm w -> calm (run cr Fixed pi w)).
  { induction pi as [|c r IH]; intros w H; simpl; [exact H | apply IH, step_calm, H]. }
  intro c. apply (G w0). intro c0. split; simpl; [discriminate | intros; discriminate].
Qed.

(** REFUTED variants (witnesses by computation) *)
(* the seeded change: open/truncate instead of open/exclusive -- both contexts pass file-exists? before either opens *)
Example truncate_shares_a_file :
  let w := run Truncate Fixed [0; 1; 0; 1; 0; 1] w0 in ph w 0 = Holding 0 /\ ph w 1 = Holding 0.
Proof. vm_compute. split; reflexivity. Qed.

(* the pinned retry logic: context 1 loses the creation race, the winner finishes and deletes, the recheck says "gone" *)
Example pinned_retry_raises_refuted :
  ph (run Exclusive Orig [0; 1; 0; 1; 0; 1; 0; 1] w0) 1 = Raised.
Proof. vm_compute. reflexivity. Qed.

(* non-vacuity: three contexts, same candidates, all end up holding DIFFERENT files *)
Example three_contexts_three_files :
  let w := run Exclusive Fixed [0; 1; 2; 0; 1; 2; 0; 1; 2; 1; 2; 1; 2; 2; 2] w0 in
  (ph w 0, ph w 1, ph w 2) = (Holding 0, Holding 1, Holding 2).
Proof. vm_compute. reflexivity. Qed.
