(** C13 — the generated obligation: the inventory of THIS build (Gen/C13_Statics.v, regenerated from the
    scratch build's shared objects on every run) is covered by the reviewed allow-list, and the isolation
    theorems instantiated with the classification of this build. *)
From Coq Require Import String List ZArith Bool.
From ChibiV Require Import C13.Defs C13.Allowed C13.Model C13.Proofs Gen.C13_Statics.
Import ListNotations.
Local Open Scope string_scope.

Lemma allow_list_wf : forallb allow_wf allow_list = true.
Proof. vm_compute. reflexivity. Qed.

(** every writable object of the build is on the allow-list, is written only by the functions its entry
    names, and its address escapes only through the functions its entry names *)
Lemma statics_all_classified :
  forallb (fun s => allowed allow_list s && writers_ok allow_list s) table = true.
Proof. vm_compute. reflexivity. Qed.

(** ... in Prop form, for each static of the build *)
Lemma build_statics_reviewed : forall s, In s table ->
  exists a, lookup allow_list s = Some a /\
            incl (s_writers s) (a_writers a) /\ incl (s_addr s) (a_addr a) /\
            (a_class a = Immutable -> s_writers s = []).
Proof. apply (check_sound allow_list table). exact statics_all_classified. Qed.

(** the only functions of the build that store to a static the isolation claim relies on are the two
    one-time initialisers; everything else that is written is outside the claim (process-wide signal table,
    error-message scratch buffer, C runtime bookkeeping) *)
Definition relied_on (c : class) : bool := match c with Immutable | InitOnce => true | _ => false end.

Lemma relied_on_statics_written_only_by_init :
  forallb (fun s => match class_of allow_list s with
                    | Some c => negb (relied_on c) || incl_str (s_writers s) ["sexp_init"; "sexp_scheme_init"]
                    | None => false end) table = true.
Proof. vm_compute. reflexivity. Qed.

(** no thread-local or anonymous (symbol-less) writable data in the build *)
Lemma no_anonymous_or_tls_data :
  forallb (fun s => negb (String.prefix "<anon>" (s_name s)) && negb (String.eqb (s_sec s) ".tdata") && negb (String.eqb (s_sec s) ".tbss")) table = true.
Proof. vm_compute. reflexivity. Qed.


(** PER SHARED OBJECT (round 2): every compiled library of the build (Gen [libs], regenerated) either holds no
    process-wide state of its own — nothing but the C runtime's startup objects ("static-free") — or every object
    it holds is on the reviewed allow-list with reviewed writers; and every static of the table belongs to a
    listed shared object. *)
Section PerLibrary.
  Variable al : list allow.
  Variable tb : list static.
  Definition lib_statics (l : string) : list static := filter (fun s => String.eqb (s_lib s) l) tb.
  Definition lib_static_free (l : string) : bool :=
    forallb (fun s => match class_of al s with Some Runtime => true | _ => false end) (lib_statics l).
  Definition lib_classified (l : string) : bool := forallb (check_static al) (lib_statics l).

  Lemma per_library_sound : forall ls, forallb (fun l => lib_static_free l || lib_classified l) ls = true ->
    forall l, In l ls ->
    (forall s, In s tb -> s_lib s = l -> class_of al s = Some Runtime) \/
    (forall s, In s tb -> s_lib s = l ->
       exists a, lookup al s = Some a /\ incl (s_writers s) (a_writers a) /\ incl (s_addr s) (a_addr a)).
  Proof.
    intros ls H l Hl.
    rewrite forallb_forall in H. specialize (H l Hl). apply orb_true_iff in H. destruct H as [H|H].
    - left. intros s Hs El. unfold lib_static_free in H. rewrite forallb_forall in H.
      assert (Hin : In s (lib_statics l)) by (apply filter_In; split; [exact Hs | subst; apply String.eqb_refl]).
      specialize (H s Hin). destruct (class_of al s) as [[]|]; try discriminate. reflexivity.
    - right. intros s Hs El. unfold lib_classified in H.
      assert (Hin : In s (lib_statics l)) by (apply filter_In; split; [exact Hs | subst; apply String.eqb_refl]).
      destruct (check_sound al (lib_statics l) H s Hin) as [a [H1 [H2 [H3 _]]]]. exists a. auto.
  Qed.
End PerLibrary.

Lemma every_library_static_free_or_classified :
  forallb (fun l => lib_static_free allow_list table l || lib_classified allow_list table l) libs = true.
Proof. vm_compute. reflexivity. Qed.

Lemma every_static_in_a_listed_library : forallb (fun s => mem_str (s_lib s) libs) table = true.
Proof. vm_compute. reflexivity. Qed.

Lemma library_static_free_or_classified : forall l, In l libs ->
  (forall s, In s table -> s_lib s = l -> class_of allow_list s = Some Runtime) \/
  (forall s, In s table -> s_lib s = l ->
     exists a, lookup allow_list s = Some a /\ incl (s_writers s) (a_writers a) /\ incl (s_addr s) (a_addr a)).
Proof. exact (per_library_sound allow_list table libs every_library_static_free_or_classified). Qed.

(** classification of static number x of this build *)
Definition cls_build (x : sid) : class :=
  match nth_error table x with
  | Some s => match class_of allow_list s with Some c => c | None => ProcessWide end
  | None => Runtime
  end.

Section Build.
  Variable Ctx : Type.
  Variable initv : sid -> Z.

  Theorem noninterference_build : forall (pi : list (step Ctx)) (w : world Ctx) i,
    Forall (respects Ctx cls_build initv) pi -> initialised Ctx cls_build initv w ->
    cx (run pi w) i = cx (run (steps_of i pi) w) i.
  Proof. exact (noninterference Ctx cls_build initv). Qed.
End Build.

(** non-vacuity: the build has statics of both relied-on classes *)
Example build_has_immutable_and_initonce :
  existsb (fun s => match class_of allow_list s with Some Immutable => true | _ => false end) table = true /\
  existsb (fun s => match class_of allow_list s with Some InitOnce => true | _ => false end) table = true.
Proof. split; vm_compute; reflexivity. Qed.
