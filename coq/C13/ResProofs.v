(** C13 (round 2) — proofs about the resource model C13/Res.v: over ANY sequence of context creations, file
    opens, imports, uses and destroys, every resource a live context holds is open and every library it
    imported is mapped; a destroy closes nothing but what the dying context owns. *)
From Coq Require Import List Bool Arith Lia.
From ChibiV Require Import C13.Res.
Import ListNotations.

Definition held (w : rworld) (i : nat) (r : rid) (b : bool) : Prop :=
  exists c, rcx w i = Some c /\ In (r, b) (holds c).

(** the invariant of the resource world *)
Record RInv (w : rworld) : Prop := mk_RInv {
  inv_alloc : forall i r b, held w i r b -> r < rnext w;
  inv_base : 3 <= rnext w;
  inv_host : forall r, r < 3 -> ropen w r = true;                         (* the host's stdin / stdout / stderr *)
  inv_priv : forall i r, held w i r true -> 3 <= r /\ forall j b, j <> i -> ~ held w j r b;   (* owned => private *)
  inv_open : forall i r b, held w i r b -> ropen w r = true;              (* held by a live context => open *)
  inv_std : forall i c r, rcx w i = Some c -> In r (std c) -> exists b, In (r, b) (holds c);
  inv_libs : forall i c l, rcx w i = Some c -> In l (libs c) -> In i (dlrefs w l)
}.

Lemma upd_same : forall A (f : nat -> A) x v, upd f x v x = v.
Proof. intros. unfold upd. rewrite Nat.eqb_refl. reflexivity. Qed.

Lemma upd_other : forall A (f : nat -> A) x v y, y <> x -> upd f x v y = f y.
Proof. intros A f x v y H. unfold upd. destruct (Nat.eqb y x) eqn:E; [apply Nat.eqb_eq in E; contradiction | reflexivity]. Qed.

Lemma mem_nat_In : forall x l, mem_nat x l = true <-> In x l.
Proof.
  intros x l. unfold mem_nat. rewrite existsb_exists. split.
  - intros [y [Hy E]]. apply Nat.eqb_eq in E. subst. exact Hy.
  - intros H. exists x. split; [exact H | apply Nat.eqb_refl].
Qed.

Lemma owned_of_In : forall c r, In r (owned_of c) <-> In (r, true) (holds c).
Proof.
  intros c r. unfold owned_of. rewrite in_map_iff. split.
  - intros [[r' b] [E H]]. cbn in E. subst r'. apply filter_In in H. destruct H as [H Hb]. cbn in Hb. subst b. exact H.
  - intros H. exists (r, true). split; [reflexivity | apply filter_In; split; [exact H | reflexivity]].
Qed.

Lemma rinv0 : RInv rw0.
Proof.
  constructor; cbn [rw0 rnext ropen dlrefs rcx].
  - intros i r b [c [H _]]. discriminate.
  - lia.
  - intros r H. apply Nat.ltb_lt. exact H.
  - intros i r [c [H _]]. discriminate.
  - intros i r b [c [H _]]. discriminate.
  - intros i c r H. discriminate.
  - intros i c l H. discriminate.
Qed.

Lemma held_upd_other : forall o n d f i v j r b, j <> i ->
  (held (mk_rworld o n d (upd f i v)) j r b <-> exists c, f j = Some c /\ In (r, b) (holds c)).
Proof. intros. unfold held. cbn [rcx]. rewrite upd_other by assumption. reflexivity. Qed.

Lemma held_upd_same : forall o n d f i c0 r b,
  (held (mk_rworld o n d (upd f i (Some c0))) i r b <-> In (r, b) (holds c0)).
Proof.
  intros. unfold held. cbn [rcx]. rewrite upd_same. split.
  - intros [c [E H]]. inversion E. subst. exact H.
  - intros H. exists c0. split; [reflexivity | exact H].
Qed.

(** context i gets the record c': what it held before plus host streams it does not own plus freshly
    allocated resources; everything else as it was.  Covers creation (three modes), open, import. *)
Lemma inv_extend : forall w i oldh c' o' n' d',
  RInv w ->
  (forall r b, In (r, b) oldh -> held w i r b) ->
  rnext w <= n' ->
  (forall r, r < rnext w -> o' r = ropen w r) ->
  (forall r b, In (r, b) (holds c') -> In (r, b) oldh \/ (r < 3 /\ b = false) \/ (rnext w <= r < n' /\ o' r = true)) ->
  (forall r, In r (std c') -> exists b, In (r, b) (holds c')) ->
  (forall l, In l (libs c') -> In i (d' l)) ->
  (forall j l, j <> i -> In j (dlrefs w l) -> In j (d' l)) ->
  RInv (mk_rworld o' n' d' (upd (rcx w) i (Some c'))).
Proof.
  intros w i oldh c' o' n' d' [Ia Ib Ih Ip Io Is Il] Hold Hn Hag Hc Hstd Hlib Hmono.
  assert (OTH : forall j r b, j <> i -> held (mk_rworld o' n' d' (upd (rcx w) i (Some c'))) j r b -> held w j r b).
  { intros j r b Hne H. apply held_upd_other in H; assumption. }
  constructor; cbn [rnext ropen dlrefs].
  - intros j r b H. destruct (Nat.eq_dec j i) as [->|Hne].
    + apply held_upd_same in H. destruct (Hc r b H) as [H1|[[H1 _]|[H1 _]]].
      * specialize (Ia i r b (Hold r b H1)). lia.
      * lia.
      * lia.
    + specialize (Ia j r b (OTH j r b Hne H)). lia.
  - lia.
  - intros r Hr. rewrite Hag by lia. apply Ih. exact Hr.
  - intros j r H. destruct (Nat.eq_dec j i) as [->|Hne].
    + apply held_upd_same in H. destruct (Hc r true H) as [H1|[[_ H1]|[H1 _]]].
      * destruct (Ip i r (Hold r true H1)) as [H3 Hx]. split; [exact H3|].
        intros j b Hj Hh. apply (Hx j b Hj). apply OTH; assumption.
      * discriminate.
      * split; [lia|]. intros j b Hj Hh. specialize (Ia j r b (OTH j r b Hj Hh)). lia.
    + pose proof (OTH j r true Hne H) as Hw. destruct (Ip j r Hw) as [H3 Hx]. split; [exact H3|].
      intros j' b' Hj' Hh. destruct (Nat.eq_dec j' i) as [->|Hne'].
      * apply held_upd_same in Hh. destruct (Hc r b' Hh) as [H1|[[H1 _]|[H1 _]]].
        -- apply (Hx i b' Hj'). apply Hold. exact H1.
        -- lia.
        -- specialize (Ia j r true Hw). lia.
      * apply (Hx j' b' Hj'). apply OTH; assumption.
  - intros j r b H. destruct (Nat.eq_dec j i) as [->|Hne].
    + apply held_upd_same in H. destruct (Hc r b H) as [H1|[[H1 _]|[_ H1]]].
      * pose proof (Hold r b H1) as Hw. rewrite Hag by (apply (Ia i r b Hw)). apply (Io i r b Hw).
      * rewrite Hag by lia. apply Ih. exact H1.
      * exact H1.
    + pose proof (OTH j r b Hne H) as Hw. rewrite Hag by (apply (Ia j r b Hw)). apply (Io j r b Hw).
  - intros j c r E. cbn [rcx] in E. destruct (Nat.eq_dec j i) as [->|Hne].
    + rewrite upd_same in E. inversion E. subst. apply Hstd.
    + rewrite upd_other in E by assumption. apply (Is j c r E).
  - intros j c l E Hl. cbn [rcx] in E. destruct (Nat.eq_dec j i) as [->|Hne].
    + rewrite upd_same in E. inversion E. subst. apply Hlib. exact Hl.
    + rewrite upd_other in E by assumption. apply Hmono; [exact Hne | apply (Il j c l E Hl)].
Qed.

(** sexp_destroy_context of context i *)
Lemma inv_destroy : forall w i c d',
  RInv w -> rcx w i = Some c ->
  (forall j l, j <> i -> In j (dlrefs w l) -> In j (d' l)) ->
  RInv (mk_rworld (close_all (ropen w) (owned_of c)) (rnext w) d' (upd (rcx w) i None)).
Proof.
  intros w i c d' [Ia Ib Ih Ip Io Is Il] Ei Hmono.
  assert (OTH : forall j r b, held (mk_rworld (close_all (ropen w) (owned_of c)) (rnext w) d' (upd (rcx w) i None)) j r b -> j <> i /\ held w j r b).
  { intros j r b H. destruct (Nat.eq_dec j i) as [->|Hne].
    - destruct H as [c0 [E _]]. cbn [rcx] in E. rewrite upd_same in E. discriminate.
    - split; [exact Hne|]. apply held_upd_other in H; assumption. }
  assert (KEEP : forall j r b, j <> i -> held w j r b -> close_all (ropen w) (owned_of c) r = ropen w r).
  { intros j r b Hne Hw. unfold close_all. destruct (mem_nat r (owned_of c)) eqn:M; [|reflexivity].
    apply mem_nat_In in M. apply owned_of_In in M.
    destruct (Ip i r (ex_intro _ c (conj Ei M))) as [_ Hx]. exfalso. apply (Hx j b Hne Hw). }
  constructor; cbn [rnext ropen dlrefs].
  - intros j r b H. destruct (OTH j r b H) as [_ Hw]. apply (Ia j r b Hw).
  - exact Ib.
  - intros r Hr. unfold close_all. destruct (mem_nat r (owned_of c)) eqn:M; [|apply Ih; exact Hr].
    apply mem_nat_In in M. apply owned_of_In in M. destruct (Ip i r (ex_intro _ c (conj Ei M))) as [H3 _]. lia.
  - intros j r H. destruct (OTH j r true H) as [Hne Hw]. destruct (Ip j r Hw) as [H3 Hx]. split; [exact H3|].
    intros j' b' Hj' Hh. destruct (OTH j' r b' Hh) as [_ Hw']. apply (Hx j' b' Hj' Hw').
  - intros j r b H. destruct (OTH j r b H) as [Hne Hw]. rewrite (KEEP j r b Hne Hw). apply (Io j r b Hw).
  - intros j c0 r E. cbn [rcx] in E. destruct (Nat.eq_dec j i) as [->|Hne].
    + rewrite upd_same in E. discriminate.
    + rewrite upd_other in E by assumption. apply (Is j c0 r E).
  - intros j c0 l E Hl. cbn [rcx] in E. destruct (Nat.eq_dec j i) as [->|Hne].
    + rewrite upd_same in E. discriminate.
    + rewrite upd_other in E by assumption. apply Hmono; [exact Hne | apply (Il j c0 l E Hl)].
Qed.

(** PRESERVATION: every operation keeps the invariant *)
Lemma rstep_inv : forall rel w o, RInv w -> RInv (fst (rstep rel w o)).
Proof.
  intros rel w o I.
  destruct o as [i m | i | i k | i l | i l | i]; cbn [rstep].
  - (* RNew *)
    destruct (rcx w i) eqn:Ei; [exact I|].
    destruct m; cbn [fst].
    + apply (inv_extend w i [] _ _ _ _ I); cbn [holds std libs]; try (intros; contradiction); try lia; auto.
    + apply (inv_extend w i [] _ _ _ _ I); cbn [holds std libs]; try (intros; contradiction); try lia; auto.
      * intros r b [H|[H|[H|[]]]]; inversion H; subst; right; left; split; (lia || reflexivity).
      * intros r [H|[H|[H|[]]]]; subst; exists false; cbn; auto.
    + apply (inv_extend w i [] _ _ _ _ I); cbn [holds std libs]; try (intros; contradiction); try lia; auto.
      * intros r Hr. rewrite !upd_other by lia. reflexivity.
      * intros r b [H|[H|[H|[]]]]; inversion H; subst; right; right; (split; [lia|]).
        -- rewrite !upd_other by lia. apply upd_same.
        -- rewrite upd_other by lia. apply upd_same.
        -- apply upd_same.
      * intros r [H|[H|[H|[]]]]; subst; exists true; cbn; auto.
  - (* ROpen *)
    destruct (rcx w i) as [c|] eqn:Ei; [|exact I]. cbn [fst].
    apply (inv_extend w i (holds c) _ _ _ _ I); cbn [holds std libs]; try lia; auto.
    + intros r b H. exists c. split; assumption.
    + intros r Hr. rewrite upd_other by lia. reflexivity.
    + intros r b [H|H]; [inversion H; subst; right; right; split; [lia | apply upd_same] | left; exact H].
    + intros r Hr. destruct (inv_std w I i c r Ei Hr) as [b Hb]. exists b. right. exact Hb.
    + intros l Hl. apply (inv_libs w I i c l Ei Hl).
  - (* RWrite *)
    destruct (rcx w i) as [c|]; [|exact I]. destruct (nth_error (std c) k); exact I.
  - (* RImport *)
    destruct (rcx w i) as [c|] eqn:Ei; [|exact I]. destruct (mem_nat l (libs c)) eqn:M; [exact I|]. cbn [fst].
    apply (inv_extend w i (holds c) _ _ _ _ I); cbn [holds std libs]; try lia; auto.
    + intros r b H. exists c. split; assumption.
    + intros r Hr. apply (inv_std w I i c r Ei Hr).
    + intros l0 [H|H].
      * subst. rewrite upd_same. left. reflexivity.
      * unfold upd. destruct (Nat.eqb l0 l) eqn:E; [apply Nat.eqb_eq in E; subst l0; right|]; apply (inv_libs w I i c _ Ei H).
    + intros j l0 Hne H. unfold upd. destruct (Nat.eqb l0 l) eqn:E; [apply Nat.eqb_eq in E; subst; right|]; exact H.
  - (* RCall *)
    destruct (rcx w i) as [c|]; exact I.
  - (* RDestroy *)
    destruct (rcx w i) as [c|] eqn:Ei; [|exact I]. cbn [fst].
    apply inv_destroy; [exact I | exact Ei |].
    intros j l Hne H. destruct rel; [|exact H].
    apply filter_In. split; [exact H|]. apply negb_true_iff. apply Nat.eqb_neq. exact Hne.
Qed.

Theorem rrun_inv : forall rel pi w, RInv w -> RInv (rrun rel pi w).
Proof.
  intros rel pi. induction pi as [|o r IH]; intros w I; [exact I|].
  cbn [rrun]. apply IH. apply rstep_inv. exact I.
Qed.

(** LIVE CONTEXTS KEEP THEIR RESOURCES.  After ANY sequence pi of operations of any number of contexts (creations
    in the three modes, opens, imports, calls, writes, destroys of OTHER or the same contexts, in any order):
    a context that is alive can write to each of its standard ports, and can call into every library it imported. *)
Theorem live_context_can_write : forall rel pi i c k r,
  rcx (rrun rel pi rw0) i = Some c -> nth_error (std c) k = Some r ->
  snd (rstep rel (rrun rel pi rw0) (RWrite i k)) = true.
Proof.
  intros rel pi i c k r Ei Hk. pose proof (rrun_inv rel pi rw0 rinv0) as I.
  cbn [rstep]. rewrite Ei, Hk. cbn [snd].
  destruct (inv_std _ I i c r Ei (nth_error_In _ _ Hk)) as [b Hb].
  apply (inv_open _ I i r b). exists c. split; assumption.
Qed.

Theorem live_context_can_call : forall rel pi i c l,
  rcx (rrun rel pi rw0) i = Some c -> In l (libs c) ->
  snd (rstep rel (rrun rel pi rw0) (RCall i l)) = true.
Proof.
  intros rel pi i c l Ei Hl. pose proof (rrun_inv rel pi rw0 rinv0) as I.
  cbn [rstep]. rewrite Ei. cbn [snd].
  apply andb_true_iff. split; [apply mem_nat_In; exact Hl|].
  pose proof (inv_libs _ I i c l Ei Hl) as H. destruct (dlrefs (rrun rel pi rw0) l); [destruct H | reflexivity].
Qed.

(** the host's own standard streams stay open whatever the contexts do *)
Theorem host_streams_stay_open : forall rel pi r, r < 3 -> ropen (rrun rel pi rw0) r = true.
Proof. intros rel pi r H. apply (inv_host _ (rrun_inv rel pi rw0 rinv0)). exact H. Qed.

(** DESTROY IS LOCAL (resources): destroying j, in any reachable world, leaves every other context's record,
    every resource another context holds, every library reference of another context and the host's streams
    as they were; the only resources that change state are those j owned. *)
Theorem destroy_is_local_resources : forall rel pi j cj,
  let w := rrun rel pi rw0 in
  let w' := fst (rstep rel w (RDestroy j)) in
  rcx w j = Some cj ->
  rcx w' j = None /\
  (forall i, i <> j -> rcx w' i = rcx w i) /\
  (forall i r b, i <> j -> held w i r b -> ropen w' r = true) /\
  (forall i l, i <> j -> In i (dlrefs w l) -> In i (dlrefs w' l)) /\
  (forall r, r < 3 -> ropen w' r = true) /\
  (forall r, ropen w' r <> ropen w r -> In (r, true) (holds cj)).
Proof.
  intros rel pi j cj w w' Ej. pose proof (rrun_inv rel pi rw0 rinv0) as I. fold w in I.
  assert (I' : RInv w') by (apply rstep_inv; exact I).
  unfold w' in *. cbn [rstep] in *. rewrite Ej in *. cbn [fst] in *.
  split; [cbn [rcx]; apply upd_same|].
  split; [intros i Hne; cbn [rcx]; apply upd_other; exact Hne|].
  split.
  { intros i r b Hne Hh. apply (inv_open _ I' i r b). apply held_upd_other; [exact Hne | exact Hh]. }
  split.
  { intros i l Hne H. cbn [dlrefs]. destruct rel; [|exact H].
    apply filter_In. split; [exact H|]. apply negb_true_iff. apply Nat.eqb_neq. exact Hne. }
  split; [apply (inv_host _ I')|].
  intros r Hd. cbn [ropen] in Hd. unfold close_all in Hd.
  destruct (mem_nat r (owned_of cj)) eqn:M; [|contradiction Hd; reflexivity].
  apply owned_of_In. apply mem_nat_In. exact M.
Qed.

(* ------------------------------------------------------------------ non-vacuity and necessity *)

Module ResExample.
  (** five contexts, 14 interleaved operations; context 2 (documented embedding, Std1) survives the destroys of
      1 (private streams), 3 and 4 and still writes to its error port and calls into library 0 *)
  Definition pi : list rop :=
    [RNew 1 Dup0; RNew 2 Std1; ROpen 1; RImport 1 0; RImport 2 0; RNew 3 Std1; RWrite 3 2; RDestroy 1; RNew 4 Plain;
     RImport 4 0; RDestroy 3; RDestroy 4; RWrite 2 2; RCall 2 0].
  Example trace_tail :
    map fst (rtrace true 2 pi rw0) = [true; true; true; true; true; true; true; true; true; true; true; true; true; true] /\
    observe 2 (rrun true pi rw0) = ([0; 1; 2], [0]) /\
    observe 2 (rrun true (pi ++ [RDestroy 2]) rw0) = ([0; 1; 2], []) /\
    observe 2 (rrun false (pi ++ [RDestroy 2]) rw0) = ([0; 1; 2], [0]).
  Proof. vm_compute. repeat split. Qed.

  Example hypotheses_satisfiable : exists c, rcx (rrun true pi rw0) 2 = Some c /\ nth_error (std c) 2 = Some 2 /\ In 0 (libs c).
  Proof. eexists. vm_compute. repeat split. left. reflexivity. Qed.

  (** NECESSITY of the ownership flag (the seeded defect): if the error port of a documented-embedding context
      owns stderr (no_close lost), the world violates the invariant, and destroying that context makes the
      write of ANOTHER live context to its error port fail. *)
  Definition w_bad : rworld :=
    mk_rworld (fun r => Nat.ltb r 3) 3 (fun _ => [])
      (upd (upd (fun _ => None) 1 (Some std1_err_owned)) 2 (Some (mk_rctx [(0, false); (1, false); (2, false)] [0; 1; 2] []))).
  Example lost_no_close_breaks_other_context :
    snd (rstep true w_bad (RWrite 2 2)) = true /\
    snd (rstep true (fst (rstep true w_bad (RDestroy 1))) (RWrite 2 2)) = false.
  Proof. vm_compute. split; reflexivity. Qed.
  Example w_bad_not_invariant : ~ RInv w_bad.
  Proof.
    intros I. destruct (inv_priv _ I 1 2) as [H _].
    - exists std1_err_owned. split; [reflexivity | cbn; auto].
    - lia.
  Qed.
End ResExample.
