(** C13 round 4 — generated obligations over the import and creation-site inventories of THIS build. *)
From Coq Require Import String List Bool.
From ChibiV Require Import C13.Libc C13.AllowedLibc Gen.C13_Imports.
Import ListNotations.
Local Open Scope string_scope.

Lemma lmem_In : forall x l, lmem x l = true -> In x l.
Proof.
  intros x l H. unfold lmem in H. apply existsb_exists in H. destruct H as [y [Hy E]].
  apply String.eqb_eq in E. subst. exact Hy.
Qed.

Lemma lincl_incl : forall a b, lincl a b = true -> incl a b.
Proof.
  intros a b H x Hx. unfold lincl in H. rewrite forallb_forall in H. apply lmem_In. apply H. exact Hx.
Qed.

Lemma find_unsafe_In : forall tb n u, find_unsafe tb n = Some u -> In u tb /\ u_name u = n.
Proof.
  induction tb as [|v r IH]; intros n u H; simpl in H; [discriminate|].
  destruct (String.eqb (u_name v) n) eqn:E.
  - inversion H; subst. split; [left; reflexivity | apply String.eqb_eq; exact E].
  - destruct (IH n u H) as [H1 H2]. split; [right; exact H1 | exact H2].
Qed.

Lemma find_unsafe_complete : forall tb n u, In u tb -> u_name u = n -> exists v, find_unsafe tb n = Some v /\ u_name v = n.
Proof.
  induction tb as [|w r IH]; intros n u Hin E; [destruct Hin|].
  simpl. destruct (String.eqb (u_name w) n) eqn:Ew.
  - exists w. split; [reflexivity | apply String.eqb_eq; exact Ew].
  - destruct Hin as [->|Hin]; [rewrite E, String.eqb_refl in Ew; discriminate | exact (IH n u Hin E)].
Qed.

Lemma find_iallow_In : forall al lib sym a, find_iallow al lib sym = Some a -> In a al /\ ia_lib a = lib /\ ia_sym a = sym.
Proof.
  induction al as [|b r IH]; intros lib sym a H; simpl in H; [discriminate|].
  destruct (String.eqb (ia_lib b) lib && String.eqb (ia_sym b) sym) eqn:E.
  - inversion H; subst. apply andb_true_iff in E. destruct E as [E1 E2].
    split; [left; reflexivity | split; apply String.eqb_eq; assumption].
  - destruct (IH lib sym a H) as [H1 H2]. split; [right; exact H1 | exact H2].
Qed.

(** soundness of the boolean check, for any table / allow-list / inventory *)
Lemma check_import_sound : forall tb al imps, forallb (check_import tb al) imps = true ->
  forall i u, In i imps -> In u tb -> u_name u = i_sym i ->
  exists v a, In v tb /\ u_name v = i_sym i /\ In a al /\ ia_lib a = i_lib i /\ ia_sym a = i_sym i /\
              i_callers i <> [] /\ incl (i_callers i) (ia_callers a) /\ excuse_fits (u_hazard v) (ia_excuse a) = true.
Proof.
  intros tb al imps H i u Hi Hu E. rewrite forallb_forall in H. specialize (H i Hi). unfold check_import in H.
  destruct (find_unsafe_complete tb (i_sym i) u Hu E) as [v [Hv Ev]]. rewrite Hv in H.
  destruct (find_iallow al (i_lib i) (i_sym i)) as [a|] eqn:Ha; [|discriminate].
  apply andb_true_iff in H. destruct H as [H H3]. apply andb_true_iff in H. destruct H as [H1 H2].
  destruct (find_iallow_In al _ _ a Ha) as [Ia [Il Is]]. destruct (find_unsafe_In tb _ v Hv) as [Iv _].
  exists v, a. repeat split; try assumption.
  - intro C. rewrite C in H1. discriminate.
  - apply lincl_incl. exact H2.
Qed.

(** GENERATED OBLIGATION 1: every import of a not-thread-safe / process-attribute function by any shared object of the build
    is reviewed: called only by the functions the entry names, with an excuse that fits the kind of sharing *)
Lemma imports_all_classified : forallb (check_import mt_unsafe import_allow) imports = true.
Proof. vm_compute. reflexivity. Qed.

Lemma unsafe_imports_reviewed : forall i u, In i imports -> In u mt_unsafe -> u_name u = i_sym i ->
  exists v a, In v mt_unsafe /\ u_name v = i_sym i /\ In a import_allow /\ ia_lib a = i_lib i /\ ia_sym a = i_sym i /\
              i_callers i <> [] /\ incl (i_callers i) (ia_callers a) /\ excuse_fits (u_hazard v) (ia_excuse a) = true.
Proof. exact (check_import_sound mt_unsafe import_allow imports imports_all_classified). Qed.

(** no function of the build calls a libc function whose result or working state lives in static storage inside libc,
    except where that storage belongs to an object one context owns or the supported libc keeps it per thread:
    in particular none is excused as a "documented process attribute" *)
Definition static_storage (n : string) : bool :=
  match find_unsafe mt_unsafe n with
  | Some u => match u_hazard u with StaticResult | HiddenState => true | ProcessAttr => false end
  | None => false
  end.

Lemma static_storage_calls_owned_or_per_thread :
  forallb (fun i => negb (static_storage (i_sym i)) ||
                    match find_iallow import_allow (i_lib i) (i_sym i) with
                    | Some a => match ia_excuse a with PerObject | SafeHere => true | _ => false end
                    | None => false end) imports = true.
Proof. vm_compute. reflexivity. Qed.

(** the time / user-database / math stubs call the reentrant variants only: none of the classic static-buffer functions
    is imported by ANY shared object of the build *)
Definition classic_static := ["ctime"; "asctime"; "localtime"; "gmtime"; "getpwnam"; "getpwuid"; "getgrnam"; "getgrgid";
  "strtok"; "rand"; "srand"; "random"; "drand48"; "lgamma"; "gethostbyname"; "inet_ntoa"; "tmpnam"; "ttyname"; "getlogin"; "crypt"; "setlocale"].

Lemma classic_static_all_in_table : forallb (fun n => match find_unsafe mt_unsafe n with Some _ => true | None => false end) classic_static = true.
Proof. vm_compute. reflexivity. Qed.

Lemma no_classic_static_buffer_function_imported :
  forallb (fun i => negb (lmem (i_sym i) classic_static)) imports = true.
Proof. vm_compute. reflexivity. Qed.

Lemma no_classic_static_buffer_function_imported_prop : forall i, In i imports -> ~ In (i_sym i) classic_static.
Proof.
  intros i Hi C. pose proof no_classic_static_buffer_function_imported as H. rewrite forallb_forall in H.
  specialize (H i Hi). apply negb_true_iff in H.
  assert (lmem (i_sym i) classic_static = true) as T.
  { unfold lmem. apply existsb_exists. exists (i_sym i). split; [exact C | apply String.eqb_refl]. }
  rewrite T in H. discriminate.
Qed.

(** table well-formedness: no name listed twice (find_unsafe would hide the second) *)
Fixpoint nodup_str (l : list string) : bool :=
  match l with [] => true | x :: r => negb (lmem x r) && nodup_str r end.
Lemma mt_unsafe_names_distinct : nodup_str (map u_name mt_unsafe) = true.
Proof. vm_compute. reflexivity. Qed.

(** GENERATED OBLIGATION 2: every file-creation site of the Scheme libraries is atomic (open/create beside open/exclusive)
    or reviewed; a site whose NAME is generated from pid / clock / random numbers must be atomic, no entry can excuse it *)
Lemma creation_sites_atomic_or_reviewed : forallb (check_site site_allow) sites = true.
Proof. vm_compute. reflexivity. Qed.

Lemma generated_names_created_atomically : forall s, In s sites -> st_kind s = "open-flags" -> st_generated s = true ->
  In "open/exclusive" (st_flags s).
Proof.
  intros s Hs Hk Hg. pose proof creation_sites_atomic_or_reviewed as H. rewrite forallb_forall in H. specialize (H s Hs).
  unfold check_site in H. rewrite Hk in H. simpl in H. rewrite Hg in H. simpl in H. rewrite orb_false_r in H.
  apply lmem_In. exact H.
Qed.

(** non-vacuity: the build does have a generated-name creation site (call-with-temp-file) and reviewed unsafe imports *)
Example build_has_generated_site_and_unsafe_imports :
  existsb (fun s => st_generated s && String.eqb (st_kind s) "open-flags") sites = true /\
  existsb (fun i => static_storage (i_sym i)) imports = true.
Proof. split; vm_compute; reflexivity. Qed.

(** necessity (the seeded changes as data): ctime imported by time.so, and open/truncate instead of open/exclusive *)
Example ctime_import_rejected :
  check_import mt_unsafe import_allow (mk_import "lib/chibi/time.so" "ctime" ["sexp_seconds_string_stub"]) = false.
Proof. vm_compute. reflexivity. Qed.
Example truncate_site_rejected :
  check_site site_allow (mk_site "lib/chibi/temp-file.scm" "define call-with-temp-file" "open-flags" ["open/create"; "open/truncate"; "open/write"] true) = false.
Proof. vm_compute. reflexivity. Qed.
