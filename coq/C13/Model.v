(** C13 — executable model of independent contexts over process-wide statics.

    world  = values of the process-wide statics (indexed by their position in the inventory)
             x  one optional state per context id (None: not created yet / destroyed).
    The state of a context ([Ctx]) stands for everything sexp_make_eval_context(NULL, ...) allocates for it:
    its heap chain, symbol table, type table and globals vector (sexp.c:622-707, sexp.h:1561-1626) — the
    harness checks on the real implementation that these are pairwise disjoint (heap audit, probes).

    A step is what one C entry point does on behalf of ONE context: it is handed the statics and that
    context's state and returns the context's new state (None = sexp_destroy_context, sexp.c:710-738) and the
    list of stores to statics it performed.  No proofs in this file. *)
From Coq Require Import List ZArith Bool Arith.
From ChibiV Require Import C13.Defs.
Import ListNotations.

Section Model.
  Variable Ctx : Type.

  Definition sid := nat.                       (* index into the inventory table *)
  Definition shared := sid -> Z.

  Record world := mk_world { sh : shared; cx : nat -> option Ctx }.

  Record step := mk_step {
    who : nat;                                                   (* the context the step belongs to *)
    act : shared -> option Ctx -> option Ctx * list (sid * Z)    (* new state, stores to statics *)
  }.

  Definition upd_sh (s : shared) (x : sid) (v : Z) : shared := fun y => if Nat.eqb y x then v else s y.
  Definition upd_cx (c : nat -> option Ctx) (i : nat) (v : option Ctx) : nat -> option Ctx :=
    fun j => if Nat.eqb j i then v else c j.

  Fixpoint store_all (s : shared) (ws : list (sid * Z)) : shared :=
    match ws with
    | [] => s
    | (x, v) :: r => store_all (upd_sh s x v) r
    end.

  Definition exec (w : world) (st : step) : world :=
    let '(c', ws) := act st (sh w) (cx w (who st)) in
    mk_world (store_all (sh w) ws) (upd_cx (cx w) (who st) c').

  (** an interleaving is simply the list of steps in the order the OS happened to run them *)
  Fixpoint run (pi : list step) (w : world) : world :=
    match pi with
    | [] => w
    | st :: r => run r (exec w st)
    end.

  (** the steps of context i inside an interleaving, in program order *)
  Definition steps_of (i : nat) (pi : list step) : list step := filter (fun st => Nat.eqb (who st) i) pi.

  (** sexp_destroy_context: finalise, free the heaps; touches no static *)
  Definition destroy (i : nat) : step := mk_step i (fun _ _ => (None, [])).

  (** sexp_scheme_init / sexp_init (eval.c:2779, sexp.c:4023): store the init value into each init-once static *)
  Definition init_step (i : nat) (inits : list (sid * Z)) : step := mk_step i (fun _ c => (c, inits)).
End Model.

Arguments mk_world {Ctx}.
Arguments mk_step {Ctx}.
Arguments sh {Ctx}.
Arguments cx {Ctx}.
Arguments who {Ctx}.
Arguments act {Ctx}.
Arguments exec {Ctx}.
Arguments run {Ctx}.
Arguments steps_of {Ctx}.
Arguments destroy {Ctx}.
Arguments init_step {Ctx}.
Arguments upd_cx {Ctx}.
