(** C13 — definitions shared by the generated inventory (Gen/C13_Statics.v), the reviewed allow-list
    (C13/Allowed.v) and the isolation model (C13/Model.v).

    A [static] is one object of a writable data section of a shared object of the build (name, section, size)
    together with what the disassembly scan of gen/c13_statics.py attributed to it: the functions that store
    to it ([s_writers]) and the functions / data objects that take its address and let it escape ([s_addr]). *)
From Coq Require Import String List ZArith Bool.
Import ListNotations.
Local Open Scope string_scope.

Record static := mk_static {
  s_lib : string;          (* shared object, relative to the build directory *)
  s_name : string;         (* symbol name; "<anon>+off" for bytes no symbol covers *)
  s_sec : string;          (* .data | .bss | .tdata | .tbss | .data.rel.ro *)
  s_size : Z;
  s_writers : list string; (* functions with a store whose destination is inside the object *)
  s_addr : list string     (* functions (or "data:<holder>") through which the object's address escapes *)
}.

(** How a process-wide object may be used without breaking isolation of independent contexts. *)
Inductive class :=
| Immutable      (* initialised data that no code stores to; contexts copy from it / read it *)
| InitOnce       (* written only by the one-time initialisers, always with the same value (idempotent) *)
| ProcessWide    (* a documented process-wide resource (signal number -> context): outside the isolation claim;
                    steps that use it are excluded from the theorem and listed as an assumption *)
| ErrScratch     (* scratch buffer for an error message on a failure path (heap image load/save): outside the claim *)
| Runtime.       (* bookkeeping of the C runtime's startup files (crtbegin), not interpreter state *)

Definition class_eqb (a b : class) : bool :=
  match a, b with
  | Immutable, Immutable | InitOnce, InitOnce | ProcessWide, ProcessWide
  | ErrScratch, ErrScratch | Runtime, Runtime => true
  | _, _ => false
  end.

(** One reviewed entry of the allow-list. *)
Record allow := mk_allow {
  a_lib : string;          (* "" = any shared object (used for the C runtime's own objects) *)
  a_name : string;
  a_prefix : bool;         (* true: a_name is a prefix (the 21 generated huffman tables _huff_tab<N>) *)
  a_class : class;
  a_maxsize : Z;           (* 0 = unbounded; otherwise the object may not be larger *)
  a_writers : list string; (* functions allowed to store to it *)
  a_addr : list string;    (* functions / data objects allowed to take its address *)
  a_why : string
}.

Definition mem_str (x : string) (l : list string) : bool := existsb (String.eqb x) l.
Definition incl_str (a b : list string) : bool := forallb (fun x => mem_str x b) a.

Definition name_matches (a : allow) (s : static) : bool :=
  (if String.eqb (a_lib a) "" then true else String.eqb (a_lib a) (s_lib s)) &&
  (if a_prefix a then String.prefix (a_name a) (s_name s) else String.eqb (a_name a) (s_name s)).

Fixpoint lookup (al : list allow) (s : static) : option allow :=
  match al with
  | [] => None
  | a :: r => if name_matches a s then Some a else lookup r s
  end.

(** [allowed al s]: the static is on the allow-list (and not larger than reviewed). *)
Definition allowed (al : list allow) (s : static) : bool :=
  match lookup al s with
  | Some a => (Z.eqb (a_maxsize a) 0 || Z.leb (s_size s) (a_maxsize a))
  | None => false
  end.

(** [writers_ok al s]: every function the scan found storing to it, or leaking its address, is one the
    reviewed entry names; Immutable and Runtime objects have no chibi writer at all. *)
Definition writers_ok (al : list allow) (s : static) : bool :=
  match lookup al s with
  | Some a =>
      incl_str (s_writers s) (a_writers a) && incl_str (s_addr s) (a_addr a) &&
      match a_class a with
      | Immutable => match s_writers s with [] => true | _ => false end
      | _ => true
      end
  | None => false
  end.

Definition check_static (al : list allow) (s : static) : bool := allowed al s && writers_ok al s.

(** the allow-list itself is well-formed: Immutable entries name no writer *)
Definition allow_wf (a : allow) : bool :=
  match a_class a with
  | Immutable => match a_writers a with [] => true | _ => false end
  | _ => true
  end.

Definition class_of (al : list allow) (s : static) : option class :=
  match lookup al s with Some a => Some (a_class a) | None => None end.
