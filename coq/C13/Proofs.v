(** C13 — proofs about the isolation model (C13/Model.v) and about the boolean inventory check (C13/Defs.v). *)
From Coq Require Import List ZArith Bool Arith String Lia.
From ChibiV Require Import C13.Defs C13.Model.
Import ListNotations.

(* ------------------------------------------------------------------ the inventory check, in Prop form *)

Lemma mem_str_In : forall x l, mem_str x l = true <-> In x l.
Proof.
  intros x l. unfold mem_str. rewrite existsb_exists. split.
  - intros [y [Hin Heq]]. apply String.eqb_eq in Heq. subst. exact Hin.
  - intros Hin. exists x. split; [exact Hin | apply String.eqb_refl].
Qed.

Lemma incl_str_incl : forall a b, incl_str a b = true <-> incl a b.
Proof.
  intros a b. unfold incl_str. rewrite forallb_forall. split.
  - intros H x Hx. apply mem_str_In. apply H. exact Hx.
  - intros H x Hx. apply mem_str_In. apply H. exact Hx.
Qed.

(** what [forallb (check_static al) table = true] says about each static of the build *)
Theorem check_sound : forall al table, forallb (check_static al) table = true ->
  forall s, In s table ->
  exists a, lookup al s = Some a /\
            incl (s_writers s) (a_writers a) /\ incl (s_addr s) (a_addr a) /\
            (a_class a = Immutable -> s_writers s = []).
Proof.
  intros al table H s Hin.
  rewrite forallb_forall in H. specialize (H s Hin).
  unfold check_static, allowed, writers_ok in H.
  destruct (lookup al s) as [a|] eqn:Hl.
  - exists a. split; [reflexivity|].
    apply andb_true_iff in H. destruct H as [_ H].
    apply andb_true_iff in H. destruct H as [H Hc].
    apply andb_true_iff in H. destruct H as [Hw Ha].
    split; [apply incl_str_incl; exact Hw|].
    split; [apply incl_str_incl; exact Ha|].
    intros Hi. rewrite Hi in Hc. destruct (s_writers s); [reflexivity|discriminate].
  - discriminate.
Qed.

(* ------------------------------------------------------------------ the isolation model *)

Section Iso.
  Variable Ctx : Type.
  Variable cls : sid -> class.       (* classification of the statics (from inventory x allow-list) *)
  Variable initv : sid -> Z.         (* value of an init-once static once initialised *)

  Local Notation W := (world Ctx).
  Local Notation St := (step Ctx).

  (** statics whose value never changes once the process is initialised *)
  Definition stable (x : sid) : Prop := cls x = Immutable \/ cls x = InitOnce.

  (** a step respects the classification:
      (1) what it computes depends on the statics only through the stable ones;
      (2) every store to a static goes to an init-once static and stores its one init value. *)
  Definition respects (st : St) : Prop :=
    (forall s1 s2 c, (forall x, stable x -> s1 x = s2 x) -> act st s1 c = act st s2 c) /\
    (forall s c x v, In (x, v) (snd (act st s c)) -> cls x = InitOnce /\ v = initv x).

  Definition initialised (w : W) : Prop := forall x, cls x = InitOnce -> sh w x = initv x.

  (** extensional equality of worlds (no functional extensionality needed) *)
  Definition weq (w1 w2 : W) : Prop := (forall x, sh w1 x = sh w2 x) /\ (forall i, cx w1 i = cx w2 i).

  Lemma weq_refl : forall (w : W), weq w w.
  Proof. intros w. split; reflexivity. Qed.

  Lemma weq_trans : forall (a b c : W), weq a b -> weq b c -> weq a c.
  Proof. intros a b c [H1 H2] [H3 H4]. split; intros; [rewrite H1; apply H3 | rewrite H2; apply H4]. Qed.

  Lemma weq_sym : forall (a b : W), weq a b -> weq b a.
  Proof. intros a b [H1 H2]. split; intros; symmetry; [apply H1 | apply H2]. Qed.

  Lemma store_all_same : forall ws s,
    (forall x v, In (x, v) ws -> s x = v) -> forall y, store_all s ws y = s y.
  Proof.
    induction ws as [|[x v] r IH]; intros s H y; [reflexivity|].
    cbn [store_all]. rewrite IH.
    - unfold upd_sh. destruct (Nat.eqb y x) eqn:E; [|reflexivity].
      apply Nat.eqb_eq in E. subst. symmetry. apply H. left. reflexivity.
    - intros x' v' Hin. unfold upd_sh. destruct (Nat.eqb x' x) eqn:E.
      + apply Nat.eqb_eq in E. subst.
        rewrite <- (H x v (or_introl eq_refl)). apply H. right. exact Hin.
      + apply H. right. exact Hin.
  Qed.

  (** a respecting step leaves every static as it was, once the process is initialised *)
  Lemma exec_shared : forall (w : W) (st : St), respects st -> initialised w -> forall x, sh (exec w st) x = sh w x.
  Proof.
    intros w st [_ Hw] Hi x. unfold exec.
    destruct (act st (sh w) (cx w (who st))) as [c' ws] eqn:E. cbn [sh].
    apply store_all_same. intros y v Hin.
    destruct (Hw (sh w) (cx w (who st)) y v) as [Hc Hv].
    - rewrite E. exact Hin.
    - subst v. apply Hi. exact Hc.
  Qed.

  Lemma exec_initialised : forall (w : W) (st : St), respects st -> initialised w -> initialised (exec w st).
  Proof. intros w st Hr Hi x Hx. rewrite exec_shared by assumption. apply Hi. exact Hx. Qed.

  (** frame: a step of context j does not touch the state of any other context *)
  Lemma exec_frame : forall (w : W) (st : St) i, i <> who st -> cx (exec w st) i = cx w i.
  Proof.
    intros w st i Hne. unfold exec.
    destruct (act st (sh w) (cx w (who st))) as [c' ws]. cbn [cx]. unfold upd_cx.
    destruct (Nat.eqb i (who st)) eqn:E; [apply Nat.eqb_eq in E; contradiction | reflexivity].
  Qed.

  (** executing the same respecting step in equivalent worlds gives equivalent worlds *)
  Lemma exec_weq : forall (w1 w2 : W) (st : St), respects st -> weq w1 w2 -> weq (exec w1 st) (exec w2 st).
  Proof.
    intros w1 w2 st [Hr _] [Hs Hc]. unfold exec.
    rewrite (Hr (sh w1) (sh w2) (cx w1 (who st)) (fun x _ => Hs x)). rewrite (Hc (who st)).
    destruct (act st (sh w2) (cx w2 (who st))) as [c' ws]. split; cbn [sh cx].
    - clear -Hs. revert Hs. generalize (sh w1) (sh w2). induction ws as [|[y v] r IH]; intros a b Hs x; [apply Hs|].
      cbn [store_all]. apply IH. intros z. unfold upd_sh. destruct (Nat.eqb z y); [reflexivity | apply Hs].
    - intros i. unfold upd_cx. destruct (Nat.eqb i (who st)); [reflexivity | apply Hc].
  Qed.

  Lemma run_weq : forall (pi : list St) (w1 w2 : W), Forall respects pi -> weq w1 w2 -> weq (run pi w1) (run pi w2).
  Proof.
    induction pi as [|st r IH]; intros w1 w2 Hf He; [exact He|].
    inversion Hf as [|? ? Hst Hr]; subst. cbn [run]. apply IH; [exact Hr|]. apply exec_weq; assumption.
  Qed.

  (** the statics after any interleaving are the statics before it *)
  Theorem shared_unchanged : forall (pi : list St) (w : W), Forall respects pi -> initialised w ->
    (forall x, sh (run pi w) x = sh w x) /\ initialised (run pi w).
  Proof.
    induction pi as [|st r IH]; intros w Hf Hi; [split; [reflexivity | exact Hi]|].
    inversion Hf as [|? ? Hst Hr]; subst. cbn [run].
    destruct (IH (exec w st) Hr (exec_initialised w st Hst Hi)) as [H1 H2].
    split; [|exact H2]. intros x. rewrite H1. apply exec_shared; assumption.
  Qed.

  (** a step of another context can be dropped without changing what context i sees *)
  Lemma skip_foreign_step : forall (w : W) (st : St) i, respects st -> initialised w -> i <> who st ->
    (forall x, sh (exec w st) x = sh w x) /\ cx (exec w st) i = cx w i.
  Proof. intros. split; [intros; apply exec_shared; assumption | apply exec_frame; assumption]. Qed.

  (** NONINTERFERENCE.  For every interleaving pi of the steps of any number of contexts, run from an initialised
      world, the final state of context i is the state it reaches when only its own steps run, in program
      order, from the same world: nothing the other contexts do (including being created and destroyed) is
      observable from i. *)
  Theorem noninterference : forall (pi : list St) (w : W) i, Forall respects pi -> initialised w ->
    cx (run pi w) i = cx (run (steps_of i pi) w) i.
  Proof.
    (* generalised over a second, equivalent-on-i world *)
    assert (G : forall (pi : list St) (w1 w2 : W) i, Forall respects pi -> initialised w1 -> initialised w2 ->
              (forall x, sh w1 x = sh w2 x) -> cx w1 i = cx w2 i ->
              cx (run pi w1) i = cx (run (steps_of i pi) w2) i).
    { induction pi as [|st r IH]; intros w1 w2 i Hf Hi1 Hi2 Hs Hc; [exact Hc|].
      inversion Hf as [|? ? Hst Hr]; subst. cbn [run steps_of filter].
      destruct (Nat.eqb (who st) i) eqn:E.
      - apply Nat.eqb_eq in E. fold (steps_of i r). cbn [run]. apply IH.
        + exact Hr.
        + apply exec_initialised; assumption.
        + apply exec_initialised; assumption.
        + intros x. rewrite !exec_shared by assumption. apply Hs.
        + (* same step, same statics, same state of i *)
          destruct Hst as [Hrd _]. unfold exec.
          rewrite (Hrd (sh w1) (sh w2) (cx w1 (who st)) (fun x _ => Hs x)). rewrite E. rewrite Hc.
          destruct (act st (sh w2) (cx w2 i)) as [c' ws]. cbn [cx]. unfold upd_cx. rewrite Nat.eqb_refl. reflexivity.
      - apply Nat.eqb_neq in E. fold (steps_of i r). apply IH.
        + exact Hr.
        + apply exec_initialised; assumption.
        + exact Hi2.
        + intros x. rewrite exec_shared by assumption. apply Hs.
        + rewrite exec_frame by (intro; apply E; symmetry; assumption). exact Hc. }
    intros pi w i Hf Hi. apply G; try assumption; reflexivity.
  Qed.

  (** the same, as a statement about two different interleavings of the same per-context programs *)
  Corollary schedule_independent : forall (pi1 pi2 : list St) (w : W) i, Forall respects pi1 -> Forall respects pi2 -> initialised w ->
    steps_of i pi1 = steps_of i pi2 -> cx (run pi1 w) i = cx (run pi2 w) i.
  Proof. intros pi1 pi2 w i H1 H2 Hi He. rewrite (noninterference pi1), (noninterference pi2) by assumption. rewrite He. reflexivity. Qed.

  (** steps of different contexts commute: the model has no shared mutable location on which two contexts
      could race *)
  Theorem independent_steps_commute : forall (w : W) (s1 s2 : St), respects s1 -> respects s2 -> initialised w ->
    who s1 <> who s2 -> weq (run [s1; s2] w) (run [s2; s1] w).
  Proof.
    intros w s1 s2 H1 H2 Hi Hne. cbn [run]. split.
    - intros x. rewrite !exec_shared; try assumption; try reflexivity; apply exec_initialised; assumption.
    - intros i.
      assert (E12 : exec (exec w s1) s2 = exec (exec w s1) s2) by reflexivity.
      destruct (Nat.eq_dec i (who s2)) as [Ei2|Ni2]; [|destruct (Nat.eq_dec i (who s1)) as [Ei1|Ni1]].
      + (* i = who s2 *) subst i.
        rewrite (exec_frame (exec w s2) s1) by (intro E; apply Hne; symmetry; exact E).
        destruct H2 as [Hrd _]. unfold exec at 1 3.
        rewrite (Hrd (sh (exec w s1)) (sh w) (cx (exec w s1) (who s2)) (fun x _ => exec_shared w s1 H1 Hi x)).
        rewrite (exec_frame w s1) by (intro E; apply Hne; symmetry; exact E).
        destruct (act s2 (sh w) (cx w (who s2))) as [c' ws]. cbn [cx]. unfold upd_cx. rewrite Nat.eqb_refl. reflexivity.
      + subst i.
        rewrite (exec_frame (exec w s1) s2) by exact Hne.
        destruct H1 as [Hrd _]. unfold exec at 1 2.
        rewrite (Hrd (sh (exec w s2)) (sh w) (cx (exec w s2) (who s1)) (fun x _ => exec_shared w s2 H2 Hi x)).
        rewrite (exec_frame w s2) by exact Hne.
        destruct (act s1 (sh w) (cx w (who s1))) as [c' ws]. cbn [cx]. unfold upd_cx. rewrite Nat.eqb_refl. reflexivity.
      + rewrite !exec_frame by assumption. reflexivity.
  Qed.

  (** DESTRUCTION IS LOCAL: destroying context j (at any point of any interleaving) removes j and leaves every
      other context exactly where it would be had j not been destroyed. *)
  Lemma destroy_respects : forall j, respects (destroy j : St).
  Proof. intros j. split; [reflexivity | intros s c x v []]. Qed.

  Theorem destroy_is_local : forall (pi1 pi2 : list St) (w : W) i j, Forall respects pi1 -> Forall respects pi2 -> initialised w ->
    i <> j ->
    cx (run (pi1 ++ destroy j :: pi2) w) i = cx (run (pi1 ++ pi2) w) i /\
    cx (run (pi1 ++ [destroy j]) w) j = None.
  Proof.
    intros pi1 pi2 w i j H1 H2 Hi Hne. split.
    - apply schedule_independent; try assumption.
      + apply Forall_app. split; [exact H1 | constructor; [apply destroy_respects | exact H2]].
      + apply Forall_app. split; assumption.
      + unfold steps_of. rewrite !filter_app. cbn [filter destroy who].
        destruct (Nat.eqb j i) eqn:E; [apply Nat.eqb_eq in E; subst; contradiction | reflexivity].
    - assert (R : forall p (w0 : W), run (p ++ [destroy j]) w0 = exec (run p w0) (destroy j)).
      { induction p as [|a p IHp]; intros w0; [reflexivity | cbn [app run]; apply IHp]. }
      rewrite R. unfold exec, destroy. cbn [act who cx]. unfold upd_cx. rewrite Nat.eqb_refl. reflexivity.
  Qed.

  (** INIT IS IDEMPOTENT: the one-time initialiser stores the init value of each init-once static; running it
      again (from any context, at any time after the first) changes nothing, and it respects the
      classification, so it may appear anywhere in an interleaving. *)
  Definition inits_ok (inits : list (sid * Z)) : Prop := forall x v, In (x, v) inits -> cls x = InitOnce /\ v = initv x.

  Lemma init_respects : forall i inits, inits_ok inits -> respects (init_step i inits : St).
  Proof. intros i inits H. split; [reflexivity | intros s c x v Hin; apply H; exact Hin]. Qed.

  Lemma exec_init_cx : forall (w : W) j inits k, cx (exec w (init_step j inits)) k = cx w k.
  Proof.
    intros w j inits k. unfold exec, init_step. cbn [act who cx]. unfold upd_cx.
    destruct (Nat.eqb k j) eqn:E; [apply Nat.eqb_eq in E; subst; reflexivity | reflexivity].
  Qed.

  Theorem init_idempotent : forall i j inits (w : W), inits_ok inits ->
    (forall x, cls x = InitOnce -> exists v, In (x, v) inits) ->
    NoDup (map fst inits) ->
    initialised (exec w (init_step i inits)) /\
    weq (exec (exec w (init_step i inits)) (init_step j inits)) (exec w (init_step i inits)).
  Proof.
    intros i j inits w Hok Hcov Hnd.
    assert (S : forall ws s x v, NoDup (map fst ws) -> In (x, v) ws -> store_all s ws x = v).
    { induction ws as [|[y u] r IH]; intros s x v Hn Hin; [destruct Hin|].
      cbn [store_all]. inversion Hn as [|? ? Hnot Hn']; subst. destruct Hin as [E|Hin].
      - inversion E; subst. clear -Hnot. revert s. induction r as [|[z t] r IH]; intros s.
        + cbn. unfold upd_sh. rewrite Nat.eqb_refl. reflexivity.
        + cbn [store_all]. cbn [map fst In] in Hnot.
          assert (Hz : z <> x) by (intro; apply Hnot; left; assumption).
          assert (Hr : ~ In x (map fst r)) by (intro; apply Hnot; right; assumption).
          specialize (IH Hr).
          (* the store to z commutes away: value at x after the rest is still v *)
          clear Hnot. revert s. induction r as [|[a b] r IH2]; intros s.
          * cbn. unfold upd_sh. destruct (Nat.eqb x z) eqn:E; [apply Nat.eqb_eq in E; subst; contradiction|]. rewrite Nat.eqb_refl. reflexivity.
          * cbn [map fst In] in Hr. cbn [store_all].
            assert (Ha : a <> x) by (intro; apply Hr; left; assumption).
            assert (Hr' : ~ In x (map fst r)) by (intro; apply Hr; right; assumption).
            (* value at x is untouched by stores to other indices *)
            assert (U : forall ws s0, ~ In x (map fst ws) -> store_all s0 ws x = s0 x).
            { clear. induction ws as [|[p q] ws IHw]; intros s0 Hn; [reflexivity|].
              cbn [store_all]. rewrite IHw by (intro; apply Hn; right; assumption).
              unfold upd_sh. destruct (Nat.eqb x p) eqn:E; [apply Nat.eqb_eq in E; subst; exfalso; apply Hn; left; reflexivity | reflexivity]. }
            rewrite U by exact Hr'. unfold upd_sh.
            destruct (Nat.eqb x a) eqn:E1; [apply Nat.eqb_eq in E1; subst; contradiction|].
            destruct (Nat.eqb x z) eqn:E2; [apply Nat.eqb_eq in E2; subst; contradiction|].
            rewrite Nat.eqb_refl. reflexivity.
      - apply IH; assumption. }
    assert (I1 : initialised (exec w (init_step i inits))).
    { intros x Hx. destruct (Hcov x Hx) as [v Hin]. unfold exec, init_step. cbn [act who sh].
      rewrite (S inits (sh w) x v Hnd Hin). destruct (Hok x v Hin) as [_ Hv]. exact Hv. }
    split; [exact I1|]. split.
    - intros x. apply exec_shared; [apply init_respects; exact Hok | exact I1].
    - intros k. apply exec_init_cx.
  Qed.
End Iso.

(* ------------------------------------------------------------------ non-vacuity *)

(** A concrete instance: statics 0 = an immutable template word, 1 = an init-once flag, 2 = a process-wide
    table; the state of a context is a list of words (its "symbol table").  [intern_like] reads the template
    and pushes onto its own context; three contexts interleaved. *)
Module Example.
  Definition cls (x : sid) : class := match x with 0 => Immutable | 1 => InitOnce | _ => ProcessWide end.
  Definition initv (x : sid) : Z := 1%Z.
  Definition intern_like (i : nat) (k : Z) : step (list Z) :=
    mk_step i (fun s c => (Some ((s 0%nat + k)%Z :: match c with Some l => l | None => [] end), [])).
  Definition w0 : world (list Z) := mk_world (fun x => match x with 0%nat => 40%Z | 1%nat => 1%Z | _ => 0%Z end) (fun _ => None).

  Lemma intern_respects : forall i k, respects (list Z) cls initv (intern_like i k).
  Proof.
    intros i k. split.
    - intros s1 s2 c H. unfold intern_like. cbn [act]. rewrite (H 0); [reflexivity | left; reflexivity].
    - intros s c x v [].
  Qed.

  Lemma w0_initialised : initialised (list Z) cls initv w0.
  Proof. intros x Hx. destruct x as [|[|x]]; cbn in *; try discriminate; reflexivity. Qed.

  Definition pi : list (step (list Z)) :=
    [intern_like 1 2; intern_like 2 5; init_step 3 [(1%nat, 1%Z)]; intern_like 1 3; destroy 2; intern_like 3 7; intern_like 1 4].

  Example pi_respects : Forall (respects (list Z) cls initv) pi.
  Proof.
    unfold pi.
    apply Forall_cons; [apply intern_respects|].
    apply Forall_cons; [apply intern_respects|].
    apply Forall_cons; [apply init_respects; intros x v [E|[]]; inversion E; subst; split; reflexivity|].
    apply Forall_cons; [apply intern_respects|].
    apply Forall_cons; [apply destroy_respects|].
    apply Forall_cons; [apply intern_respects|].
    apply Forall_cons; [apply intern_respects|]. apply Forall_nil.
  Qed.

  Example noninterference_instance : cx (run pi w0) 1 = Some [44; 43; 42]%Z /\ cx (run pi w0) 2 = None /\
                                     cx (run (steps_of 1 pi) w0) 1 = Some [44; 43; 42]%Z.
  Proof. vm_compute. repeat split. Qed.

  (** the premise matters: a step that caches in a static (stores to a non-init-once static) does not respect
      the classification, and with it another context's result changes *)
  Definition caching (i : nat) (k : Z) : step (list Z) :=
    mk_step i (fun s c => (Some ((s 2%nat + k)%Z :: nil), [(2%nat, k)])).
  Example caching_interferes :
    cx (run [caching 1 5; caching 2 1] w0) 2 <> cx (run (steps_of 2 [caching 1 5; caching 2 1]) w0) 2.
  Proof. vm_compute. discriminate. Qed.
  Example caching_not_respecting : ~ respects (list Z) cls initv (caching 1 5).
  Proof. intros [_ H]. destruct (H (fun _ => 0%Z) None 2 5%Z (or_introl eq_refl)) as [Hc _]. discriminate. Qed.
End Example.
