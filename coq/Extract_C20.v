From Coq Require Import ExtrOcamlBasic.
From ChibiV Require Import Common.ExtractBase C20.Re.
Extraction "model.ml" ext_base matchb searchb check_spans fold is_word cs_mem.
