From Coq Require Import ExtrOcamlBasic.
From ChibiV Require Import Common.ExtractBase C20.Re.
Extraction "model.ml" ext_base matchb searchb search_span has_nongreedy check_spans count_subs fold is_word cs_mem.
