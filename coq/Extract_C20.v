From Coq Require Import ExtrOcamlBasic.
From ChibiV Require Import Common.ExtractBase C20.Re C20.Nfa C20.NfaOrd C20.NfaSem.
Extraction "model.ml" ext_base matchb searchb search_span has_nongreedy left_anchored fold_spans check_spans count_subs fold is_word cs_mem anchor_ok expand_reps match_ge compile_top loop_tr loop_tr_ord result_of run nfa_spans to_sre wf_x ngs.
