(** C13 — independent contexts are isolated and can run in parallel OS threads: property theorems only.
    PARTIAL: these are theorems about the partition model (C13/Model.v) over the classification of the
    process-wide statics of the build; that each C function touches only what the disassembly scan attributes
    to it, and that the per-context state really is disjoint, is tied by the pthread/TSan harness, not proved. *)
From Coq Require Import String List ZArith Bool.
From ChibiV Require Import C13.Defs C13.Allowed C13.Model C13.Proofs C13.Inventory Gen.C13_Statics C13.Res C13.ResProofs.
Import ListNotations.

(** generated obligation: every writable object of every shared object of the current build is on the reviewed
    allow-list, stored to and address-leaked only by the functions its entry names *)
Theorem statics_all_classified :
  forallb (fun s => allowed allow_list s && writers_ok allow_list s) table = true.
Proof. exact Inventory.statics_all_classified. Qed.
Print Assumptions statics_all_classified.

Theorem statics_reviewed : forall s, In s table ->
  exists a, lookup allow_list s = Some a /\
            incl (s_writers s) (a_writers a) /\ incl (s_addr s) (a_addr a) /\
            (a_class a = Immutable -> s_writers s = []).
Proof. exact build_statics_reviewed. Qed.
Print Assumptions statics_reviewed.

Theorem relied_on_statics_written_only_by_init :
  forallb (fun s => match class_of allow_list s with
                    | Some c => negb (relied_on c) || incl_str (s_writers s) ["sexp_init"; "sexp_scheme_init"]%string
                    | None => false end) table = true.
Proof. exact Inventory.relied_on_statics_written_only_by_init. Qed.
Print Assumptions relied_on_statics_written_only_by_init.

Theorem no_anonymous_or_tls_data :
  forallb (fun s => negb (String.prefix "<anon>" (s_name s)) && negb (String.eqb (s_sec s) ".tdata") && negb (String.eqb (s_sec s) ".tbss")) table = true.
Proof. exact Inventory.no_anonymous_or_tls_data. Qed.
Print Assumptions no_anonymous_or_tls_data.

(** any number of contexts, any interleaving: context i ends where its own steps alone take it *)
Theorem noninterference : forall (Ctx : Type) (cls : sid -> class) (initv : sid -> Z)
    (pi : list (step Ctx)) (w : world Ctx) (i : nat),
  Forall (respects Ctx cls initv) pi -> initialised Ctx cls initv w ->
  cx (run pi w) i = cx (run (steps_of i pi) w) i.
Proof. exact Proofs.noninterference. Qed.
Print Assumptions noninterference.

Theorem noninterference_build : forall (Ctx : Type) (initv : sid -> Z) (pi : list (step Ctx)) (w : world Ctx) i,
  Forall (respects Ctx cls_build initv) pi -> initialised Ctx cls_build initv w ->
  cx (run pi w) i = cx (run (steps_of i pi) w) i.
Proof. exact Inventory.noninterference_build. Qed.
Print Assumptions noninterference_build.

Theorem schedule_independent : forall (Ctx : Type) (cls : sid -> class) (initv : sid -> Z)
    (pi1 pi2 : list (step Ctx)) (w : world Ctx) (i : nat),
  Forall (respects Ctx cls initv) pi1 -> Forall (respects Ctx cls initv) pi2 -> initialised Ctx cls initv w ->
  steps_of i pi1 = steps_of i pi2 -> cx (run pi1 w) i = cx (run pi2 w) i.
Proof. exact Proofs.schedule_independent. Qed.
Print Assumptions schedule_independent.

(** the process-wide statics are unchanged by any interleaving of respecting steps *)
Theorem shared_unchanged : forall (Ctx : Type) (cls : sid -> class) (initv : sid -> Z) (pi : list (step Ctx)) (w : world Ctx),
  Forall (respects Ctx cls initv) pi -> initialised Ctx cls initv w ->
  (forall x, sh (run pi w) x = sh w x) /\ initialised Ctx cls initv (run pi w).
Proof. exact Proofs.shared_unchanged. Qed.
Print Assumptions shared_unchanged.

(** steps of different contexts commute (no location two contexts could race on) *)
Theorem independent_steps_commute : forall (Ctx : Type) (cls : sid -> class) (initv : sid -> Z) (w : world Ctx) (s1 s2 : step Ctx),
  respects Ctx cls initv s1 -> respects Ctx cls initv s2 -> initialised Ctx cls initv w ->
  who s1 <> who s2 -> weq Ctx (run [s1; s2] w) (run [s2; s1] w).
Proof. exact Proofs.independent_steps_commute. Qed.
Print Assumptions independent_steps_commute.

Theorem destroy_is_local : forall (Ctx : Type) (cls : sid -> class) (initv : sid -> Z)
    (pi1 pi2 : list (step Ctx)) (w : world Ctx) (i j : nat),
  Forall (respects Ctx cls initv) pi1 -> Forall (respects Ctx cls initv) pi2 -> initialised Ctx cls initv w ->
  i <> j ->
  cx (run (pi1 ++ destroy j :: pi2) w) i = cx (run (pi1 ++ pi2) w) i /\
  cx (run (pi1 ++ [destroy j]) w) j = None.
Proof. exact Proofs.destroy_is_local. Qed.
Print Assumptions destroy_is_local.

Theorem init_idempotent : forall (Ctx : Type) (cls : sid -> class) (initv : sid -> Z) (i j : nat) (inits : list (sid * Z)) (w : world Ctx),
  inits_ok cls initv inits ->
  (forall x, cls x = InitOnce -> exists v, In (x, v) inits) ->
  NoDup (map fst inits) ->
  initialised Ctx cls initv (exec w (init_step i inits)) /\
  weq Ctx (exec (exec w (init_step i inits)) (init_step j inits)) (exec w (init_step i inits)).
Proof. exact Proofs.init_idempotent. Qed.
Print Assumptions init_idempotent.

(* ------------------------------------------------------------------ round 2 *)

(** per shared object of the build: static-free (C runtime objects only) or fully classified *)
Theorem every_library_static_free_or_classified : forall l, In l C13_Statics.libs ->
  (forall s, In s table -> s_lib s = l -> class_of allow_list s = Some Runtime) \/
  (forall s, In s table -> s_lib s = l ->
     exists a, lookup allow_list s = Some a /\ incl (s_writers s) (a_writers a) /\ incl (s_addr s) (a_addr a)).
Proof. exact Inventory.library_static_free_or_classified. Qed.
Print Assumptions every_library_static_free_or_classified.

(** process-wide OS resources (streams / descriptors / dlopen references), model C13/Res.v: the invariant
    (held => open, owned => private, imported => referenced, host streams open) holds after ANY sequence of
    creations, opens, imports, uses and destroys *)
Theorem resources_invariant : forall rel pi, RInv (rrun rel pi rw0).
Proof. exact (fun rel pi => rrun_inv rel pi rw0 rinv0). Qed.
Print Assumptions resources_invariant.

Theorem live_context_can_write : forall rel pi i c k r,
  rcx (rrun rel pi rw0) i = Some c -> nth_error (std c) k = Some r ->
  snd (rstep rel (rrun rel pi rw0) (RWrite i k)) = true.
Proof. exact ResProofs.live_context_can_write. Qed.
Print Assumptions live_context_can_write.

Theorem live_context_can_call : forall rel pi i c l,
  rcx (rrun rel pi rw0) i = Some c -> In l (Res.libs c) ->
  snd (rstep rel (rrun rel pi rw0) (RCall i l)) = true.
Proof. exact ResProofs.live_context_can_call. Qed.
Print Assumptions live_context_can_call.

Theorem host_streams_stay_open : forall rel pi r, r < 3 -> ropen (rrun rel pi rw0) r = true.
Proof. exact ResProofs.host_streams_stay_open. Qed.
Print Assumptions host_streams_stay_open.

(** destroy_is_local, strengthened to the process-wide resources: after any history, destroying j changes no
    other context, closes no resource another context holds, drops no library reference of another context,
    leaves the host's streams open; the only resources whose state changes are those j owned *)
Theorem destroy_is_local_resources : forall rel pi j cj,
  let w := rrun rel pi rw0 in
  let w' := fst (rstep rel w (RDestroy j)) in
  rcx w j = Some cj ->
  rcx w' j = None /\
  (forall i, i <> j -> rcx w' i = rcx w i) /\
  (forall i r b, i <> j -> held w i r b -> ropen w' r = true) /\
  (forall i l, i <> j -> In i (dlrefs w l) -> In i (dlrefs w' l)) /\
  (forall r, r < 3 -> ropen w' r = true) /\
  (forall r, ropen w' r <> ropen w r -> In (r, true) (holds cj)).
Proof. exact ResProofs.destroy_is_local_resources. Qed.
Print Assumptions destroy_is_local_resources.
