(** C13 — independent contexts are isolated and can run in parallel OS threads: property theorems only.
    PARTIAL: these are theorems about the partition model (C13/Model.v) over the classification of the
    process-wide statics of the build; that each C function touches only what the disassembly scan attributes
    to it, and that the per-context state really is disjoint, is tied by the pthread/TSan harness, not proved. *)
From Coq Require Import String List ZArith Bool.
From ChibiV Require Import C13.Defs C13.Allowed C13.Model C13.Proofs C13.Inventory Gen.C13_Statics C13.Res C13.ResProofs.
From ChibiV Require C13.Sig C13.SigProofs C13.Tab C13.TabProofs.
From ChibiV Require C13.Libc C13.AllowedLibc C13.LibcInventory Gen.C13_Imports.
From ChibiV Require C13.Ns C13.NsProofs.
Import ListNotations.

(** generated obligation: every writable object of every shared object of the current build is on the reviewed
    allow-list, stored to and address-leaked only by the functions its entry names *)
Theorem statics_all_classified :
  forallb (fun s => allowed allow_list s && writers_ok allow_list s) table = true.
Proof. exact Inventory.statics_all_classified. Qed.
Print Assumptions statics_all_classified.

Theorem statics_reviewed : forall s, In s table ->
  exists a, lookup allow_list s = Some a /\
            incl (s_writers s) (a_writers a) /\ incl (s_addr s) (a_addr a) /\
            (a_class a = Immutable -> s_writers s = []).
Proof. exact build_statics_reviewed. Qed.
Print Assumptions statics_reviewed.

Theorem relied_on_statics_written_only_by_init :
  forallb (fun s => match class_of allow_list s with
                    | Some c => negb (relied_on c) || incl_str (s_writers s) ["sexp_init"; "sexp_scheme_init"]%string
                    | None => false end) table = true.
Proof. exact Inventory.relied_on_statics_written_only_by_init. Qed.
Print Assumptions relied_on_statics_written_only_by_init.

Theorem no_anonymous_or_tls_data :
  forallb (fun s => negb (String.prefix "<anon>" (s_name s)) && negb (String.eqb (s_sec s) ".tdata") && negb (String.eqb (s_sec s) ".tbss")) table = true.
Proof. exact Inventory.no_anonymous_or_tls_data. Qed.
Print Assumptions no_anonymous_or_tls_data.

(** any number of contexts, any interleaving: context i ends where its own steps alone take it *)
Theorem noninterference : forall (Ctx : Type) (cls : sid -> class) (initv : sid -> Z)
    (pi : list (step Ctx)) (w : world Ctx) (i : nat),
  Forall (respects Ctx cls initv) pi -> initialised Ctx cls initv w ->
  cx (run pi w) i = cx (run (steps_of i pi) w) i.
Proof. exact Proofs.noninterference. Qed.
Print Assumptions noninterference.

Theorem noninterference_build : forall (Ctx : Type) (initv : sid -> Z) (pi : list (step Ctx)) (w : world Ctx) i,
  Forall (respects Ctx cls_build initv) pi -> initialised Ctx cls_build initv w ->
  cx (run pi w) i = cx (run (steps_of i pi) w) i.
Proof. exact Inventory.noninterference_build. Qed.
Print Assumptions noninterference_build.

Theorem schedule_independent : forall (Ctx : Type) (cls : sid -> class) (initv : sid -> Z)
    (pi1 pi2 : list (step Ctx)) (w : world Ctx) (i : nat),
  Forall (respects Ctx cls initv) pi1 -> Forall (respects Ctx cls initv) pi2 -> initialised Ctx cls initv w ->
  steps_of i pi1 = steps_of i pi2 -> cx (run pi1 w) i = cx (run pi2 w) i.
Proof. exact Proofs.schedule_independent. Qed.
Print Assumptions schedule_independent.

(** the process-wide statics are unchanged by any interleaving of respecting steps *)
Theorem shared_unchanged : forall (Ctx : Type) (cls : sid -> class) (initv : sid -> Z) (pi : list (step Ctx)) (w : world Ctx),
  Forall (respects Ctx cls initv) pi -> initialised Ctx cls initv w ->
  (forall x, sh (run pi w) x = sh w x) /\ initialised Ctx cls initv (run pi w).
Proof. exact Proofs.shared_unchanged. Qed.
Print Assumptions shared_unchanged.

(** steps of different contexts commute (no location two contexts could race on) *)
Theorem independent_steps_commute : forall (Ctx : Type) (cls : sid -> class) (initv : sid -> Z) (w : world Ctx) (s1 s2 : step Ctx),
  respects Ctx cls initv s1 -> respects Ctx cls initv s2 -> initialised Ctx cls initv w ->
  who s1 <> who s2 -> weq Ctx (run [s1; s2] w) (run [s2; s1] w).
Proof. exact Proofs.independent_steps_commute. Qed.
Print Assumptions independent_steps_commute.

Theorem destroy_is_local : forall (Ctx : Type) (cls : sid -> class) (initv : sid -> Z)
    (pi1 pi2 : list (step Ctx)) (w : world Ctx) (i j : nat),
  Forall (respects Ctx cls initv) pi1 -> Forall (respects Ctx cls initv) pi2 -> initialised Ctx cls initv w ->
  i <> j ->
  cx (run (pi1 ++ destroy j :: pi2) w) i = cx (run (pi1 ++ pi2) w) i /\
  cx (run (pi1 ++ [destroy j]) w) j = None.
Proof. exact Proofs.destroy_is_local. Qed.
Print Assumptions destroy_is_local.

Theorem init_idempotent : forall (Ctx : Type) (cls : sid -> class) (initv : sid -> Z) (i j : nat) (inits : list (sid * Z)) (w : world Ctx),
  inits_ok cls initv inits ->
  (forall x, cls x = InitOnce -> exists v, In (x, v) inits) ->
  NoDup (map fst inits) ->
  initialised Ctx cls initv (exec w (init_step i inits)) /\
  weq Ctx (exec (exec w (init_step i inits)) (init_step j inits)) (exec w (init_step i inits)).
Proof. exact Proofs.init_idempotent. Qed.
Print Assumptions init_idempotent.

(* ------------------------------------------------------------------ round 2 *)

(** per shared object of the build: static-free (C runtime objects only) or fully classified *)
Theorem every_library_static_free_or_classified : forall l, In l C13_Statics.libs ->
  (forall s, In s table -> s_lib s = l -> class_of allow_list s = Some Runtime) \/
  (forall s, In s table -> s_lib s = l ->
     exists a, lookup allow_list s = Some a /\ incl (s_writers s) (a_writers a) /\ incl (s_addr s) (a_addr a)).
Proof. exact Inventory.library_static_free_or_classified. Qed.
Print Assumptions every_library_static_free_or_classified.

(** process-wide OS resources (streams / descriptors / dlopen references), model C13/Res.v: the invariant
    (held => open, owned => private, imported => referenced, host streams open) holds after ANY sequence of
    creations, opens, imports, uses and destroys *)
Theorem resources_invariant : forall rel pi, RInv (rrun rel pi rw0).
Proof. exact (fun rel pi => rrun_inv rel pi rw0 rinv0). Qed.
Print Assumptions resources_invariant.

Theorem live_context_can_write : forall rel pi i c k r,
  rcx (rrun rel pi rw0) i = Some c -> nth_error (std c) k = Some r ->
  snd (rstep rel (rrun rel pi rw0) (RWrite i k)) = true.
Proof. exact ResProofs.live_context_can_write. Qed.
Print Assumptions live_context_can_write.

Theorem live_context_can_call : forall rel pi i c l,
  rcx (rrun rel pi rw0) i = Some c -> In l (Res.libs c) ->
  snd (rstep rel (rrun rel pi rw0) (RCall i l)) = true.
Proof. exact ResProofs.live_context_can_call. Qed.
Print Assumptions live_context_can_call.

Theorem host_streams_stay_open : forall rel pi r, r < 3 -> ropen (rrun rel pi rw0) r = true.
Proof. exact ResProofs.host_streams_stay_open. Qed.
Print Assumptions host_streams_stay_open.

(** destroy_is_local, strengthened to the process-wide resources: after any history, destroying j changes no
    other context, closes no resource another context holds, drops no library reference of another context,
    leaves the host's streams open; the only resources whose state changes are those j owned *)
Theorem destroy_is_local_resources : forall rel pi j cj,
  let w := rrun rel pi rw0 in
  let w' := fst (rstep rel w (RDestroy j)) in
  rcx w j = Some cj ->
  rcx w' j = None /\
  (forall i, i <> j -> rcx w' i = rcx w i) /\
  (forall i r b, i <> j -> held w i r b -> ropen w' r = true) /\
  (forall i l, i <> j -> In i (dlrefs w l) -> In i (dlrefs w' l)) /\
  (forall r, r < 3 -> ropen w' r = true) /\
  (forall r, ropen w' r <> ropen w r -> In (r, true) (holds cj)).
Proof. exact ResProofs.destroy_is_local_resources. Qed.
Print Assumptions destroy_is_local_resources.

(* ------------------------------------------------------------------ round 3: per-context tables (model C13/Tab.v) *)
Module T.
Import C13.Tab C13.TabProofs.

(** after ANY interleaving of creations, type registrations, symbol internings, global definitions, library loads and
    destroys of ANY number of parent-less contexts: the heaps of distinct live contexts share no address, and every
    pointer stored in a context's tables (globals vector, symbol table + buckets + symbols, type array, type objects,
    their names and class-precedence vectors and the entries of those, environment cells, module entries) designates
    an object of that same context's heaps; cpl entries are types of the same table; no symbol is interned twice *)
Theorem tables_invariant : forall ncore pi, 0 < ncore -> TInv (trun ncore pi tw0).
Proof. exact TabProofs.tables_invariant. Qed.
Print Assumptions tables_invariant.

Theorem table_op_is_local : forall ncore w o j, j <> who o -> tcx (fst (tstep ncore w o)) j = tcx w j.
Proof. exact TabProofs.op_is_local. Qed.
Print Assumptions table_op_is_local.

(** registering a type in i changes no table of j; the id is the length of i's OWN table (ids are per context) *)
Theorem register_type_local : forall ncore w i nm p c, tcx w i = Some c ->
  let w' := fst (tstep ncore w (TReg i nm p)) in
  snd (tstep ncore w (TReg i nm p)) = XId (length (types c)) /\
  (forall j, j <> i -> tcx w' j = tcx w j) /\
  exists c', tcx w' i = Some c' /\ length (types c') = S (length (types c)) /\
    (exists t, nth_error (types c') (length (types c)) = Some t /\ ty_name t = nm) /\
    (forall n, n < length (types c) -> nth_error (types c') n = nth_error (types c) n).
Proof. exact TabProofs.register_type_local. Qed.
Print Assumptions register_type_local.

(** the fact that makes a process-wide cache of a type id wrong: the same C type can have different ids in two contexts *)
Theorem same_type_different_ids : forall ncore, 0 < ncore ->
  exists pi i j nm ci cj ni nj ti tj, i <> j /\
    tcx (trun ncore pi tw0) i = Some ci /\ tcx (trun ncore pi tw0) j = Some cj /\
    nth_error (types ci) ni = Some ti /\ nth_error (types cj) nj = Some tj /\
    ty_name ti = nm /\ ty_name tj = nm /\ ni <> nj.
Proof. exact TabProofs.same_type_different_ids. Qed.
Print Assumptions same_type_different_ids.

Theorem intern_local : forall ncore w i s c, TInv w -> tcx w i = Some c ->
  let w' := fst (tstep ncore w (TIntern i s)) in
  (forall j, j <> i -> tcx w' j = tcx w j) /\
  exists c' y, tcx w' i = Some c' /\ find_sym s (syms c') = Some y /\ sy_bucket y = bucket_of s /\
    owns c' (sy_addr y) /\
    (forall j cj, j <> i -> tcx w' j = Some cj -> ~ owns cj (sy_addr y)) /\
    snd (tstep ncore w (TIntern i s)) =
      XSym (bucket_of s) (match find_sym s (syms c) with Some _ => false | None => true end) /\
    (forall y0, find_sym s (syms c) = Some y0 ->
       w' = mk_tworld (brk w) (tupd (tcx w) i (Some c)) /\ c' = c /\ y = y0).
Proof. exact TabProofs.intern_local. Qed.
Print Assumptions intern_local.

(** destroy_leaves_others_intact, extended to the tables: the survivors' records are unchanged, the invariant still
    holds, and no table pointer of a survivor designates memory of the destroyed context *)
Theorem destroy_leaves_others_intact_tables : forall ncore w j cj, TInv w -> tcx w j = Some cj ->
  let w' := fst (tstep ncore w (TDestroy j)) in
  tcx w' j = None /\ (forall i, i <> j -> tcx w' i = tcx w i) /\ TInv w' /\
  (forall i ci a, i <> j -> tcx w i = Some ci -> In a (ptrs ci) -> owns ci a /\ ~ owns cj a).
Proof. exact TabProofs.destroy_leaves_others_intact_tables. Qed.
Print Assumptions destroy_leaves_others_intact_tables.

(** up to addresses, the tables of context i after ANY interleaving are what i's own operations alone produce, and the
    results i sees (type ids, buckets, lookups) are the same: what the harness compares (context in company == context alone) *)
Theorem tables_noninterference : forall ncore pi i,
  option_map proj (tcx (trun ncore pi tw0) i) = option_map proj (tcx (trun ncore (own_ops i pi) tw0) i).
Proof. exact TabProofs.tables_noninterference. Qed.
Print Assumptions tables_noninterference.

Theorem table_results_noninterference : forall ncore pi i,
  tresults ncore i pi tw0 = tresults ncore i (own_ops i pi) tw0.
Proof. exact TabProofs.results_noninterference. Qed.
Print Assumptions table_results_noninterference.
End T.

(* ------------------------------------------------------------------ round 3: signal delivery (model C13/Sig.v) *)
Module S.
Import C13.Sig C13.SigProofs.

Theorem signals_invariant : forall pi, SInv (srun pi sw0).
Proof. exact SigProofs.signals_invariant. Qed.
Print Assumptions signals_invariant.

(** after ANY history: raise a signal whose registering context lives, let that context run: its handler ran, and no
    other context, route or disposition changed *)
Theorem signal_reaches_registrant : forall pi s i c,
  let w := srun pi sw0 in
  sdisp w s = DHandler -> sroute w s = Some i -> scx w i = Some c ->
  let w1 := fst (sstep w (SRaise s)) in
  let w2 := fst (sstep w1 (SRun i)) in
  snd (sstep w (SRaise s)) = true /\
  (forall j, j <> i -> scx w2 j = scx w j) /\
  (forall s', sroute w2 s' = sroute w s' /\ sdisp w2 s' = sdisp w s') /\
  exists c2 pre, scx w2 i = Some c2 /\ pending c2 = [] /\ handlers c2 = handlers c /\ got c2 = pre ++ got c /\ In s pre.
Proof. exact SigProofs.signal_reaches_registrant. Qed.
Print Assumptions signal_reaches_registrant.

(** the documented limitation, precisely: registering s in j re-routes s to j; different signals are independent *)
Theorem install_reroutes_only_that_signal : forall w j s cj,
  scx w j = Some cj ->
  let w' := fst (sstep w (SInstall j s)) in
  sroute w' s = Some j /\ sdisp w' s = DHandler /\
  (forall s', s' <> s -> sroute w' s' = sroute w s' /\ sdisp w' s' = sdisp w s') /\
  (forall i, i <> j -> scx w' i = scx w i).
Proof. exact SigProofs.install_reroutes_only_that_signal. Qed.
Print Assumptions install_reroutes_only_that_signal.

Theorem raise_touches_only_routed : forall w s j,
  sroute w s <> Some j ->
  let w' := fst (sstep w (SRaise s)) in
  scx w' j = scx w j /\ (forall s', sroute w' s' = sroute w s' /\ sdisp w' s' = sdisp w s').
Proof. exact SigProofs.raise_touches_only_routed. Qed.
Print Assumptions raise_touches_only_routed.

(** over scenario histories: whatever signal shows up in a context (handler log, pending mask, handler vector), that
    context installed a handler for it itself earlier in the history *)
Theorem only_own_signals_observed : forall pi i c s,
  scx (srun pi sw0) i = Some c -> In s (got c) \/ In s (pending c) \/ In s (handlers c) -> In (SInstall i s) pi.
Proof. exact SigProofs.only_own_signals_observed. Qed.
Print Assumptions only_own_signals_observed.
End S.


(** round 4: state shared OUTSIDE chibi's objects -- inside the C library and through file-system names.
    [imports] = undefined dynamic symbols of every shared object of THIS build with the functions that reference them,
    [sites] = file-creation sites of the Scheme libraries (both regenerated on every run); [mt_unsafe] = glibc attributes(7)
    "MT-Unsafe" / POSIX 2.9.1 / hidden-state table (C13/Libc.v), [import_allow] / [site_allow] = reviewed entries. *)
Module L.
Import C13.Libc C13.AllowedLibc C13.LibcInventory Gen.C13_Imports.
Local Open Scope string_scope.

(** generated obligation *)
Theorem imports_all_classified : forallb (check_import mt_unsafe import_allow) imports = true.
Proof. exact LibcInventory.imports_all_classified. Qed.
Print Assumptions imports_all_classified.

(** every import of a listed function, by any shared object of the build, has a reviewed entry for that shared object; it is
    referenced only by the functions the entry names, and the excuse fits the kind of sharing the function introduces *)
Theorem unsafe_imports_reviewed : forall i u, In i imports -> In u mt_unsafe -> u_name u = i_sym i ->
  exists v a, In v mt_unsafe /\ u_name v = i_sym i /\ In a import_allow /\ ia_lib a = i_lib i /\ ia_sym a = i_sym i /\
              i_callers i <> [] /\ incl (i_callers i) (ia_callers a) /\ excuse_fits (u_hazard v) (ia_excuse a) = true.
Proof. exact LibcInventory.unsafe_imports_reviewed. Qed.
Print Assumptions unsafe_imports_reviewed.

(** calls whose result / working state is static storage inside libc are excused only as "storage owned by one context's
    object" or "per-thread in the supported libc", never as a documented process attribute *)
Theorem static_storage_calls_owned_or_per_thread :
  forallb (fun i => negb (static_storage (i_sym i)) ||
                    match find_iallow import_allow (i_lib i) (i_sym i) with
                    | Some a => match ia_excuse a with PerObject | SafeHere => true | _ => false end
                    | None => false end) imports = true.
Proof. exact LibcInventory.static_storage_calls_owned_or_per_thread. Qed.
Print Assumptions static_storage_calls_owned_or_per_thread.

(** ctime asctime localtime gmtime getpwnam getpwuid getgrnam getgrgid strtok rand srand random drand48 lgamma gethostbyname
    inet_ntoa tmpnam ttyname getlogin crypt setlocale: imported by NO shared object of the build *)
Theorem no_classic_static_buffer_function_imported : forall i, In i imports -> ~ In (i_sym i) classic_static.
Proof. exact LibcInventory.no_classic_static_buffer_function_imported_prop. Qed.
Print Assumptions no_classic_static_buffer_function_imported.

(** generated obligation: creation sites of the Scheme libraries *)
Theorem creation_sites_atomic_or_reviewed : forallb (check_site site_allow) sites = true.
Proof. exact LibcInventory.creation_sites_atomic_or_reviewed. Qed.
Print Assumptions creation_sites_atomic_or_reviewed.

(** a file created under a name derived from process id / clock / random numbers (the same in every context of the process)
    is created with open/exclusive *)
Theorem generated_names_created_atomically : forall s, In s sites -> st_kind s = "open-flags" -> st_generated s = true ->
  In "open/exclusive" (st_flags s).
Proof. exact LibcInventory.generated_names_created_atomically. Qed.
Print Assumptions generated_names_created_atomically.
End L.


(** round 4: the name space shared through the file system -- the candidate-name loop of lib/chibi/temp-file.scm (model C13/Ns.v:
    one step = one system call of one context; candidates base++i are the same in every context of the process) *)
Module N.
Import C13.Ns C13.NsProofs.

(** any number of contexts, same template, same second, ANY interleaving of their system calls: with atomic creation
    (open/create|open/exclusive, mkdir) no two contexts ever hold the same temporary file -- for the pinned retry logic and the repaired one *)
Theorem exclusive_creation_unique_owner : forall rt pi c c' i,
  holds (run Exclusive rt pi w0) c i -> holds (run Exclusive rt pi w0) c' i -> c = c'.
Proof. exact NsProofs.exclusive_creation_unique_owner. Qed.
Print Assumptions exclusive_creation_unique_owner.

Theorem held_file_exists : forall rt pi c i, holds (run Exclusive rt pi w0) c i -> In i (fs (run Exclusive rt pi w0)).
Proof. exact NsProofs.held_file_exists. Qed.
Print Assumptions held_file_exists.

(** the repaired retry logic (fixes/C13-temp-file-lost-race-raises.patch) never raises because of what other contexts do *)
Theorem repaired_never_raises : forall cr pi c, ph (run cr Fixed pi w0) c <> Raised.
Proof. exact NsProofs.repaired_never_raises. Qed.
Print Assumptions repaired_never_raises.

(** refuted: the pinned retry logic raises in the context that lost the race (8 system calls of 2 contexts) *)
Theorem pinned_retry_raises_refuted : ph (run Exclusive Orig [0; 1; 0; 1; 0; 1; 0; 1] w0) 1 = Raised.
Proof. exact NsProofs.pinned_retry_raises_refuted. Qed.
Print Assumptions pinned_retry_raises_refuted.

(** refuted: without open/exclusive (the seeded change) two contexts hold the same file after 6 system calls *)
Theorem truncate_shares_a_file_refuted :
  let w := run Truncate Fixed [0; 1; 0; 1; 0; 1] w0 in ph w 0 = Holding 0 /\ ph w 1 = Holding 0.
Proof. exact NsProofs.truncate_shares_a_file. Qed.
Print Assumptions truncate_shares_a_file_refuted.
End N.
