From Coq Require Import ExtrOcamlBasic.
From ChibiV Require Import Common.ExtractBase C02.Model.
Extraction "model.ml" ext_base mark gc sweep marked_addrs heap_of_list heap_ok ptr_ok layout_of slots_of hfind mkspec mklayout mkobj.
