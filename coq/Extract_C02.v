From Coq Require Import ExtrOcamlBasic.
From ChibiV Require Import Common.ExtractBase C02.Model.
From ChibiV Require C02.GcMacros Gen.C02_GcMacros C02.Preserve.
Extraction "model.ml" ext_base mark gc sweep marked_addrs heap_of_list heap_ok ptr_ok layout_of slots_of hfind mkspec mklayout mkobj Gen.C02_GcMacros.gc_macro_report C02.Preserve.run_ops.
