From Coq Require Import ExtrOcamlBasic.
From ChibiV Require Import Common.ExtractBase C19.Prims C19.Base64 C19.Base64Stream C19.IntCodec C19.Json C19.JsonNum C19.QP C19.Uri C19.Csv C19.Half Gen.C19_HalfFns.
Extraction "model.ml" ext_base b64_encode b64_decode b64_stream_decode b64_stream_encode b64_header encode_int decode_int bv_ref bv_set json_read jwrite utf8_val qp_loop MAXCOL SEP qp_encode qp_decode qp_dec uri_encode uri_dec
  csv_write csv_read gen_half_to_double gen_double_to_half quarter_to_double double_to_quarter isnan64 num_accept.
