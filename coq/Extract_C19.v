From Coq Require Import ExtrOcamlBasic.
From ChibiV Require Import Common.ExtractBase C19.Prims C19.Base64 C19.IntCodec C19.Json.
Extraction "model.ml" ext_base b64_encode b64_decode encode_int decode_int bv_ref bv_set json_read jwrite utf8_val.
