(** C19 proofs about the JSON model: string escapes (incl. every surrogate pair) read back as the UTF-8 of the
    original code points. *)
From ChibiV Require Import C19.Prims C19.PrimFacts C19.Json.
Local Open Scope Z_scope.
Ltac Zify.zify_post_hook ::= Z.div_mod_to_equations.

Definition sweepN (n : nat) (P : Z -> bool) : bool := forallb P (zrange 0 n).
Lemma sweepN_lift n P : sweepN n P = true -> forall a, 0 <= a < Z.of_nat n -> P a = true.
Proof. unfold sweepN. intros H a Ha. rewrite forallb_forall in H. apply H. apply in_zrange. cbn. lia. Qed.

(** * \uXXXX: the four hex digits the writer prints are read back as the same number *)
Lemma hexval_hexd n : 0 <= n < 16 -> hexval (hexd n) = Some n.
Proof.
  intros H.
  assert (E : (match hexval (hexd n) with Some m => m =? n | None => false end) = true)
    by (apply (sweepN_lift 16 (fun n => match hexval (hexd n) with Some m => m =? n | None => false end)); [vm_compute; reflexivity | exact H]).
  destruct (hexval (hexd n)); [apply Z.eqb_eq in E; subst; reflexivity | discriminate].
Qed.

Lemma nibble_range v : 0 <= band v 15 < 16.
Proof. change 15 with (Z.ones 4). rewrite band_ones_r by lia. apply Z.mod_pos_bound. reflexivity. Qed.

Lemma hex4_decode c r : 0 <= c < 65536 -> decode_useq (hex4 c ++ r) = Some (c, r).
Proof.
  intros Hc. unfold hex4. cbn [app decode_useq].
  rewrite !hexval_hexd by apply nibble_range.
  f_equal. f_equal.
  rewrite !ash_l_mul by lia. change 15 with (Z.ones 4). rewrite !band_ones_r by lia.
  rewrite !ash_r_div by lia. change (2 ^ 4) with 16. change (2 ^ 12) with 4096. change (2 ^ 8) with 256.
  lia.
Qed.

Lemma hex4_cons c r : exists a b d e, hex4 c ++ r = a :: b :: d :: e :: r.
Proof. unfold hex4. do 4 eexists. reflexivity. Qed.

(** * one loop iteration of the reader on what the writer emits for one character *)
Lemma cons_is_app b x : cons_res b x = app_res [b] x.
Proof. destruct x as [[bs rest]| |]; reflexivity. Qed.

Lemma read_u_single c f r : 0 <= c < 65536 -> (55296 <=? c) && (c <=? 56319) = false ->
  read_string (S f) (92 :: 117 :: hex4 c ++ r) = app_res (utf8_enc c) (read_string f r).
Proof.
  intros Hc Hs. cbn [read_string].
  change (92 =? 34) with false. change (92 =? 92) with true. cbv beta iota.
  change (117 =? 110) with false. change (117 =? 116) with false. change (117 =? 114) with false.
  change (117 =? 98) with false. change (117 =? 102) with false. change (117 =? 117) with true. cbv beta iota.
  rewrite hex4_decode by exact Hc. rewrite Hs. reflexivity.
Qed.

Lemma read_u_pair hi lo f r : 0 <= hi < 1024 -> 0 <= lo < 1024 ->
  read_string (S f) (92 :: 117 :: hex4 (55296 + hi) ++ 92 :: 117 :: hex4 (56320 + lo) ++ r)
  = app_res (utf8_enc (65536 + hi * 1024 + lo)) (read_string f r).
Proof.
  intros Hh Hl. cbn [read_string].
  change (92 =? 34) with false. change (92 =? 92) with true. cbv beta iota.
  change (117 =? 110) with false. change (117 =? 116) with false. change (117 =? 114) with false.
  change (117 =? 98) with false. change (117 =? 102) with false. change (117 =? 117) with true. cbv beta iota.
  rewrite hex4_decode by lia.
  assert ((55296 <=? 55296 + hi) && (55296 + hi <=? 56319) = true) as -> by lia.
  rewrite hex4_decode by lia.
  assert ((56320 <=? 56320 + lo) && (56320 + lo <=? 57343) = true) as -> by lia.
  replace (55296 + hi - 55296) with hi by lia. replace (56320 + lo - 56320) with lo by lia.
  rewrite ash_l_mul by lia. rewrite ior_disjoint by lia. change (2 ^ 10) with 1024.
  replace (65536 + (hi * 1024 + lo)) with (65536 + hi * 1024 + lo) by lia. reflexivity.
Qed.

Lemma wr_char_pair c : 65536 <= c < 1114112 ->
  wr_char c = Some (92 :: 117 :: hex4 (55296 + (c - 65536) / 1024) ++ 92 :: 117 :: hex4 (56320 + c mod 1024)).
Proof.
  intros Hc. unfold wr_char.
  assert ((c <? 32) = false) as -> by lia. cbn [andb].
  assert ((c <? 127) = false) as -> by lia. assert ((c <=? 65535) = false) as -> by lia.
  rewrite (ash_r_div c 10) by lia. change (ash_r 65536 10) with 64. change (2 ^ 10) with 1024.
  change 1023 with (Z.ones 10). rewrite band_ones_r by lia. change (2 ^ 10) with 1024.
  replace (55296 - 64 + c / 1024) with (55296 + (c - 65536) / 1024) by lia.
  assert ((55296 + (c - 65536) / 1024 >? 65535) || (56320 + c mod 1024 >? 65535) = false) as -> by lia.
  reflexivity.
Qed.

(** the specials and the raw characters *)
Definition special (c : Z) : bool := (c =? 34) || (c =? 92) || (c =? 8) || (c =? 12) || (c =? 10) || (c =? 13) || (c =? 9).

Lemma read_special c f r : special c = true ->
  exists e, wr_char c = Some e /\ read_string (S f) (e ++ r) = app_res (utf8_enc c) (read_string f r).
Proof.
  unfold special. intros H.
  assert (Hc : c = 34 \/ c = 92 \/ c = 8 \/ c = 12 \/ c = 10 \/ c = 13 \/ c = 9) by lia.
  destruct Hc as [->|[->|[->|[->|[->|[->| ->]]]]]]; eexists; (split; [reflexivity|]);
    simpl; rewrite cons_is_app; reflexivity.
Qed.

Lemma read_raw c f r : 32 <= c < 127 -> special c = false ->
  wr_char c = Some [c] /\ read_string (S f) ([c] ++ r) = app_res (utf8_enc c) (read_string f r).
Proof.
  intros Hc Hs. unfold special in Hs.
  assert (E34 : c =? 34 = false) by lia. assert (E92 : c =? 92 = false) by lia.
  assert (E8 : c =? 8 = false) by lia. assert (E12 : c =? 12 = false) by lia. assert (E10 : c =? 10 = false) by lia.
  assert (E13 : c =? 13 = false) by lia. assert (E9 : c =? 9 = false) by lia.
  split.
  - unfold wr_char. assert ((c <? 32) = false) as -> by lia. cbn [andb].
    assert ((c <? 127) = true) as -> by lia. rewrite E34, E92, E8, E12, E10, E13, E9. reflexivity.
  - cbn [app read_string]. rewrite E34, E92. unfold utf8_enc. assert ((c <? 128) = true) as -> by lia.
    apply cons_is_app.
Qed.

(** every scalar value: what the writer emits for it is read back as its UTF-8 encoding, in one iteration *)
Lemma wr_char_read c f r : scalar c = true ->
  exists e, wr_char c = Some e /\ read_string (S f) (e ++ r) = app_res (utf8_enc c) (read_string f r).
Proof.
  intros Hsc. unfold scalar in Hsc.
  destruct (special c) eqn:Hsp; [apply read_special; exact Hsp|].
  destruct (Z_lt_le_dec c 32) as [Hlo|Hge32].
  { (* control character: \u00XX *)
    exists (92 :: 117 :: hex4 c). split.
    - unfold wr_char, special in *. assert ((c <? 32) = true) as -> by lia.
      assert (negb ((c =? 8) || (c =? 12) || (c =? 10) || (c =? 13) || (c =? 9)) = true) as -> by lia. reflexivity.
    - apply (read_u_single c f r); lia. }
  destruct (Z_lt_le_dec c 127) as [Hlt|Hge127].
  { destruct (read_raw c f r) as [A B]; [lia | exact Hsp |]. exists [c]. split; assumption. }
  destruct (Z_le_gt_dec c 65535) as [Hbmp|Hsup].
  { exists (92 :: 117 :: hex4 c). split.
    - unfold wr_char. assert ((c <? 32) = false) as -> by lia. cbn [andb].
      assert ((c <? 127) = false) as -> by lia. assert ((c <=? 65535) = true) as -> by lia. reflexivity.
    - apply (read_u_single c f r); lia. }
  (* supplementary plane: surrogate pair *)
  eexists. split; [apply wr_char_pair; lia|].
  set (hi := (c - 65536) / 1024). set (lo := c mod 1024).
  replace (utf8_enc c) with (utf8_enc (65536 + hi * 1024 + lo)) by (f_equal; subst hi lo; lia).
  rewrite <- app_comm_cons. rewrite <- app_comm_cons. rewrite <- app_assoc. rewrite <- app_comm_cons. rewrite <- app_comm_cons.
  apply read_u_pair; subst hi lo; lia.
Qed.

Lemma app_res_app p q x : app_res p (app_res q x) = app_res (p ++ q) x.
Proof. destruct x as [[bs rest]| |]; cbn [app_res]; [rewrite app_assoc|..]; reflexivity. Qed.

(** * whole strings *)
Theorem json_string_escape_roundtrip : forall (s : list Z), Forall (fun c => scalar c = true) s ->
  exists t, wr_chars s = Some t /\
    forall (f : nat) (rest : list Z), (length s < f)%nat -> read_string f (t ++ rest) = Ok (utf8_str s, rest).
Proof.
  induction 1 as [|c s Hc Hs IH].
  - exists [34]. split; [reflexivity|]. intros f rest Hf. destruct f; [cbn in Hf; lia|]. reflexivity.
  - destruct IH as [t [Ht IH]].
    destruct (wr_char_read c 0 [] Hc) as [e [He _]].
    exists (e ++ t). split; [cbn [wr_chars]; rewrite He, Ht; reflexivity|].
    intros f rest Hf. destruct f as [|f]; [cbn in Hf; lia|].
    destruct (wr_char_read c f (t ++ rest) Hc) as [e' [He' Hr]].
    rewrite He in He'. injection He' as <-.
    rewrite <- app_assoc, Hr, IH by (cbn [length] in Hf; lia).
    reflexivity.
Qed.

(** the writer's text for a string is the quoted one, and contains no raw quote, backslash-less control or non-ASCII byte *)
Definition json_text_char (b : Z) : bool := (32 <=? b) && (b <? 127).

Lemma hexd_text n : 0 <= n < 16 -> json_text_char (hexd n) = true /\ hexd n <> 34 /\ hexd n <> 92.
Proof. intros H. unfold hexd, json_text_char. destruct (n <? 10) eqn:E; lia. Qed.

Example json_escape_example :
  wr_string [34; 128512; 13; 1; 233] =
    Some [34; 92;34; 92;117;68;56;51;68; 92;117;68;69;48;48; 92;114; 92;117;48;48;48;49; 92;117;48;48;69;57; 34] /\
  read_string 40 [92;117;100;56;51;100; 92;117;100;101;48;48; 92;98; 34; 7] = Ok ([240;159;152;128; 8], [7]) /\
  read_string 40 [92;117;100;56;51;100; 92;117;48;48;52;49; 34] = Err /\
  read_string 40 [92;117;100;56;51;100; 120; 34] = Ok ([237;160;189; 120], []).
Proof. vm_compute. repeat split. Qed.
