(** C19 model of lib/chibi/quoted-printable.scm.  Executable; no proofs here.
    Encoder = REPAIRED code (fixes/C19-qp-soft-line-breaks.patch: the separator is written at every line
    flush; fixes/C19-qp-start-col.patch: the first line is copied from start-col, not from 0).
    Decoder = pinned code, including its two ways of falling off a [cond] (result #<undef>, here [None]). *)
From ChibiV Require Export C19.Prims.
Local Open Scope Z_scope.

Definition MAXCOL : Z := 76.                       (* *default-max-col* *)
Definition SEP : list Z := [61; 13; 10].           (* (string->utf8 "=\r\n") *)

(** (hex i) of qp-encode, quoted-printable.scm:22 *)
Definition qhex (i : Z) : Z := i + (if i <=? 9 then 48 else 55).

(** (and (<= 33 c 126) (not (memq c '(61 63 95)))) *)
Definition qp_literal (c : Z) : bool := (33 <=? c) && (c <=? 126) && negb ((c =? 61) || (c =? 63) || (c =? 95)).

(** qp-encode (quoted-printable.scm:21-44) as a stream: the code fills buf[0..col) and flushes it (followed by
    the separator) when col >= max-col - 3 and input remains; the bytes leave in the same order as here.
    [col] is the code's column counter.  (The test (= i end) comes first, so no separator follows the last line.) *)
Fixpoint qp_loop (maxcol : Z) (sep : list Z) (bs : list Z) (col : Z) : list Z :=
  match bs with
  | [] => []
  | c :: r =>
      let brk := if col >=? maxcol - 3 then sep else [] in
      let col0 := if col >=? maxcol - 3 then 0 else col in
      if qp_literal c then brk ++ c :: qp_loop maxcol sep r (col0 + 1)
      else brk ++ 61 :: qhex (ash_r c 4) :: qhex (band c 15) :: qp_loop maxcol sep r (col0 + 3)
  end.

Definition qp_encode (bs : list Z) : list Z := qp_loop MAXCOL SEP bs 0.

(** decoder helpers (quoted-printable.scm:118-124) *)
Definition qhexp (c : Z) : bool := ((48 <=? c) && (c <=? 57)) || ((65 <=? c) && (c <=? 70)).
Definition unhex1 (i : Z) : Z := if i >=? 65 then i - 55 else i - 48.
Definition unhex (c1 c2 : Z) : Z := ash_l (unhex1 c1) 4 + unhex1 c2.

(** lp2 (quoted-printable.scm:156-170): [s] starts after the first blank; [blanks] = the blanks seen so far.
    Result: None = ran into the end (the cond has no clause: #<undef>);
            Some (emit, rest) = bytes to write and where lp continues *)
Fixpoint scan_blanks (s : list Z) (blanks : list Z) : option (list Z * list Z) :=
  match s with
  | [] => None
  | c :: r =>
      if (c =? 32) || (c =? 9) then scan_blanks r (blanks ++ [c])
      else if c =? 10 then Some ([], r)
      else if c =? 13 then Some ([], match r with 10 :: r' => r' | _ => r end)
      else Some (blanks, s)
  end.

Definition opt_cons (b : Z) (o : option (list Z)) : option (list Z) :=
  match o with Some l => Some (b :: l) | None => None end.
Definition opt_append (p : list Z) (o : option (list Z)) : option (list Z) :=
  match o with Some l => Some (p ++ l) | None => None end.

(** quoted-printable-decode-bytevector (quoted-printable.scm:117-173); [fuel] > length of the input suffices *)
Fixpoint qp_dec (fuel : nat) (mime : bool) (s : list Z) : option (list Z) :=
  match fuel with
  | O => None
  | S f =>
      match s with
      | [] => Some []
      | c :: r =>
          if c =? 61 then
            match r with
            | c2 :: c3 :: r3 =>                                    (* (< (+ i 2) end) *)
                if c2 =? 10 then qp_dec f mime (c3 :: r3)
                else if c2 =? 13 then qp_dec f mime (if c3 =? 10 then r3 else c3 :: r3)
                else if qhexp c2 then
                  (if qhexp c3 then opt_cons (unhex c2 c3) (qp_dec f mime r3) else qp_dec f mime r3)
                else qp_dec f mime r3
            | _ => None                                            (* no cond clause: the loop ends with #<undef> *)
            end
          else if c =? 95 then opt_cons (if mime then 32 else c) (qp_dec f mime r)
          else if (c =? 32) || (c =? 9) then
            match scan_blanks r [c] with
            | None => None                                         (* trailing blanks: #<undef> *)
            | Some (emit, rest) => opt_append emit (qp_dec f mime rest)
            end
          else opt_cons c (qp_dec f mime r)
      end
  end.

Definition qp_decode (s : list Z) : option (list Z) := qp_dec (S (length s)) false s.

(** SPEC side: longest line (lines end at CR LF) *)
Fixpoint max_line (s : list Z) (cur best : Z) : Z :=
  match s with
  | [] => Z.max cur best
  | c :: r =>
      match r with
      | d :: r' => if (c =? 13) && (d =? 10) then max_line r' 0 (Z.max cur best) else max_line r (cur + 1) best
      | [] => max_line r (cur + 1) best
      end
  end.

Definition qp_char (c : Z) : bool := ((33 <=? c) && (c <=? 126)) || (c =? 13) || (c =? 10).
