(* C19 — mini-floats, sweep 2: sexp_half_to_double is exact; generated = hand-written mirror; shift counts *)
From Coq Require Import ZArith List Bool Lia.
From ChibiV Require Import C19.Half C19.HalfSweep Gen.C19_HalfFns.
Import ListNotations.
Open Scope Z_scope.

Definition exact_ok (h : Z) : bool :=
  (gen_half_to_double h =? half_to_double h) &&
  (half_special h || (finite64 (gen_half_to_double h) && dy_eqb (dyadic64 (gen_half_to_double h)) (half_dyadic h))) &&
  (* the count of m << (150 - v) is a defined shift whenever the subnormal term is not multiplied by 0 *)
  (negb ((Z.land (Z.shiftr h 10) 31 =? 0) && negb (Z.land h 1023 =? 0)) || ((0 <=? h2d_shift_count h) && (h2d_shift_count h <? 32))).
Lemma exact_all : forallb exact_ok (zrange 65536) = true.
Proof. vm_cast_no_check (@eq_refl bool true). Qed.

Lemma exact_at : forall h, 0 <= h < 65536 -> exact_ok h = true.
Proof. exact (sweep exact_ok 65536 exact_all). Qed.

(* the double returned denotes EXACTLY the value sexp.c assigns to the half pattern: (-1)^s m 2^-24 for exponent field 0,
   (-1)^s (1024+m) 2^(e-25) otherwise — INCLUDING e = 31 (only 0x7C00, 0xFC00, 0x7FFF are special) *)
Lemma half_to_double_exact : forall h, 0 <= h < 65536 -> half_special h = false ->
  finite64 (gen_half_to_double h) = true /\ dy_eq (dyadic64 (gen_half_to_double h)) (half_dyadic h).
Proof.
  intros h Hh Hs. pose proof (exact_at h Hh) as H. unfold exact_ok in H.
  apply andb_prop in H. destruct H as [H _]. apply andb_prop in H. destruct H as [_ H].
  rewrite Hs in H. cbn [orb] in H. apply andb_prop in H. destruct H as [Hf Hd].
  split; [exact Hf|apply dy_eqb_eq; exact Hd].
Qed.

Lemma half_to_double_specials :
  gen_half_to_double 31744 = INF64M /\ gen_half_to_double 64512 = 2 ^ 63 + INF64M /\ isnan64 (gen_half_to_double 32767) = true.
Proof. repeat split; vm_compute; reflexivity. Qed.

(* the regenerated translation of sexp_half_to_double computes the same function as the hand-written mirror in Half.v *)
Lemma gen_half_to_double_is_model : forall h, 0 <= h < 65536 -> gen_half_to_double h = half_to_double h.
Proof.
  intros h Hh. pose proof (exact_at h Hh) as H. unfold exact_ok in H.
  apply andb_prop in H. destruct H as [H _]. apply andb_prop in H. destruct H as [H _]. apply Z.eqb_eq. exact H.
Qed.

(* C leaves m << n undefined for n >= 32: wherever the subnormal term counts, 150 - v is in 0..31 *)
Lemma half_shift_counts_defined : forall h, 0 <= h < 65536 ->
  Z.land (Z.shiftr h 10) 31 = 0 -> Z.land h 1023 <> 0 -> 0 <= h2d_shift_count h < 32.
Proof.
  intros h Hh He Hm. pose proof (exact_at h Hh) as H. unfold exact_ok in H.
  apply andb_prop in H. destruct H as [_ H].
  rewrite He in H. apply Z.eqb_neq in Hm. rewrite Hm in H. cbn in H.
  apply andb_prop in H. destruct H as [H1 H2]. apply Z.leb_le in H1. apply Z.ltb_lt in H2. lia.
Qed.

Example half_to_double_exact_ex : dyadic64 (gen_half_to_double 0x7BFF) = (9002801208229888, -37) /\ half_dyadic 0x7BFF = (2047, 5).
Proof. split; vm_compute; reflexivity. Qed.
