(** C19: json_read (json_write v) gives v back (strings as their UTF-8), for values of any shape and depth
    up to the reader's limit; integers are fixnums with |z| <= 2^62-1; floats are excluded. *)
From ChibiV Require Import C19.Prims C19.PrimFacts C19.Json C19.JsonProofs C19.JsonIntProofs.
Local Open Scope Z_scope.
Ltac Zify.zify_post_hook ::= Z.div_mod_to_equations.

(** * induction principle for the nested type *)
Section json_ind2.
  Variable P : json -> Prop.
  Hypothesis HN : P JNull.
  Hypothesis HB : forall b, P (JBool b).
  Hypothesis HI : forall z, P (JInt z).
  Hypothesis HF : P JFloat.
  Hypothesis HS : forall s, P (JStr s).
  Hypothesis HA : forall l, Forall P l -> P (JArr l).
  Hypothesis HO : forall l, Forall (fun kv => P (fst kv) /\ P (snd kv)) l -> P (JObj l).
  Fixpoint json_ind2 (v : json) : P v :=
    match v with
    | JNull => HN | JBool b => HB b | JInt z => HI z | JFloat => HF | JStr s => HS s
    | JArr l => HA l ((fix go (l : list json) : Forall P l :=
                         match l with [] => Forall_nil _ | x :: r => Forall_cons _ (json_ind2 x) (go r) end) l)
    | JObj l => HO l ((fix go (l : list (json * json)) : Forall (fun kv => P (fst kv) /\ P (snd kv)) l :=
                         match l with
                         | [] => Forall_nil _
                         | kv :: r => Forall_cons _ (conj (json_ind2 (fst kv)) (json_ind2 (snd kv))) (go r)
                         end) l)
    end.
End json_ind2.

(** * well-formed values (the writer's domain for which the round trip is claimed), depth, fuel *)
Definition scalars (s : list Z) : Prop := Forall (fun c => scalar c = true) s.

Fixpoint wfj (v : json) : Prop :=
  match v with
  | JNull | JBool _ => True
  | JInt z => - MAXFIX - 1 <= z <= MAXFIX
  | JFloat => False
  | JStr s => scalars s
  | JArr l => (fix all (l : list json) : Prop := match l with [] => True | x :: r => wfj x /\ all r end) l
  | JObj l => (fix all (l : list (json * json)) : Prop :=
                 match l with
                 | [] => True
                 | (k, x) :: r => (match k with JStr ks => scalars ks | _ => False end) /\ wfj x /\ all r
                 end) l
  end.

Fixpoint jdepth (v : json) : Z :=
  match v with
  | JArr l => 1 + (fix mx (l : list json) : Z := match l with [] => 0 | x :: r => Z.max (jdepth x) (mx r) end) l
  | JObj l => 1 + (fix mx (l : list (json * json)) : Z := match l with [] => 0 | (_, x) :: r => Z.max (jdepth x) (mx r) end) l
  | _ => 0
  end.

Fixpoint need (v : json) : nat :=
  match v with
  | JArr l => 3 + (fix s (l : list json) : nat := match l with [] => 0 | x :: r => need x + 3 + s r end) l
  | JObj l => 3 + (fix s (l : list (json * json)) : nat := match l with [] => 0 | (_, x) :: r => need x + 5 + s r end) l
  | _ => 1
  end%nat.

(** what may follow a value in the writer's output *)
Definition follow (rest : list Z) : Prop :=
  match rest with [] => True | c :: _ => c = 44 \/ c = 93 \/ c = 125 \/ c = 58 end.

Definition value_head (c : Z) : Prop :=
  isspace c = false /\ c <> 93 /\ c <> 44 /\ c <> 125.

(** the per-value statement *)
Definition RT (v : json) : Prop :=
  wfj v -> forall (d : Z) (fuel : nat) (rest : list Z),
    0 <= d -> d + jdepth v <= MAXDEPTH -> follow rest -> (need v <= fuel)%nat ->
    exists t, jwrite v = Some t /\ jread fuel d (t ++ rest) = Ok (utf8_val v, rest) /\
              exists c t', t = c :: t' /\ value_head c.

Lemma follow_nodigit rest : follow rest -> nodigit_head rest.
Proof. destruct rest as [|c r]; cbn; [auto|]. intros [->|[->|[->| ->]]]; reflexivity. Qed.

Lemma wr_char_nonempty c e : scalar c = true -> wr_char c = Some e -> e <> [].
Proof.
  intros Hs He ->. destruct (wr_char_read c 0 [34] Hs) as [e' [He' Hr]].
  rewrite He in He'. injection He' as <-. cbn in Hr. discriminate.
Qed.

Lemma wr_chars_length s t : scalars s -> wr_chars s = Some t -> (length s < length t)%nat.
Proof.
  intros Hs. revert t. induction Hs as [|c s Hc Hs IH]; intros t H; cbn [wr_chars] in H.
  - injection H as <-. cbn. lia.
  - destruct (wr_char c) as [e|] eqn:He; [|discriminate]. destruct (wr_chars s) as [t'|] eqn:Ht; [|discriminate].
    injection H as <-. specialize (IH t' eq_refl). apply (wr_char_nonempty c e Hc) in He.
    rewrite app_length. cbn [length]. destruct e; [contradiction|cbn [length]; lia].
Qed.

(** * leaves *)
Lemma RT_null : RT JNull.
Proof.
  intros _ d fuel rest Hd Hdep Hf Hn. exists [110; 117; 108; 108]. split; [reflexivity|]. split.
  - destruct fuel; [cbn in Hn; lia|]. reflexivity.
  - do 2 eexists. split; [reflexivity|]. repeat split; discriminate.
Qed.

Lemma RT_bool b : RT (JBool b).
Proof.
  intros _ d fuel rest Hd Hdep Hf Hn. destruct fuel; [cbn in Hn; lia|].
  destruct b; eexists; (split; [reflexivity|]); (split; [reflexivity|]); do 2 eexists; (split; [reflexivity|]); repeat split; discriminate.
Qed.

Lemma follow_plain rest v : follow rest ->
  match rest with
  | c :: r => if c =? 46 then (JFloat, skip_exp (skip_digits r))
              else if (c =? 101) || (c =? 69) then (JFloat, skip_exp rest)
              else (v, rest)
  | [] => (v, rest)
  end = (v, rest).
Proof.
  destruct rest as [|c r]; [reflexivity|]. cbn. intros [->|[->|[->| ->]]]; reflexivity.
Qed.

Lemma RT_int z : RT (JInt z).
Proof.
  intros Hwf d fuel rest Hd Hdep Hf Hn. cbn in Hwf. destruct fuel; [cbn in Hn; lia|].
  exists (decimal z). split; [reflexivity|].
  unfold decimal. destruct (z <? 0) eqn:Ez.
  - (* negative: '-' then the digits of -z *)
    split.
    + cbn [app jread skip_ws]. change (isspace 45) with false. cbv beta iota.
      change (45 =? 123) with false. change (45 =? 91) with false. change (45 =? 34) with false.
      change (45 =? 45) with true. cbn [orb]. cbv beta iota.
      unfold read_number. change (45 =? 43) with false. change (45 =? 45) with true. cbv beta iota.
      change (-1 =? 1) with false. cbv beta iota.
      rewrite read_digits_dec_pos by (try apply follow_nodigit; try assumption; unfold MAXFIX in *; lia).
      cbv beta iota zeta. rewrite (follow_plain rest (JInt (-1 * - z)) Hf).
      cbn [utf8_val]. do 3 f_equal. lia.
    + do 2 eexists. split; [reflexivity|]. repeat split; discriminate.
  - destruct (dec_pos_head z) as (d0 & t0 & Eh & Hd0); [unfold MAXFIX in *; lia|]. unfold digit in Hd0.
    split.
    + rewrite Eh. cbn [app jread skip_ws].
      assert (isspace (48 + d0) = false) as -> by (unfold isspace; lia).
      assert (48 + d0 =? 123 = false) as -> by lia. assert (48 + d0 =? 91 = false) as -> by lia.
      assert (48 + d0 =? 34 = false) as -> by lia.
      assert ((48 + d0 =? 45) || (48 + d0 =? 43) || isdigit (48 + d0) = true) as -> by (unfold isdigit; lia).
      unfold read_number.
      assert (48 + d0 =? 43 = false) as -> by lia. assert (48 + d0 =? 45 = false) as -> by lia.
      change ((48 + d0) :: t0 ++ rest) with (((48 + d0) :: t0) ++ rest). rewrite <- Eh.
      change (1 =? 1) with true. cbv beta iota.
      rewrite read_digits_dec_pos by (try apply follow_nodigit; try assumption; unfold MAXFIX in *; lia).
      cbv beta iota zeta. rewrite (follow_plain rest (JInt (1 * z)) Hf).
      cbn [utf8_val]. do 3 f_equal. lia.
    + rewrite Eh. do 2 eexists. split; [reflexivity|]. unfold value_head, isspace. repeat split; lia.
Qed.

Lemma RT_str s : RT (JStr s).
Proof.
  intros Hwf d fuel rest Hd Hdep Hf Hn. cbn in Hwf. destruct fuel; [cbn in Hn; lia|].
  destruct (json_string_escape_roundtrip s Hwf) as [t [Ht Hr]].
  exists (34 :: t). split; [cbn [jwrite]; unfold wr_string; rewrite Ht; reflexivity|]. split.
  - cbn [app jread skip_ws]. change (isspace 34) with false. cbv beta iota.
    change (34 =? 123) with false. change (34 =? 91) with false. change (34 =? 34) with true. cbv beta iota.
    rewrite Hr; [reflexivity|]. apply (wr_chars_length s t Hwf) in Ht. rewrite app_length. lia.
  - do 2 eexists. split; [reflexivity|]. repeat split; discriminate.
Qed.

(** * arrays *)
Definition elems_need (l : list json) : nat :=
  (fix s (l : list json) : nat := match l with [] => 0 | x :: r => need x + 3 + s r end)%nat l.
Definition elems_depth (l : list json) : Z :=
  (fix mx (l : list json) : Z := match l with [] => 0 | x :: r => Z.max (jdepth x) (mx r) end) l.
Definition elems_wf (l : list json) : Prop :=
  (fix all (l : list json) : Prop := match l with [] => True | x :: r => wfj x /\ all r end) l.

Lemma elems_depth_nonneg l : 0 <= elems_depth l.
Proof. induction l as [|x r IH]; [cbn; lia|]. unfold elems_depth in *. cbn iota beta. fold (elems_depth r) in *. lia. Qed.

Lemma welems_follow l t rest : welems jwrite l false = Some t -> follow (t ++ rest).
Proof.
  destruct l as [|x r]; cbn [welems].
  - intros H. injection H as <-. cbn. auto.
  - unfold opt_app. destruct (jwrite x); [|discriminate].
    destruct (welems jwrite r false); [|discriminate]. intros H. injection H as <-. cbn. auto.
Qed.

Lemma jarr_tail : forall l, Forall RT l -> elems_wf l ->
  forall (d : Z) (f : nat) (acc : list json) (rest : list Z),
    0 <= d -> d + elems_depth l <= MAXDEPTH -> (elems_need l + 1 <= f)%nat ->
    exists t, welems jwrite l false = Some t /\
      jarr f d (t ++ rest) false acc = Ok (JArr (rev acc ++ map utf8_val l), rest).
Proof.
  induction 1 as [|x r Hx Hr IH]; intros Hwf d f acc rest Hd Hdep Hf.
  - exists [93]. split; [reflexivity|]. destruct f; [cbn in Hf; lia|]. cbn [app jarr map].
    change (93 =? 93) with true. cbn [andb]. rewrite app_nil_r. reflexivity.
  - destruct Hwf as [Hwx Hwr]. cbn [elems_need] in Hf. fold (elems_need r) in Hf.
    cbn [elems_depth] in Hdep. fold (elems_depth r) in Hdep.
    destruct f as [|[|f]]; [lia | lia |].
    destruct (IH Hwr d f (utf8_val x :: acc) rest Hd ltac:(lia) ltac:(lia)) as [tr [Htr Hjr]].
    destruct (Hx Hwx d f (tr ++ rest) Hd ltac:(lia) (welems_follow r tr rest Htr) ltac:(lia)) as [tx [Htx [Hjx [c0 [tx' [Ec Hc0]]]]]].
    exists (44 :: tx ++ tr). split.
    { cbn [welems]. rewrite Htx. fold (welems jwrite). rewrite Htr. reflexivity. }
    destruct Hc0 as (Hsp & N93 & N44 & N125).
    cbn [app jarr]. change (44 =? 93) with false. change (44 =? 44) with true. cbn [andb]. cbv beta iota.
    rewrite <- app_assoc. subst tx. cbn [app jarr].
    assert (c0 =? 93 = false) as -> by lia. assert (c0 =? 44 = false) as -> by lia. cbn [andb]. rewrite Hsp.
    change (c0 :: tx' ++ tr ++ rest) with ((c0 :: tx') ++ tr ++ rest). rewrite Hjx.
    rewrite Hjr. cbn [rev map]. rewrite <- app_assoc. reflexivity.
Qed.

Lemma RT_arr l : Forall RT l -> RT (JArr l).
Proof.
  intros HF Hwf d fuel rest Hd Hdep Hfo Hn.
  change (wfj (JArr l)) with (elems_wf l) in Hwf.
  change (jdepth (JArr l)) with (1 + elems_depth l) in Hdep.
  change (need (JArr l)) with (3 + elems_need l)%nat in Hn.
  pose proof (elems_depth_nonneg l) as Hnn.
  destruct fuel as [|f]; [lia|].
  assert (Hlim : d >=? MAXDEPTH = false) by lia.
  destruct l as [|x r].
  - exists [91; 93]. split; [reflexivity|]. split.
    + cbn [app jread skip_ws]. change (isspace 91) with false. cbv beta iota.
      change (91 =? 123) with false. change (91 =? 91) with true. cbv beta iota. rewrite Hlim.
      destruct f; [lia|]. reflexivity.
    + do 2 eexists. split; [reflexivity|]. repeat split; discriminate.
  - pose proof (Forall_inv HF) as Hx. pose proof (Forall_inv_tail HF) as Hr.
    destruct Hwf as [Hwx Hwr]. cbn [elems_need] in Hn. fold (elems_need r) in Hn.
    cbn [elems_depth] in Hdep. fold (elems_depth r) in Hdep.
    destruct f as [|[|f]]; [lia | lia |].
    destruct (jarr_tail r Hr Hwr (d + 1) (S f) [utf8_val x] rest ltac:(lia) ltac:(lia) ltac:(lia)) as [tr [Htr Hjr]].
    destruct (Hx Hwx (d + 1) (S f) (tr ++ rest) ltac:(lia) ltac:(lia) (welems_follow r tr rest Htr) ltac:(lia)) as [tx [Htx [Hjx [c0 [tx' [Ec Hc0]]]]]].
    exists (91 :: tx ++ tr). split.
    { cbn [jwrite welems]. rewrite Htx. fold (welems jwrite). rewrite Htr. reflexivity. }
    split.
    + destruct Hc0 as (Hsp & N93 & N44 & N125).
      remember (S f) as f1 eqn:Ef1 in *.
      cbn [app jread skip_ws]. change (isspace 91) with false. cbv beta iota.
      change (91 =? 123) with false. change (91 =? 91) with true. cbv beta iota. rewrite Hlim.
      rewrite <- app_assoc. subst tx. cbn [app jarr].
      assert (c0 =? 93 = false) as -> by lia. assert (c0 =? 44 = false) as -> by lia. cbn [andb]. rewrite Hsp.
      change (c0 :: tx' ++ tr ++ rest) with ((c0 :: tx') ++ tr ++ rest). rewrite Hjx. cbv beta iota.
      rewrite Hjr. reflexivity.
    + do 2 eexists. split; [reflexivity|]. repeat split; discriminate.
Qed.

(** * objects *)
Definition membs_need (l : list (json * json)) : nat :=
  (fix s (l : list (json * json)) : nat := match l with [] => 0 | (_, x) :: r => need x + 5 + s r end)%nat l.
Definition membs_depth (l : list (json * json)) : Z :=
  (fix mx (l : list (json * json)) : Z := match l with [] => 0 | (_, x) :: r => Z.max (jdepth x) (mx r) end) l.
Definition membs_wf (l : list (json * json)) : Prop :=
  (fix all (l : list (json * json)) : Prop :=
     match l with
     | [] => True
     | (k, x) :: r => (match k with JStr ks => scalars ks | _ => False end) /\ wfj x /\ all r
     end) l.

Lemma membs_depth_nonneg l : 0 <= membs_depth l.
Proof. induction l as [|[k x] r IH]; [cbn; lia|]. unfold membs_depth in *. cbn iota beta. fold (membs_depth r) in *. lia. Qed.

Lemma wmembers_follow l t rest : wmembers jwrite l false = Some t -> follow (t ++ rest).
Proof.
  destruct l as [|[k x] r]; cbn [wmembers].
  - intros H. injection H as <-. cbn. auto.
  - destruct k; try discriminate. unfold opt_app. destruct (wr_string s); [|discriminate].
    destruct (jwrite x); [|discriminate]. destruct (wmembers jwrite r false); [|discriminate].
    intros H. injection H as <-. cbn. auto.
Qed.

Lemma jdepth_nonneg v : 0 <= jdepth v.
Proof.
  destruct v; try (cbn; lia).
  - change (jdepth (JArr l)) with (1 + elems_depth l). pose proof (elems_depth_nonneg l). lia.
  - change (jdepth (JObj l)) with (1 + membs_depth l). pose proof (membs_depth_nonneg l). lia.
Qed.

(** one member  "key":value  read by the loop body (comma = true) *)
Lemma member_step ks x (Hks : scalars ks) (Hx : RT x) (Hwx : wfj x) :
  forall (d : Z) (f : nat) (acc : list (json * json)) (tail : list Z),
    0 <= d -> d + jdepth x <= MAXDEPTH -> (need x + 1 <= f)%nat -> follow tail ->
    exists tk tx, wr_string ks = Some tk /\ jwrite x = Some tx /\
      jobj (S f) d (tk ++ 58 :: tx ++ tail) true acc = jobj f d tail false ((JStr (utf8_str ks), utf8_val x) :: acc).
Proof.
  intros d f acc tail Hd Hdep Hf Hfo.
  destruct f as [|f]; [lia|]. pose proof (jdepth_nonneg x) as Hnn.
  destruct (RT_str ks Hks d (S f) (58 :: match jwrite x with Some tx => tx | None => [] end ++ tail) Hd ltac:(cbn; lia) ltac:(cbn; auto) ltac:(cbn; lia))
    as [tk [Htk [Hjk _]]].
  destruct (Hx Hwx d (S f) tail Hd Hdep Hfo ltac:(lia)) as [tx [Htx [Hjx _]]].
  rewrite Htx in Hjk. cbn [jwrite] in Htk.
  exists tk, tx. split; [exact Htk|]. split; [exact Htx|].
  unfold wr_string in Htk. destruct (wr_chars ks) as [tk'|]; [|discriminate]. injection Htk as <-.
  cbn [app jobj]. change (34 =? 125) with false. change (34 =? 44) with false. cbn [andb]. change (isspace 34) with false. cbv beta iota.
  change (34 :: tk' ++ 58 :: tx ++ tail) with ((34 :: tk') ++ 58 :: tx ++ tail). rewrite Hjk.
  cbn [skip_ws]. change (isspace 58) with false. cbv beta iota. change (58 =? 58) with true. cbv beta iota.
  rewrite Hjx. reflexivity.
Qed.

Lemma jobj_tail : forall l, Forall (fun kv => RT (fst kv) /\ RT (snd kv)) l -> membs_wf l ->
  forall (d : Z) (f : nat) (acc : list (json * json)) (rest : list Z),
    0 <= d -> d + membs_depth l <= MAXDEPTH -> (membs_need l + 1 <= f)%nat ->
    exists t, wmembers jwrite l false = Some t /\
      jobj f d (t ++ rest) false acc =
        Ok (JObj (rev acc ++ map (fun kv => (utf8_val (fst kv), utf8_val (snd kv))) l), rest).
Proof.
  induction 1 as [|[k x] r Hkx Hr IH]; intros Hwf d f acc rest Hd Hdep Hf.
  - exists [125]. split; [reflexivity|]. destruct f; [cbn in Hf; lia|]. cbn [app jobj map].
    change (125 =? 125) with true. cbn [andb]. rewrite app_nil_r. reflexivity.
  - destruct Hwf as [Hwk [Hwx Hwr]]. destruct k as [| | | |ks| |]; try contradiction.
    cbn [membs_need] in Hf. fold (membs_need r) in Hf.
    cbn [membs_depth] in Hdep. fold (membs_depth r) in Hdep.
    cbn [fst snd] in Hkx. destruct Hkx as [_ Hx].
    destruct f as [|[|f]]; [lia | lia |].
    destruct (IH Hwr d f ((JStr (utf8_str ks), utf8_val x) :: acc) rest Hd ltac:(lia) ltac:(lia)) as [tr [Htr Hjr]].
    destruct (member_step ks x Hwk Hx Hwx d f acc (tr ++ rest) Hd ltac:(lia) ltac:(lia) (wmembers_follow r tr rest Htr))
      as [tk [tx [Htk [Htx Hstep]]]].
    exists (44 :: tk ++ 58 :: tx ++ tr). split.
    { cbn [wmembers]. rewrite Htk, Htx. fold (wmembers jwrite). rewrite Htr. reflexivity. }
    remember (S f) as f1 eqn:Ef1.
    cbn [app jobj]. change (44 =? 125) with false. change (44 =? 44) with true. cbn [andb]. cbv beta iota.
    subst f1.
    replace ((tk ++ 58 :: tx ++ tr) ++ rest) with (tk ++ 58 :: tx ++ tr ++ rest)
      by (rewrite <- app_assoc; cbn [app]; rewrite <- app_assoc; reflexivity).
    rewrite Hstep, Hjr. cbn [rev map fst snd]. rewrite <- app_assoc. reflexivity.
Qed.

Lemma RT_obj l : Forall (fun kv => RT (fst kv) /\ RT (snd kv)) l -> RT (JObj l).
Proof.
  intros HF Hwf d fuel rest Hd Hdep Hfo Hn.
  change (wfj (JObj l)) with (membs_wf l) in Hwf.
  change (jdepth (JObj l)) with (1 + membs_depth l) in Hdep.
  change (need (JObj l)) with (3 + membs_need l)%nat in Hn.
  pose proof (membs_depth_nonneg l) as Hnn.
  destruct fuel as [|f]; [lia|].
  assert (Hlim : d >=? MAXDEPTH = false) by lia.
  destruct l as [|[k x] r].
  - exists [123; 125]. split; [reflexivity|]. split.
    + cbn [app jread skip_ws]. change (isspace 123) with false. cbv beta iota.
      change (123 =? 123) with true. cbv beta iota. rewrite Hlim.
      destruct f; [lia|]. reflexivity.
    + do 2 eexists. split; [reflexivity|]. repeat split; discriminate.
  - pose proof (Forall_inv HF) as Hkx. pose proof (Forall_inv_tail HF) as Hr.
    destruct Hwf as [Hwk [Hwx Hwr]]. destruct k as [| | | |ks| |]; try contradiction.
    cbn [membs_need] in Hn. fold (membs_need r) in Hn.
    cbn [membs_depth] in Hdep. fold (membs_depth r) in Hdep.
    cbn [fst snd] in Hkx. destruct Hkx as [_ Hx].
    destruct f as [|f]; [lia|].
    destruct (jobj_tail r Hr Hwr (d + 1) f [(JStr (utf8_str ks), utf8_val x)] rest ltac:(lia) ltac:(lia) ltac:(lia)) as [tr [Htr Hjr]].
    destruct (member_step ks x Hwk Hx Hwx (d + 1) f [] (tr ++ rest) ltac:(lia) ltac:(lia) ltac:(lia) (wmembers_follow r tr rest Htr))
      as [tk [tx [Htk [Htx Hstep]]]].
    exists (123 :: tk ++ 58 :: tx ++ tr). split.
    { cbn [jwrite wmembers]. rewrite Htk, Htx. fold (wmembers jwrite). rewrite Htr. reflexivity. }
    split.
    + cbn [app jread skip_ws]. change (isspace 123) with false. cbv beta iota.
      change (123 =? 123) with true. cbv beta iota. rewrite Hlim.
      replace ((tk ++ 58 :: tx ++ tr) ++ rest) with (tk ++ 58 :: tx ++ tr ++ rest)
        by (rewrite <- app_assoc; cbn [app]; rewrite <- app_assoc; reflexivity).
      rewrite Hstep, Hjr. reflexivity.
    + do 2 eexists. split; [reflexivity|]. repeat split; discriminate.
Qed.

Theorem RT_all v : RT v.
Proof.
  induction v using json_ind2.
  - apply RT_null. - apply RT_bool. - apply RT_int.
  - intros []. - apply RT_str. - apply RT_arr; assumption. - apply RT_obj; assumption.
Qed.

(** reading what was written gives the value back (strings as the UTF-8 bytes of their code points) *)
Theorem json_roundtrip (v : json) (fuel : nat) :
  wfj v -> jdepth v <= MAXDEPTH -> (need v <= fuel)%nat ->
  exists t, jwrite v = Some t /\ jread fuel 0 t = Ok (utf8_val v, []).
Proof.
  intros Hwf Hd Hn. destruct (RT_all v Hwf 0 fuel [] ltac:(lia) ltac:(lia) I Hn) as [t [Ht [Hr _]]].
  exists t. split; [exact Ht|]. rewrite app_nil_r in Hr. exact Hr.
Qed.

Definition example_value : json :=
  JObj [(JStr [107; 34], JArr [JInt (-4611686018427387903); JStr [128512; 13]; JNull; JObj []])].

Example json_roundtrip_example :
  wfj example_value /\ jdepth example_value <= MAXDEPTH /\ (need example_value <= 40)%nat /\
  jwrite example_value = Some [123;34;107;92;34;34;58;91;45;52;54;49;49;54;56;54;48;49;56;52;50;55;51;56;55;57;48;51;44;34;92;117;68;56;51;68;92;117;68;69;48;48;92;114;34;44;110;117;108;108;44;123;125;93;125].
Proof.
  split.
  { cbn. unfold scalars. repeat split; try (unfold MAXFIX; lia); repeat constructor. }
  split; [vm_compute; discriminate|]. split; [vm_compute; lia|]. vm_compute. reflexivity.
Qed.
