(** C19 proofs about the base64 model. *)
From ChibiV Require Import C19.Prims C19.PrimFacts C19.Base64.
Local Open Scope Z_scope.
Ltac Zify.zify_post_hook ::= Z.div_mod_to_equations.

(** * finite sweeps and how they are lifted *)
Definition sweep1 (n : nat) (P : Z -> bool) : bool := forallb P (zrange 0 n).
Definition sweep2 (n m : nat) (P : Z -> Z -> bool) : bool := forallb (fun a => forallb (P a) (zrange 0 m)) (zrange 0 n).

Lemma sweep1_lift n P : sweep1 n P = true -> forall a, 0 <= a < Z.of_nat n -> P a = true.
Proof.
  unfold sweep1. intros H a Ha. rewrite forallb_forall in H. apply H. apply in_zrange. cbn. lia.
Qed.

Lemma sweep2_lift n m P : sweep2 n m P = true ->
  forall a b, 0 <= a < Z.of_nat n -> 0 <= b < Z.of_nat m -> P a b = true.
Proof.
  unfold sweep2. intros H a b Ha Hb. rewrite forallb_forall in H.
  specialize (H a). rewrite forallb_forall in H. apply H; apply in_zrange; cbn; lia.
Qed.

Definition sextet (x : Z) : Prop := 0 <= x < 64.
Definition sextetb (x : Z) : bool := (0 <=? x) && (x <? 64).
Lemma sextetb_ok x : sextetb x = true -> sextet x.
Proof. unfold sextetb, sextet. lia. Qed.

(** * the tables invert each other *)
Lemma dec_enc x : sextet x -> dec_tab (enc x) = x.
Proof.
  intros H. apply Z.eqb_eq.
  apply (sweep1_lift 64 (fun x => dec_tab (enc x) =? x)); [vm_compute; reflexivity | exact H].
Qed.

Lemma enc_b64char x : sextet x -> b64char (enc x) = true.
Proof.
  intros H. apply (sweep1_lift 64 (fun x => b64char (enc x))); [vm_compute; reflexivity | exact H].
Qed.

(** * sextets of a group are sextets *)
Lemma s1_sextet b1 : isbyte b1 -> sextet (s1 b1).
Proof. intros H. apply sextetb_ok. apply (sweep1_lift 256 (fun b => sextetb (s1 b))); [vm_compute; reflexivity | exact H]. Qed.
Lemma s2_sextet b1 b2 : isbyte b1 -> isbyte b2 -> sextet (s2 b1 b2).
Proof. intros H1 H2. apply sextetb_ok. apply (sweep2_lift 256 256 (fun a b => sextetb (s2 a b))); [vm_compute; reflexivity | exact H1 | exact H2]. Qed.
Lemma s3_sextet b2 b3 : isbyte b2 -> isbyte b3 -> sextet (s3 b2 b3).
Proof. intros H1 H2. apply sextetb_ok. apply (sweep2_lift 256 256 (fun a b => sextetb (s3 a b))); [vm_compute; reflexivity | exact H1 | exact H2]. Qed.
Lemma s4_sextet b3 : isbyte b3 -> sextet (s4 b3).
Proof. intros H. apply sextetb_ok. apply (sweep1_lift 256 (fun b => sextetb (s4 b))); [vm_compute; reflexivity | exact H]. Qed.
Lemma s2tail_sextet b1 : isbyte b1 -> sextet (ash_l (band 3 b1) 4).
Proof. intros H. apply sextetb_ok. apply (sweep1_lift 256 (fun b => sextetb (ash_l (band 3 b) 4))); [vm_compute; reflexivity | exact H]. Qed.
Lemma s3tail_sextet b2 : isbyte b2 -> sextet (ash_l (bit_field b2 0 4) 2).
Proof. intros H. apply sextetb_ok. apply (sweep1_lift 256 (fun b => sextetb (ash_l (bit_field b 0 4) 2))); [vm_compute; reflexivity | exact H]. Qed.

(** * the bit surgery of the decoder undoes that of the encoder (each fact depends on two bytes) *)
Lemma o1_s b1 b2 : isbyte b1 -> isbyte b2 -> o1 (s1 b1) (s2 b1 b2) = b1.
Proof. intros H1 H2. apply Z.eqb_eq. apply (sweep2_lift 256 256 (fun a b => o1 (s1 a) (s2 a b) =? a)); [vm_compute; reflexivity | exact H1 | exact H2]. Qed.

Lemma o1_s_tail b1 : isbyte b1 -> o1 (s1 b1) (ash_l (band 3 b1) 4) = b1.
Proof. intros H1. apply Z.eqb_eq. apply (sweep1_lift 256 (fun a => o1 (s1 a) (ash_l (band 3 a) 4) =? a)); [vm_compute; reflexivity | exact H1]. Qed.

(** o2 reads bits 0-3 of c2 and bits 2-5 of c3: both are bits of b2 only *)
Lemma c2_low b1 b2 : isbyte b1 -> isbyte b2 -> bit_field (s2 b1 b2) 0 4 = bit_field b2 4 8.
Proof. intros H1 H2. apply Z.eqb_eq. apply (sweep2_lift 256 256 (fun a b => bit_field (s2 a b) 0 4 =? bit_field b 4 8)); [vm_compute; reflexivity | exact H1 | exact H2]. Qed.
Lemma c3_mid b2 b3 : isbyte b2 -> isbyte b3 -> bit_field (s3 b2 b3) 2 6 = bit_field b2 0 4.
Proof. intros H1 H2. apply Z.eqb_eq. apply (sweep2_lift 256 256 (fun a b => bit_field (s3 a b) 2 6 =? bit_field a 0 4)); [vm_compute; reflexivity | exact H1 | exact H2]. Qed.
Lemma c3tail_mid b2 : isbyte b2 -> bit_field (ash_l (bit_field b2 0 4) 2) 2 6 = bit_field b2 0 4.
Proof. intros H1. apply Z.eqb_eq. apply (sweep1_lift 256 (fun a => bit_field (ash_l (bit_field a 0 4) 2) 2 6 =? bit_field a 0 4)); [vm_compute; reflexivity | exact H1]. Qed.
Lemma byte_halves b2 : isbyte b2 -> ior (ash_l (bit_field b2 4 8) 4) (bit_field b2 0 4) = b2.
Proof. intros H1. apply Z.eqb_eq. apply (sweep1_lift 256 (fun a => ior (ash_l (bit_field a 4 8) 4) (bit_field a 0 4) =? a)); [vm_compute; reflexivity | exact H1]. Qed.

Lemma o2_s b1 b2 b3 : isbyte b1 -> isbyte b2 -> isbyte b3 -> o2 (s2 b1 b2) (s3 b2 b3) = b2.
Proof. intros H1 H2 H3. unfold o2. rewrite c2_low, c3_mid by assumption. apply byte_halves; assumption. Qed.

Lemma o2_s_tail b1 b2 : isbyte b1 -> isbyte b2 -> o2 (s2 b1 b2) (ash_l (bit_field b2 0 4) 2) = b2.
Proof. intros H1 H2. unfold o2. rewrite c2_low, c3tail_mid by assumption. apply byte_halves; assumption. Qed.

Lemma o3_s b2 b3 : isbyte b2 -> isbyte b3 -> o3 (s3 b2 b3) (s4 b3) = b3.
Proof. intros H1 H2. apply Z.eqb_eq. apply (sweep2_lift 256 256 (fun a b => o3 (s3 a b) (s4 b) =? b)); [vm_compute; reflexivity | exact H1 | exact H2]. Qed.

(** * one step of the decoder on a character of the alphabet *)
Lemma dec_loop_valid x r b1 b2 b3 : sextet (dec_tab x) ->
  dec_loop (x :: r) b1 b2 b3 =
    if b1 =? OUTSIDE then dec_loop r (dec_tab x) b2 b3
    else if b2 =? OUTSIDE then dec_loop r b1 (dec_tab x) b3
    else if b3 =? OUTSIDE then dec_loop r b1 b2 (dec_tab x)
    else o1 b1 b2 :: o2 b2 b3 :: o3 b3 (dec_tab x) :: dec_loop r OUTSIDE OUTSIDE OUTSIDE.
Proof.
  intros Hs. cbn [dec_loop]. unfold sextet in Hs.
  assert (dec_tab x =? PAD = false) as -> by (unfold PAD; lia).
  assert (dec_tab x =? OUTSIDE = false) as -> by (unfold OUTSIDE; lia).
  reflexivity.
Qed.

Lemma sextet_not_out x : sextet x -> x =? OUTSIDE = false.
Proof. unfold sextet, OUTSIDE. lia. Qed.

Lemma dec_group x1 x2 x3 x4 r : sextet x1 -> sextet x2 -> sextet x3 -> sextet x4 ->
  dec_loop (enc x1 :: enc x2 :: enc x3 :: enc x4 :: r) OUTSIDE OUTSIDE OUTSIDE =
  o1 x1 x2 :: o2 x2 x3 :: o3 x3 x4 :: dec_loop r OUTSIDE OUTSIDE OUTSIDE.
Proof.
  intros H1 H2 H3 H4.
  rewrite dec_loop_valid by (rewrite dec_enc; assumption). rewrite Z.eqb_refl, (dec_enc x1 H1).
  rewrite dec_loop_valid by (rewrite dec_enc; assumption). rewrite (sextet_not_out x1 H1), Z.eqb_refl, (dec_enc x2 H2).
  rewrite dec_loop_valid by (rewrite dec_enc; assumption). rewrite (sextet_not_out x1 H1), (sextet_not_out x2 H2), Z.eqb_refl, (dec_enc x3 H3).
  rewrite dec_loop_valid by (rewrite dec_enc; assumption). rewrite (sextet_not_out x1 H1), (sextet_not_out x2 H2), (sextet_not_out x3 H3), (dec_enc x4 H4).
  reflexivity.
Qed.

Lemma dec_pad r b1 b2 b3 : dec_loop (61 :: r) b1 b2 b3 = finish b1 b2 b3.
Proof. reflexivity. Qed.

(** * round trip, in steps of three bytes *)
Lemma roundtrip_n : forall n bs, (length bs <= n)%nat -> bytes bs -> b64_decode (b64_encode bs) = bs.
Proof.
  unfold b64_decode.
  induction n as [|n IH]; intros bs Hlen Hb.
  - destruct bs; [reflexivity | cbn in Hlen; lia].
  - destruct bs as [|b1 [|b2 [|b3 r]]].
    + reflexivity.
    + (* one byte: two sextets and == *)
      apply Forall_inv in Hb. cbn [b64_encode].
      rewrite dec_loop_valid by (rewrite dec_enc; apply s1_sextet; assumption). rewrite Z.eqb_refl, dec_enc by (apply s1_sextet; assumption).
      rewrite dec_loop_valid by (rewrite dec_enc; apply s2tail_sextet; assumption).
      rewrite (sextet_not_out _ (s1_sextet _ Hb)), Z.eqb_refl, dec_enc by (apply s2tail_sextet; assumption).
      rewrite dec_pad. unfold finish.
      rewrite (sextet_not_out _ (s1_sextet _ Hb)), (sextet_not_out _ (s2tail_sextet _ Hb)), Z.eqb_refl.
      rewrite o1_s_tail by assumption. reflexivity.
    + (* two bytes: three sextets and = *)
      pose proof (Forall_inv Hb) as H1. pose proof (Forall_inv (Forall_inv_tail Hb)) as H2. cbn [b64_encode].
      rewrite dec_loop_valid by (rewrite dec_enc; apply s1_sextet; assumption). rewrite Z.eqb_refl, dec_enc by (apply s1_sextet; assumption).
      rewrite dec_loop_valid by (rewrite dec_enc; apply s2_sextet; assumption).
      rewrite (sextet_not_out _ (s1_sextet _ H1)), Z.eqb_refl, dec_enc by (apply s2_sextet; assumption).
      rewrite dec_loop_valid by (rewrite dec_enc; apply s3tail_sextet; assumption).
      rewrite (sextet_not_out _ (s1_sextet _ H1)), (sextet_not_out _ (s2_sextet _ _ H1 H2)), Z.eqb_refl, dec_enc by (apply s3tail_sextet; assumption).
      rewrite dec_pad. unfold finish.
      rewrite (sextet_not_out _ (s1_sextet _ H1)), (sextet_not_out _ (s2_sextet _ _ H1 H2)), (sextet_not_out _ (s3tail_sextet _ H2)).
      rewrite o1_s, o2_s_tail by assumption. reflexivity.
    + (* a full group, then the rest *)
      pose proof (Forall_inv Hb) as H1. pose proof (Forall_inv (Forall_inv_tail Hb)) as H2.
      pose proof (Forall_inv (Forall_inv_tail (Forall_inv_tail Hb))) as H3.
      pose proof (Forall_inv_tail (Forall_inv_tail (Forall_inv_tail Hb))) as Hr.
      cbn [b64_encode].
      rewrite dec_group by (first [apply s1_sextet | apply s2_sextet | apply s3_sextet | apply s4_sextet]; assumption).
      rewrite o1_s, o2_s, o3_s by assumption.
      rewrite IH; [reflexivity | cbn [length] in Hlen; lia | assumption].
Qed.

Theorem base64_roundtrip bs : bytes bs -> b64_decode (b64_encode bs) = bs.
Proof. apply (roundtrip_n (length bs)). lia. Qed.

(** * the encoder's output: alphabet and length *)
Lemma encode_alphabet_n : forall n bs, (length bs <= n)%nat -> bytes bs ->
  Forall (fun c => b64char c = true) (b64_encode bs) /\ Z.of_nat (length (b64_encode bs)) = 4 * ((Z.of_nat (length bs) + 2) / 3).
Proof.
  induction n as [|n IH]; intros bs Hlen Hb.
  - destruct bs; [split; [constructor | reflexivity] | cbn in Hlen; lia].
  - destruct bs as [|b1 [|b2 [|b3 r]]].
    + split; [constructor | reflexivity].
    + apply Forall_inv in Hb. split; [|reflexivity]. cbn [b64_encode].
      repeat constructor; apply enc_b64char; [apply s1_sextet | apply s2tail_sextet]; assumption.
    + pose proof (Forall_inv Hb) as H1. pose proof (Forall_inv (Forall_inv_tail Hb)) as H2.
      split; [|reflexivity]. cbn [b64_encode].
      repeat constructor; apply enc_b64char; [apply s1_sextet | apply s2_sextet | apply s3tail_sextet]; assumption.
    + pose proof (Forall_inv Hb) as H1. pose proof (Forall_inv (Forall_inv_tail Hb)) as H2.
      pose proof (Forall_inv (Forall_inv_tail (Forall_inv_tail Hb))) as H3.
      pose proof (Forall_inv_tail (Forall_inv_tail (Forall_inv_tail Hb))) as Hr.
      destruct (IH r) as [IHa IHl]; [cbn [length] in Hlen; lia | assumption |].
      cbn [b64_encode]. split.
      * repeat (constructor; [apply enc_b64char; first [apply s1_sextet | apply s2_sextet | apply s3_sextet | apply s4_sextet]; assumption|]).
        exact IHa.
      * cbn [length]. rewrite !Nat2Z.inj_succ. rewrite IHl. lia.
Qed.

Theorem base64_alphabet bs : bytes bs ->
  Forall (fun c => b64char c = true) (b64_encode bs) /\ Z.of_nat (length (b64_encode bs)) = 4 * ((Z.of_nat (length bs) + 2) / 3).
Proof. apply (encode_alphabet_n (length bs)). lia. Qed.

(** * the decoder ignores characters outside the alphabet (white space, line breaks, anything) *)
Definition inband (x : Z) : bool := negb (dec_tab x =? OUTSIDE).

Lemma dec_loop_filter : forall src b1 b2 b3, dec_loop (filter inband src) b1 b2 b3 = dec_loop src b1 b2 b3.
Proof.
  induction src as [|x r IH]; intros b1 b2 b3; [reflexivity|].
  cbn [filter]. unfold inband at 1.
  destruct (dec_tab x =? OUTSIDE) eqn:Eo; cbn [negb].
  - cbn [dec_loop]. rewrite Eo.
    assert (dec_tab x =? PAD = false) as -> by (apply Z.eqb_eq in Eo; rewrite Eo; reflexivity).
    apply IH.
  - cbn [dec_loop]. rewrite Eo.
    destruct (dec_tab x =? PAD); [reflexivity|].
    destruct (b1 =? OUTSIDE); [apply IH|].
    destruct (b2 =? OUTSIDE); [apply IH|].
    destruct (b3 =? OUTSIDE); [apply IH|].
    rewrite IH. reflexivity.
Qed.

Theorem base64_decode_skips_outside a b : filter inband a = filter inband b -> b64_decode a = b64_decode b.
Proof.
  unfold b64_decode. intros H. rewrite <- (dec_loop_filter a), <- (dec_loop_filter b), H. reflexivity.
Qed.

Lemma filter_all_id {A} (f : A -> bool) l : forallb f l = true -> filter f l = l.
Proof.
  induction l as [|x r IH]; cbn [forallb filter]; [reflexivity|].
  intros H. apply andb_true_iff in H. destruct H as [-> H]. rewrite IH by assumption. reflexivity.
Qed.

(** in particular: line breaks / blanks inserted anywhere in an encoding do not matter *)
Corollary base64_roundtrip_interleaved bs t : bytes bs -> filter inband t = b64_encode bs -> b64_decode t = bs.
Proof.
  intros Hb Ht. rewrite <- (base64_roundtrip bs Hb).
  apply base64_decode_skips_outside. rewrite Ht.
  (* the encoding itself contains no outside character *)
  symmetry. apply filter_all_id.
  destruct (base64_alphabet bs Hb) as [Ha _].
  apply forallb_forall. intros c Hc. rewrite Forall_forall in Ha. specialize (Ha c Hc).
  unfold inband.
  assert (Hcb : 0 <= c < 128) by (unfold b64char in Ha; lia).
  apply (sweep1_lift 128 (fun c => negb (b64char c) || negb (dec_tab c =? OUTSIDE))) in Hcb; [|vm_compute; reflexivity].
  rewrite Ha in Hcb. exact Hcb.
Qed.

(** * totality on arbitrary input: every input yields a byte string that fits the buffer *)
Definition okst (b : Z) : Prop := b = OUTSIDE \/ sextet b.
Definition wf_state (b1 b2 b3 : Z) : Prop :=
  okst b1 /\ okst b2 /\ okst b3 /\ (b1 = OUTSIDE -> b2 = OUTSIDE) /\ (b2 = OUTSIDE -> b3 = OUTSIDE).
Definition pending (b1 b2 b3 : Z) : Z :=
  if b1 =? OUTSIDE then 0 else if b2 =? OUTSIDE then 1 else if b3 =? OUTSIDE then 2 else 3.

Lemma dec_tab_cases x : dec_tab x = PAD \/ dec_tab x = OUTSIDE \/ sextet (dec_tab x).
Proof.
  unfold dec_tab, PAD, OUTSIDE, sextet.
  repeat match goal with |- context [if ?c then _ else _] => destruct c eqn:? end; lia.
Qed.

Lemma o_bytes c1 c2 c3 c4 : sextet c1 -> sextet c2 -> sextet c3 -> sextet c4 ->
  isbyte (o1 c1 c2) /\ isbyte (o2 c2 c3) /\ isbyte (o3 c3 c4) /\ isbyte (ash_l c1 2).
Proof.
  intros H1 H2 H3 H4.
  assert (A : isbyteb (o1 c1 c2) = true) by (apply (sweep2_lift 64 64 (fun a b => isbyteb (o1 a b))); [vm_compute; reflexivity | exact H1 | exact H2]).
  assert (B : isbyteb (o2 c2 c3) = true) by (apply (sweep2_lift 64 64 (fun a b => isbyteb (o2 a b))); [vm_compute; reflexivity | exact H2 | exact H3]).
  assert (C : isbyteb (o3 c3 c4) = true) by (apply (sweep2_lift 64 64 (fun a b => isbyteb (o3 a b))); [vm_compute; reflexivity | exact H3 | exact H4]).
  assert (D : isbyteb (ash_l c1 2) = true) by (apply (sweep1_lift 64 (fun a => isbyteb (ash_l a 2))); [vm_compute; reflexivity | exact H1]).
  unfold isbyteb in *. unfold isbyte. lia.
Qed.

Lemma okst_cases b : okst b -> (b =? OUTSIDE = true /\ b = OUTSIDE) \/ (b =? OUTSIDE = false /\ sextet b).
Proof.
  intros [->|H]; [left; split; reflexivity | right; split; [apply sextet_not_out|]; assumption].
Qed.

Lemma dec_loop_total : forall src b1 b2 b3, wf_state b1 b2 b3 ->
  bytes (dec_loop src b1 b2 b3) /\
  Z.of_nat (length (dec_loop src b1 b2 b3)) <= 3 * ((Z.of_nat (length src) + pending b1 b2 b3 + 3) / 4).
Proof.
  assert (Hfin : forall n b1 b2 b3, 0 <= n -> wf_state b1 b2 b3 ->
    bytes (finish b1 b2 b3) /\ Z.of_nat (length (finish b1 b2 b3)) <= 3 * ((n + pending b1 b2 b3 + 3) / 4)).
  { intros n b1 b2 b3 Hn (K1 & K2 & K3 & I1 & I2). unfold finish, pending.
    destruct (okst_cases _ K1) as [[-> E1]|[-> S1]]; [split; [constructor | cbn [length]; lia]|].
    destruct (okst_cases _ K2) as [[-> E2]|[-> S2]].
    { split; [repeat constructor; apply (o_bytes b1 b1 b1 b1); assumption | cbn [length]; lia]. }
    destruct (okst_cases _ K3) as [[-> E3]|[-> S3]].
    { split; [repeat constructor; apply (o_bytes b1 b2 b2 b2); assumption | cbn [length]; lia]. }
    split; [repeat constructor; apply (o_bytes b1 b2 b3 b3); assumption | cbn [length]; lia]. }
  induction src as [|x r IH]; intros b1 b2 b3 Hwf.
  - cbn [dec_loop length]. apply Hfin; [lia | assumption].
  - cbn [dec_loop]. cbn [length]. rewrite Nat2Z.inj_succ.
    destruct (dec_tab_cases x) as [Hp | [Ho | Hs]].
    + rewrite Hp, Z.eqb_refl. apply Hfin; [lia | assumption].
    + rewrite Ho. change (OUTSIDE =? PAD) with false. rewrite Z.eqb_refl.
      destruct (IH b1 b2 b3 Hwf) as [A B]. split; [exact A | lia].
    + assert (dec_tab x =? PAD = false) as -> by (unfold sextet, PAD in *; lia).
      rewrite (sextet_not_out _ Hs).
      destruct Hwf as (K1 & K2 & K3 & I1 & I2). unfold pending.
      destruct (okst_cases _ K1) as [[-> E1]|[-> S1]].
      { specialize (I1 E1). subst b1 b2. specialize (I2 eq_refl). subst b3.
        destruct (IH (dec_tab x) OUTSIDE OUTSIDE) as [A B].
        { unfold wf_state, okst, sextet, OUTSIDE in *; lia. }
        split; [exact A|]. unfold pending in B. rewrite (sextet_not_out _ Hs), Z.eqb_refl in B. lia. }
      destruct (okst_cases _ K2) as [[-> E2]|[-> S2]].
      { subst b2. specialize (I2 eq_refl). subst b3.
        destruct (IH b1 (dec_tab x) OUTSIDE) as [A B].
        { unfold wf_state, okst, sextet, OUTSIDE in *; lia. }
        split; [exact A|]. unfold pending in B. rewrite (sextet_not_out _ S1), (sextet_not_out _ Hs), Z.eqb_refl in B. lia. }
      destruct (okst_cases _ K3) as [[-> E3]|[-> S3]].
      { subst b3.
        destruct (IH b1 b2 (dec_tab x)) as [A B].
        { unfold wf_state, okst, sextet, OUTSIDE in *; lia. }
        split; [exact A|]. unfold pending in B. rewrite (sextet_not_out _ S1), (sextet_not_out _ S2), (sextet_not_out _ Hs) in B. lia. }
      destruct (IH OUTSIDE OUTSIDE OUTSIDE) as [A B].
      { unfold wf_state, okst, sextet, OUTSIDE in *; lia. }
      split.
      * repeat (constructor; [apply (o_bytes b1 b2 b3 (dec_tab x)); assumption|]). exact A.
      * cbn [length]. rewrite !Nat2Z.inj_succ. unfold pending in B. rewrite Z.eqb_refl in B. lia.
Qed.

(** b64_decode never fails, produces bytes only (so no bytevector-u8-set! can be out of range) and never
    writes past the buffer of size 3*((len+3)>>2) that base64-b64_decode-bytevector allocates *)
Theorem base64_decode_total src :
  bytes (b64_decode src) /\ Z.of_nat (length (b64_decode src)) <= dst_len (Z.of_nat (length src)).
Proof.
  unfold b64_decode, dst_len.
  destruct (dec_loop_total src OUTSIDE OUTSIDE OUTSIDE) as [A B].
  { unfold wf_state, okst, sextet, OUTSIDE in *; lia. }
  split; [exact A|]. unfold pending in B. rewrite Z.eqb_refl in B.
  rewrite ash_r_div by lia. change (2 ^ 2) with 4.
  replace (3 + Z.of_nat (length src)) with (Z.of_nat (length src) + 0 + 3) by lia. exact B.
Qed.

(** non-vacuity *)
Example base64_example : b64_encode [77; 97; 110; 255; 0] = [84; 87; 70; 117; 47; 119; 65; 61] /\
  b64_decode [84; 87; 10; 70; 117; 32; 47; 119; 65; 61] = [77; 97; 110; 255; 0] /\ b64_decode [65] = [0].
Proof. vm_compute. repeat split. Qed.
