(** C19 proofs about JSON integers: the decimal text of a fixnum is read back exactly (repaired reader). *)
From ChibiV Require Import C19.Prims C19.Json.
Local Open Scope Z_scope.
Ltac Zify.zify_post_hook ::= Z.div_mod_to_equations.

Definition digit (d : Z) : Prop := 0 <= d <= 9.
Definition be_val (ds : list Z) (a : Z) : Z := fold_left (fun a d => a * 10 + d) ds a.
Definition nodigit_head (rest : list Z) : Prop := match rest with [] => True | c :: _ => isdigit c = false end.

Lemma be_val_mono ds : Forall digit ds -> forall a, 0 <= a -> a <= be_val ds a.
Proof.
  induction 1 as [|d ds Hd _ IH]; intros a Ha; cbn [be_val fold_left]; [lia|].
  unfold digit in Hd. specialize (IH (a * 10 + d)). unfold be_val in IH. lia.
Qed.

Lemma read_digits_be lim ds : Forall digit ds -> forall rest a, 0 <= a -> be_val ds a <= lim -> nodigit_head rest ->
  read_digits lim (map (fun d => 48 + d) ds ++ rest) a false = (be_val ds a, false, rest).
Proof.
  induction 1 as [|d ds Hd Hds IH]; intros rest a Ha Hmax Hrest.
  - cbn [map app be_val fold_left]. destruct rest as [|c r]; [reflexivity|].
    cbn [read_digits]. cbn in Hrest. rewrite Hrest. reflexivity.
  - cbn [map app read_digits]. unfold digit in Hd.
    assert (isdigit (48 + d) = true) as -> by (unfold isdigit; lia).
    replace (48 + d - 48) with d by lia.
    cbn [be_val fold_left] in Hmax |- *.
    pose proof (be_val_mono ds Hds (a * 10 + d)) as Hm. unfold be_val in Hm, Hmax.
    assert (a >? (lim - d) / 10 = false) as -> by lia.
    apply IH; [lia | exact Hmax | exact Hrest].
Qed.

(** little-endian digits of n and their value *)
Definition le_val10 (l : list Z) : Z := fold_right (fun d acc => acc * 10 + d) 0 l.

Lemma le_digits_spec : forall f n, 0 <= n < 10 ^ Z.of_nat f -> (0 < f)%nat ->
  Forall digit (le_digits f n) /\ le_val10 (le_digits f n) = n /\ le_digits f n <> [].
Proof.
  induction f as [|f IH]; intros n Hn Hf; [lia|].
  cbn [le_digits]. destruct (n <? 10) eqn:E.
  - split; [repeat constructor; unfold digit; lia|]. split; [cbn; lia | discriminate].
  - rewrite Nat2Z.inj_succ, Z.pow_succ_r in Hn by lia.
    destruct f as [|f'].
    { cbn in Hn. lia. }
    destruct (IH (n / 10)) as (A & B & C); [lia | lia |].
    split; [constructor; [unfold digit; lia | exact A]|].
    split; [cbn [le_val10 fold_right]; fold (le_val10 (le_digits (S f') (n / 10))); rewrite B; lia | discriminate].
Qed.

Lemma be_val_rev l : be_val (rev l) 0 = le_val10 l.
Proof. unfold be_val, le_val10. rewrite <- (rev_involutive l) at 2. rewrite fold_left_rev_right. reflexivity. Qed.

Lemma MAXFIX_lt : MAXFIX + 1 < 10 ^ Z.of_nat 20.
Proof. reflexivity. Qed.

(** the digits the writer prints for 0 <= n <= lim (MAXFIX, or MAXFIX + 1 after a minus sign) are read back as n, never tripping the exactness guard *)
Lemma read_digits_dec_pos lim n rest : 0 <= n <= lim -> lim <= MAXFIX + 1 -> nodigit_head rest ->
  read_digits lim (dec_pos n ++ rest) 0 false = (n, false, rest).
Proof.
  intros Hn Hlim Hrest. unfold dec_pos.
  destruct (le_digits_spec 20 n) as (A & B & C); [pose proof MAXFIX_lt; lia | lia |].
  rewrite read_digits_be.
  - rewrite be_val_rev, B. reflexivity.
  - apply Forall_rev. exact A.
  - lia.
  - rewrite be_val_rev, B. lia.
  - exact Hrest.
Qed.

Lemma dec_pos_head n : 0 <= n <= MAXFIX + 1 -> exists d t, dec_pos n = (48 + d) :: t /\ digit d.
Proof.
  intros Hn. unfold dec_pos.
  destruct (le_digits_spec 20 n) as (A & B & C); [pose proof MAXFIX_lt; lia | lia |].
  apply Forall_rev in A.
  destruct (rev (le_digits 20 n)) as [|d t] eqn:E.
  - exfalso. apply C. apply (f_equal (@rev Z)) in E. rewrite rev_involutive in E. exact E.
  - exists d, (map (fun d => 48 + d) t). split; [reflexivity | exact (Forall_inv A)].
Qed.
