(** C19 — every row of the accessor table regenerated from lib/scheme/bytevector.stub asserts exactly the
    window it accesses; hence every stub accessor IS the proved model accessor bv_ref / bv_set. *)
From ChibiV Require Import C19.IntCodec C19.IntCodecProofs C19.AccTable Gen.C19_AccTable.
Local Open Scope Z_scope.

Lemma acc_ok_asserted e : acc_ok e = true -> forall len k, asserted e len k = in_bounds len k (a_width e).
Proof.
  unfold acc_ok, asserted, in_bounds. intros H len k.
  destruct (a_lower e); [|discriminate].
  destruct (a_assert_width e) as [n|]; [|discriminate].
  cbn [andb] in H. destruct (n =? Z.of_nat (a_width e)) eqn:En; [|discriminate].
  apply Z.eqb_eq in En. subst n. reflexivity.
Qed.

(** the whole regenerated table passes (a finite check, by computation) *)
Lemma acc_table_ok : forallb acc_ok acc_table = true.
Proof. vm_compute. reflexivity. Qed.

Lemma acc_table_nonempty : (8 <= length acc_table)%nat.
Proof. vm_compute. repeat constructor. Qed.

Theorem accessor_table_in_bounds : forall e, In e acc_table ->
  forall (big : bool) (bv : list Z) (k v : Z),
    acc_ref e big bv k = bv_ref (a_width e) (a_signed e) big bv k /\
    acc_set e big bv k v = bv_set (a_width e) big bv k v /\
    (acc_ref e big bv k <> None <-> 0 <= k /\ k + Z.of_nat (a_width e) <= Z.of_nat (length bv)) /\
    (acc_set e big bv k v <> None <-> 0 <= k /\ k + Z.of_nat (a_width e) <= Z.of_nat (length bv)) /\
    a_decl_width e = a_width e /\ a_decl_kind e = a_kind e /\ (0 < a_width e)%nat.
Proof.
  intros e Hin big bv k v.
  pose proof (proj1 (forallb_forall acc_ok acc_table) acc_table_ok e Hin) as Hok.
  pose proof (acc_ok_asserted e Hok) as Ha.
  assert (E1 : acc_ref e big bv k = bv_ref (a_width e) (a_signed e) big bv k) by (unfold acc_ref, bv_ref; rewrite Ha; reflexivity).
  assert (E2 : acc_set e big bv k v = bv_set (a_width e) big bv k v) by (unfold acc_set, bv_set; rewrite Ha; reflexivity).
  split; [exact E1|]. split; [exact E2|]. rewrite E1, E2.
  destruct (accessor_in_bounds (a_width e) (a_signed e) big bv k v) as [B1 B2].
  split; [exact B1|]. split; [exact B2|].
  unfold acc_ok in Hok.
  destruct (a_lower e); [|discriminate]. destruct (a_assert_width e); [|discriminate]. cbn [andb] in Hok.
  destruct (_ =? _) in Hok; [|discriminate]. cbn [andb] in Hok.
  destruct (akind_eqb (a_kind e) (a_decl_kind e)) eqn:Ek; [|discriminate]. cbn [andb] in Hok.
  destruct (a_decl_width e =? a_width e)%nat eqn:Ew; [|discriminate]. cbn [andb] in Hok.
  split; [apply Nat.eqb_eq; exact Ew|]. split.
  - destruct (a_kind e), (a_decl_kind e); try discriminate; reflexivity.
  - apply Nat.ltb_lt. exact Hok.
Qed.
