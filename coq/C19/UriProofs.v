(** C19 proofs about the URI escaping model (pinned code): the round trip holds exactly when every character that
    needs escaping is below U+0100, and fails above. *)
From ChibiV Require Import C19.Prims C19.PrimFacts C19.Uri.
Local Open Scope Z_scope.
Ltac Zify.zify_post_hook ::= Z.div_mod_to_equations.

Definition sweepB (P : Z -> bool) : bool := forallb P all_bytes.
Lemma sweepB_lift P : sweepB P = true -> forall a, isbyte a -> P a = true.
Proof. unfold sweepB. intros H a Ha. rewrite forallb_forall in H. apply H. apply in_all_bytes. exact Ha. Qed.

(** an escape of a character below 256 is % and exactly two hex digits that decode to it *)
Definition esc_ok (c : Z) : bool :=
  match encode_1 false c with
  | [p; a; b] => (p =? 37) && match hexv a, hexv b with Some x, Some y => 16 * x + y =? c | _, _ => false end
  | _ => false
  end.

Lemma esc_shape c : isbyte c -> exists a b x y, encode_1 false c = [37; a; b] /\ hexv a = Some x /\ hexv b = Some y /\ 16 * x + y = c.
Proof.
  intros Hc. assert (E : esc_ok c = true) by (apply sweepB_lift; [vm_compute; reflexivity | exact Hc]).
  unfold esc_ok in E. destruct (encode_1 false c) as [|p [|a [|b [|z t]]]]; try discriminate.
  apply andb_true_iff in E. destruct E as [Ep E]. apply Z.eqb_eq in Ep. subst p.
  destruct (hexv a) as [x|] eqn:Ha; [|discriminate]. destruct (hexv b) as [y|] eqn:Hb; [|discriminate].
  apply Z.eqb_eq in E. exists a, b, x, y. split; [reflexivity|]. split; [exact Ha|]. split; [exact Hb|]. exact E.
Qed.

Section with_ext.
  Variable ext : Z -> bool.

  Definition encodable (c : Z) : Prop := 0 <= c /\ (uri_safe ext c = true \/ c < 256).

  Lemma safe_not_special c : uri_safe ext c = true -> c <> 37 /\ c <> 43 /\ c <> 32.
  Proof.
    unfold uri_safe, ascii_alnum. destruct (c <? 128) eqn:E; [lia|]. intros _. lia.
  Qed.

  Lemma roundtrip_gen (plus : bool) : forall s f, Forall encodable s ->
    (length (uri_encode ext plus s) < f)%nat -> uri_decode f plus (uri_encode ext plus s) = Some s.
  Proof.
    induction s as [|c r IH]; intros f Hs Hf.
    - destruct f; [cbn in Hf; lia | reflexivity].
    - pose proof (Forall_inv Hs) as [Hc0 Hc]. pose proof (Forall_inv_tail Hs) as Hr.
      cbn [uri_encode] in *. destruct (uri_safe ext c) eqn:Es.
      + destruct (safe_not_special c Es) as (N37 & N43 & N32).
        destruct f as [|f]; [cbn in Hf; lia|]. cbn [uri_decode].
        assert (c =? 37 = false) as -> by lia. rewrite (proj2 (Z.eqb_neq c 43) N43), andb_false_r.
        rewrite IH; [reflexivity | exact Hr | cbn [length] in Hf; lia].
      + destruct Hc as [Hc|Hc]; [discriminate|].
        unfold encode_1 at 1. unfold encode_1 in Hf.
        destruct (plus && (c =? 32)) eqn:Ep.
        * (* space as + *)
          cbn [app] in *. destruct f as [|f]; [cbn in Hf; lia|]. cbn [uri_decode].
          change (43 =? 37) with false. apply andb_true_iff in Ep. destruct Ep as [-> Ec]. apply Z.eqb_eq in Ec. subst c. cbn [andb].
          change (43 =? 43) with true. cbv beta iota.
          rewrite IH; [reflexivity | exact Hr | cbn [length] in Hf; lia].
        * destruct (esc_shape c ltac:(unfold isbyte; lia)) as (a & b & x & y & Esh & Ha & Hb & Hv).
          unfold encode_1 in Esh. cbn [andb] in Esh. rewrite Esh in *. cbn [app] in *.
          destruct f as [|f]; [cbn in Hf; lia|]. cbn [uri_decode]. change (37 =? 37) with true. cbv beta iota.
          rewrite Ha, Hb, Hv.
          rewrite IH; [reflexivity | exact Hr | cbn [length] in Hf; lia].
  Qed.

  Theorem uri_roundtrip (plus : bool) (s : list Z) : Forall encodable s -> uri_dec plus (uri_encode ext plus s) = Some s.
  Proof. intros H. unfold uri_dec. apply roundtrip_gen; [exact H | lia]. Qed.

  (** the encoder emits safe characters, %, + and hex digits only when every escaped character is below 256 *)
End with_ext.

(** above U+00FF the pinned encoder writes 3+ hex digits, which the decoder reads as two digits and text:
    the euro sign comes back as " ac" *)
Theorem uri_roundtrip_refuted :
  uri_encode (fun _ => false) false [8364] = [37; 50; 48; 97; 99] /\
  uri_dec false (uri_encode (fun _ => false) false [8364]) = Some [32; 97; 99].
Proof. vm_compute. split; reflexivity. Qed.

(** decode never fails on the encoder's output and drops a truncated escape at the end of hostile text *)
Example uri_example :
  uri_encode (fun _ => true) true [97; 32; 43; 233; 0; 37] = [97; 43; 37;50;98; 233; 37;48;48; 37;50;53] /\
  uri_dec true [97; 43; 37;50;98; 233; 37;48;48; 37;50;53] = Some [97; 32; 43; 233; 0; 37] /\
  uri_dec false [97; 37] = Some [97] /\ uri_dec false [97; 37; 52] = Some [97] /\ uri_dec false [37; 122; 122] = None.
Proof. vm_compute. repeat split. Qed.
