(* C19 — helpers for the finite sweeps over half / quarter bit patterns *)
From Coq Require Import ZArith List Bool Lia.
From ChibiV Require Import C19.Half.
Import ListNotations.
Open Scope Z_scope.

(* a .. a+n-1 without unary detours *)
Fixpoint zr (n : nat) (a : Z) : list Z := match n with O => [] | S k => a :: zr k (a + 1) end.
Definition zrange (n : positive) : list Z := zr (Pos.to_nat n) 0.

Lemma zr_In : forall n a x, a <= x < a + Z.of_nat n -> In x (zr n a).
Proof.
  induction n as [|n IH]; intros a x Hx.
  - simpl in Hx. lia.
  - cbn [zr]. destruct (Z.eq_dec x a) as [->|Hne]; [left; reflexivity|right].
    apply IH. rewrite Nat2Z.inj_succ in Hx. lia.
Qed.

Lemma sweep : forall (P : Z -> bool) (n : positive),
  forallb P (zrange n) = true -> forall x, 0 <= x < Zpos n -> P x = true.
Proof.
  intros P n H x Hx. rewrite forallb_forall in H. apply H. unfold zrange. apply zr_In.
  rewrite positive_nat_Z. lia.
Qed.

Lemma dy_eqb_eq : forall a b, dy_eqb a b = true -> dy_eq a b.
Proof.
  intros [M1 E1] [M2 E2] H. unfold dy_eqb, dy_align in H. unfold dy_eq. cbn [fst snd].
  apply Z.eqb_eq in H. rewrite !Z.shiftl_mul_pow2 in H by lia. exact H.
Qed.

Lemma sweep_from : forall (P : Z -> bool) (n : positive) (a : Z),
  forallb P (zr (Pos.to_nat n) a) = true -> forall x, a <= x < a + Zpos n -> P x = true.
Proof.
  intros P n a H x Hx. rewrite forallb_forall in H. apply H. apply zr_In. rewrite positive_nat_Z. lia.
Qed.
