(* C19 — the mini-float conversions of sexp.c (SEXP_USE_MINI_FLOAT_UNIFORM_VECTORS):
     sexp_half_to_double / sexp_double_to_half  (binary16 <-> binary64 through binary32 bit tricks, sexp.c:3251-3271)
     sexp_quarter_to_double / sexp_double_to_quarter (1.5.2 mini-floats through the table sexp_quarters, sexp.c:3179-3236)
   on BIT PATTERNS: a binary64 is a Z in [0, 2^64), a binary32 a Z in [0, 2^32), a half a Z in [0, 2^16), a quarter a Z in
   [0, 2^8).  The hardware conversions the C code relies on (double -> float when a double is passed to
   float_as_int(const float), unsigned -> float in (float)m, float -> double at return, double subtraction and comparison
   in sexp_double_to_quarter) are modelled by ONE generic IEEE 754 round-to-nearest-even function [round_mag].
   The table of quarters is REGENERATED from sexp.c (coq/Gen/C19_Quarters.v, gen/c19_half.py).
   Executable model, no proofs here. *)
From Coq Require Import ZArith List Bool.
From ChibiV Require Import Gen.C19_Quarters.
Import ListNotations.
Open Scope Z_scope.

(* x mod 2^n, also for negative x (Z.land_ones) *)
Definition wrap (n x : Z) : Z := Z.land x (Z.ones n).
Definition b2z (b : bool) : Z := if b then 1 else 0.

(* ------------------------------------------------------------------ generic IEEE 754 binary formats *)
(* a format = (mbits stored mantissa bits, ebits exponent bits); magnitude bits = the pattern without its sign bit *)
Definition bias (ebits : Z) : Z := Z.ones (ebits - 1).
Definition inf_mag (mbits ebits : Z) : Z := Z.shiftl (Z.ones ebits) mbits.

(* finite magnitude bits -> (M, E): the value is M * 2^E *)
Definition dec_mag (mbits ebits mag : Z) : Z * Z :=
  let e := Z.shiftr mag mbits in
  let m := Z.land mag (Z.ones mbits) in
  if e =? 0 then (m, 1 - bias ebits - mbits) else (m + Z.shiftl 1 mbits, e - bias ebits - mbits).

(* round the non-negative dyadic M * 2^E to the format, to nearest, ties to even; overflow gives the infinity pattern *)
Definition round_mag (mbits ebits M E : Z) : Z :=
  if M =? 0 then 0 else
  let emin := 1 - bias ebits in
  let ex := Z.log2 M + E in                                   (* M * 2^E in [2^ex, 2^(ex+1)) *)
  let qexp := if ex <? emin then emin - mbits else ex - mbits in  (* weight of the last kept bit *)
  let sh := qexp - E in                                        (* low bits of M that are dropped *)
  let q' := if sh <=? 0 then Z.shiftl M (- sh)
            else let q := Z.shiftr M sh in let r := Z.land M (Z.ones sh) in let half := Z.shiftl 1 (sh - 1) in
                 q + b2z ((half <? r) || ((r =? half) && Z.odd q)) in
  let bits := if ex <? emin then q' else Z.shiftl (ex + bias ebits) mbits + (q' - Z.shiftl 1 mbits) in
  if inf_mag mbits ebits <=? bits then inf_mag mbits ebits else bits.

(* binary64 *)
Definition sign64 (d : Z) : Z := Z.shiftr d 63.
Definition mag64 (d : Z) : Z := Z.land d (Z.ones 63).
Definition INF64M : Z := inf_mag 52 11.
Definition isnan64 (d : Z) : bool := INF64M <? mag64 d.
Definition isinf64 (d : Z) : bool := mag64 d =? INF64M.
Definition NAN64 : Z := 0x7FF8000000000000.        (* the C constant NAN (a float quiet NaN) widened to double *)
(* binary32 *)
Definition INF32M : Z := inf_mag 23 8.

(* cvtsd2ss: double -> float (the implicit conversion at the call float_as_int(x) with x a double) *)
Definition d2f (d : Z) : Z :=
  let s := sign64 d in let mg := mag64 d in
  if mg =? INF64M then Z.shiftl s 31 + INF32M
  else if INF64M <? mg then Z.shiftl s 31 + INF32M + Z.shiftl 1 22 + Z.land (Z.shiftr mg 29) (Z.ones 22)
  else let '(M, E) := dec_mag 52 11 mg in Z.shiftl s 31 + round_mag 23 8 M E.

(* cvtss2sd: float -> double, exact *)
Definition f2d (f : Z) : Z :=
  let s := Z.shiftr f 31 in let mg := Z.land f (Z.ones 31) in
  if mg =? INF32M then Z.shiftl s 63 + INF64M
  else if INF32M <? mg then Z.shiftl s 63 + INF64M + Z.shiftl 1 51 + Z.shiftl (Z.land mg (Z.ones 22)) 29
  else let '(M, E) := dec_mag 23 8 mg in Z.shiftl s 63 + round_mag 52 11 M E.

(* (float)m for an unsigned int m *)
Definition u2f (m : Z) : Z := round_mag 23 8 m 0.

(* unsigned int shifts; a count outside 0..31 is undefined behaviour in C — the model takes the x86 behaviour (count
   mod 32); both sites where that can happen are multiplied by 0 afterwards (see half_shift_counts_defined) *)
Definition shl32 (a n : Z) : Z := wrap 32 (Z.shiftl a (Z.land n 31)).
Definition shr32 (a n : Z) : Z := Z.shiftr a (Z.land n 31).

(* ------------------------------------------------------------------ sexp.c:3251-3261 sexp_half_to_double *)
(* hand-written mirror; the REGENERATED translation is Gen.C19_HalfFns.gen_half_to_double (HalfProofs: equal on all
   65536 patterns) *)
Definition half_to_double (x : Z) : Z :=
  if x =? 31744 then INF64M
  else if x =? 32767 then NAN64
  else if x =? 64512 then 2 ^ 63 + INF64M
  else
    let e := shr32 (Z.land x 0x7C00) 10 in
    let m := shl32 (Z.land x 0x03FF) 13 in
    let v := shr32 (u2f m) 23 in
    f2d (Z.lor (Z.lor (shl32 (Z.land x 0x8000) 16)
                      (b2z (negb (e =? 0)) * Z.lor (shl32 (e + 112) 23) m))
               (b2z ((e =? 0) && negb (m =? 0)) *
                Z.lor (shl32 (wrap 32 (v - 37)) 23) (Z.land (shl32 m (wrap 32 (150 - v))) 0x007FE000))).

(* ------------------------------------------------------------------ sexp.c:3263-3271 sexp_double_to_half *)
(* hand-written mirror of the regenerated Gen.C19_HalfFns.gen_double_to_half *)
Definition double_to_half (x : Z) : Z :=
  if isnan64 x then 32767
  else if isinf64 x then (if sign64 x =? 1 then 64512 else 31744)
  else
    let b := wrap 32 (d2f x + 0x00001000) in
    let e := shr32 (Z.land b 0x7F800000) 23 in
    let m := Z.land b 0x007FFFFF in
    wrap 16
      (Z.lor (Z.lor (Z.lor (shr32 (Z.land b 0x80000000) 16)
                           (b2z (112 <? e) * Z.lor (Z.land (shl32 (wrap 32 (e - 112)) 10) 0x7C00) (shr32 m 13)))
                    (b2z ((e <? 113) && (101 <? e)) * (shr32 (shr32 (0x007FF000 + m) (wrap 32 (125 - e)) + 1) 1)))
             (b2z (143 <? e) * 0x7FFF)).

(* the shift counts the code computes before it multiplies by 0 or 1: (150 - v) and (125 - e) *)
Definition h2d_shift_count (x : Z) : Z :=
  let m := shl32 (Z.land x 0x03FF) 13 in wrap 32 (150 - shr32 (u2f m) 23).
Definition d2h_shift_count (x : Z) : Z :=
  let b := wrap 32 (d2f x + 0x00001000) in wrap 32 (125 - shr32 (Z.land b 0x7F800000) 23).

(* ------------------------------------------------------------------ sexp.c:3216-3236 quarters *)
Definition qtab (i : Z) : Z := nth (Z.to_nat i) quarters 0.
Definition neg64 (d : Z) : Z := if d <? 2 ^ 63 then d + 2 ^ 63 else d - 2 ^ 63.

(* sexp_quarter_to_double *)
Definition quarter_to_double (q : Z) : Z := if q <? 128 then qtab q else neg64 (qtab (q - 128)).

(* dyadic numbers (M, E) = M * 2^E; sum / difference after alignment to the smaller exponent *)
Definition dy_align (a b : Z * Z) : Z * Z * Z :=
  let '(M1, E1) := a in let '(M2, E2) := b in
  let k := Z.min E1 E2 in (Z.shiftl M1 (E1 - k), Z.shiftl M2 (E2 - k), k).
(* a - b in double arithmetic for finite-or-infinite magnitudes a >= b >= 0 (a may be the infinity) *)
Definition dsub_mag (a b : Z) : Z :=
  if a =? INF64M then INF64M
  else let '(x, y, k) := dy_align (dec_mag 52 11 a) (dec_mag 52 11 b) in round_mag 52 11 (x - y) k.

(* the binary search of sexp_double_to_quarter on the magnitude f (not NaN, not infinite); None = out of fuel *)
Fixpoint q_search (fuel : nat) (lo hi f : Z) : option Z :=
  match fuel with
  | O => None
  | S k =>
      if hi <? lo then
        Some (if dsub_mag (qtab lo) f <? dsub_mag f (qtab hi) then lo else hi)
      else
        let mid := (lo + hi) / 2 in
        if qtab mid <? f then q_search k (mid + 1) hi f
        else if f <? qtab mid then q_search k lo (mid - 1) f
        else Some mid
  end.

Definition d2q_pos (mg : Z) : Z :=
  if mg =? INF64M then quarters_infinity_index
  else match q_search 9 0 (quarters_infinity_index - 1) mg with Some r => r | None => 255 end.

(* sexp_double_to_quarter: (f < 0) is false for -0.0, which therefore encodes as +0 *)
Definition double_to_quarter (d : Z) : Z :=
  if isnan64 d then quarters_nan_index
  else if (sign64 d =? 1) && negb (mag64 d =? 0) then wrap 8 (128 + d2q_pos (mag64 d))
  else d2q_pos (mag64 d).

(* ------------------------------------------------------------------ spec side: the value of a pattern *)
(* signed dyadic value (M, E) of a finite binary64 pattern *)
Definition dyadic64 (d : Z) : Z * Z :=
  let '(M, E) := dec_mag 52 11 (mag64 d) in ((if sign64 d =? 1 then - M else M), E).
Definition finite64 (d : Z) : bool := mag64 d <? INF64M.
(* equality of dyadic values: M1 * 2^E1 = M2 * 2^E2, compared after alignment *)
Definition dy_eqb (a b : Z * Z) : bool := let '(x, y, _) := dy_align a b in x =? y.
Definition dy_eq (a b : Z * Z) : Prop :=
  fst a * 2 ^ (snd a - Z.min (snd a) (snd b)) = fst b * 2 ^ (snd b - Z.min (snd a) (snd b)).

(* what sexp.c reads a half pattern as: 1.5.10 with bias 15, where exponent field 31 is an ORDINARY exponent
   (values up to 131008), except for the three special patterns 0x7C00 = +inf, 0xFC00 = -inf, 0x7FFF = NaN *)
Definition half_special (h : Z) : bool := (h =? 31744) || (h =? 32767) || (h =? 64512).
Definition half_dyadic (h : Z) : Z * Z :=
  let s := Z.shiftr h 15 in let e := Z.land (Z.shiftr h 10) 31 in let m := Z.land h 1023 in
  let M := if e =? 0 then m else 1024 + m in
  ((if s =? 1 then - M else M), (if e =? 0 then -24 else e - 25)).

(* 1.5.2 quarters, bias 15: indices below the infinity index *)
Definition quarter_dyadic (q : Z) : Z * Z :=
  let s := Z.shiftr q 7 in let e := Z.land (Z.shiftr q 2) 31 in let m := Z.land q 3 in
  let M := if e =? 0 then m else 4 + m in
  ((if s =? 1 then - M else M), (if e =? 0 then -16 else e - 17)).

(* canonical quarter: the three NaN patterns of each sign collapse to 127, -0 to +0 *)
Definition quarter_canon (q : Z) : Z :=
  if (124 <? Z.land q 127) then 127 else if q =? 128 then 0 else q.

(* successor / predecessor of a positive finite double; the largest float (binary32 value) below a double that is
   itself a float: 2^29 double ulps down *)
Definition succ64 (d : Z) : Z := d + 1.
Definition pred64 (d : Z) : Z := d - 1.
Definition predf64 (d : Z) : Z := d - 2 ^ 29.
(* the double exactly half way between two finite non-negative doubles (exact when the sum has <= 53 significant bits) *)
Definition mid64 (a b : Z) : Z :=
  let '(x, y, k) := dy_align (dec_mag 52 11 (mag64 a)) (dec_mag 52 11 (mag64 b)) in round_mag 52 11 (x + y) (k - 1).
