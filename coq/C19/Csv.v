(* C19 — lib/chibi/csv.scm: writer (csv-writer / csv-write, csv-write-quoted, csv-grammar-char-needs-quoting?)
   and reader (csv-parser + csv-read-quoted, iterated by csv->list / csv-fold over csv-read->list) for an ARBITRARY
   grammar record (separator-chars, quote-char, quote-doubling-escapes?, escape-char, record-separator); characters
   are code points (Z), strings are lists of them.  Executable model, no proofs here.
   REPAIRED code: fixes/C19-csv-grammar-record-separator.patch (the 'record-separator option was stored into the
   escape-char field) and fixes/C19-csv-crlf-lone-cr-index.patch (a lone CR in 'crlf mode bumped the field index).
   Not modelled: comment-chars (default '()), quote-non-numeric? (default #f), non-string fields. *)
From Coq Require Import ZArith List Bool.
Import ListNotations.
Open Scope Z_scope.

Definition CR : Z := 13.
Definition LF : Z := 10.

(* the record-separator field after (csv-grammar spec): the symbols 'lax / 'crlf, or a character ('cr and 'lf are
   stored as #\return / #\newline) *)
Inductive rsep := RLax | RCrlf | RChar (c : Z).

Record grammar := Grammar { seps : list Z; quote : option Z; dbl : bool; esc : option Z; rs : rsep }.

(* csv.scm:44  (make-csv-grammar (list comma) dquote #t #f 'lax '() #f) *)
Definition default_grammar : grammar := Grammar [44] (Some 34) true None RLax.

(* (eqv? ch <field>) where the field holds a character or #f *)
Definition is_opt (o : option Z) (ch : Z) : bool := match o with Some q => Z.eqb ch q | None => false end.
(* (memv ch list) *)
Definition memz (ch : Z) (l : list Z) : bool := existsb (Z.eqb ch) l.
(* (eqv? ch (csv-grammar-record-separator grammar)): false for the symbols *)
Definition is_rchar (g : grammar) (ch : Z) : bool := match rs g with RChar r => Z.eqb ch r | _ => false end.
Definition crlf_or_lax (g : grammar) : bool := match rs g with RChar _ => false | _ => true end.
Definition lax (g : grammar) : bool := match rs g with RLax => true | _ => false end.

(* ---------------------------------------------------------------- writer *)
(* csv.scm:436-441 csv-grammar-char-needs-quoting?  (same order of tests) *)
Definition needs_quoting (g : grammar) (ch : Z) : bool :=
  is_opt (quote g) ch || is_opt (esc g) ch || memz ch (seps g) || is_rchar g ch || memz ch [LF; CR].

(* csv.scm:446-463 the loop of csv-write-quoted; None = (error no-quote-defined-for ...) *)
Fixpoint wq_body (g : grammar) (q : Z) (s : list Z) : option (list Z) :=
  match s with
  | [] => Some []
  | ch :: s' =>
      if Z.eqb ch q || is_opt (esc g) ch then
        match (if dbl g && Z.eqb ch q then Some ch else esc g) with
        | Some p => option_map (fun r => p :: ch :: r) (wq_body g q s')
        | None => None
        end
      else option_map (cons ch) (wq_body g q s')
  end.

(* csv.scm:443-464; with quote-char #f the first write-char raises *)
Definition write_quoted (g : grammar) (s : list Z) : option (list Z) :=
  match quote g with
  | None => None
  | Some q => option_map (fun b => q :: b ++ [q]) (wq_body g q s)
  end.

(* csv.scm:473-483 for a string field, quote-non-numeric? = #f *)
Definition write_field (g : grammar) (f : list Z) : option (list Z) :=
  if existsb (needs_quoting g) f then write_quoted g f else Some f.

(* csv.scm:469-484 the loop over the row; the separator written is the FIRST of separator-chars *)
Fixpoint write_fields (g : grammar) (first : bool) (row : list (list Z)) : option (list Z) :=
  match row with
  | [] => Some []
  | f :: row' =>
      match (if first then Some [] else match seps g with s :: _ => Some [s] | [] => None end),
            write_field g f, write_fields g false row' with
      | Some a, Some b, Some c => Some (a ++ b ++ c)
      | _, _, _ => None
      end
  end.

(* csv.scm:485-491 *)
Definition terminator (g : grammar) : list Z :=
  match rs g with RCrlf => [CR; LF] | RLax => [LF] | RChar c => [c] end.

Definition write_row (g : grammar) (row : list (list Z)) : option (list Z) :=
  option_map (fun b => b ++ terminator g) (write_fields g true row).

(* csv.scm:493-498 csv-write *)
Fixpoint csv_write (g : grammar) (rows : list (list (list Z))) : option (list Z) :=
  match rows with
  | [] => Some []
  | r :: rows' =>
      match write_row g r, csv_write g rows' with
      | Some a, Some b => Some (a ++ b)
      | _, _ => None
      end
  end.

(* ---------------------------------------------------------------- reader *)
(* finish-row (csv.scm:134-139) followed by the NEXT call of the parser from csv-fold: an empty first field ends
   nothing (empty row, read again), anything else conses the row; [k] = the rows read from the rest of the input.
   cur = characters of the current field, newest first; acc = finished fields of the record, newest first. *)
Definition is_nil {A} (l : list A) : bool := match l with [] => true | _ => false end.
Definition finish (cur : list Z) (acc : list (list Z)) (k : option (list (list (list Z)))) : option (list (list (list Z))) :=
  if is_nil acc && is_nil cur then k else option_map (cons (rev (rev cur :: acc))) k.

(* csv.scm:114-176 csv-parser (inq = false) + 194-211 csv-read-quoted (inq = true), iterated over the whole input as
   (csv->list (csv-read->list parser) in) does; None = an error is raised (unterminated csv quote, or write-char of
   the eof object after a trailing escape character).  index of the code = length acc. *)
Fixpoint rd (g : grammar) (inq : bool) (cur : list Z) (acc : list (list Z)) (inp : list Z) : option (list (list (list Z))) :=
  match inp with
  | [] =>
      if inq then None
      else if is_nil acc && is_nil cur then Some [] else Some [rev (rev cur :: acc)]
  | ch :: rest =>
      if inq then
        if is_opt (quote g) ch then
          match rest with
          | c2 :: rest2 => if dbl g && Z.eqb ch c2 then rd g true (c2 :: cur) acc rest2 else rd g false cur acc rest
          | [] => rd g false cur acc rest
          end
        else if is_opt (esc g) ch then
          match rest with
          | c2 :: rest2 => rd g true (c2 :: cur) acc rest2
          | [] => None
          end
        else rd g true (ch :: cur) acc rest
      else
        if memz ch (seps g) then rd g false [] (rev cur :: acc) rest
        else if is_opt (quote g) ch then rd g true cur acc rest
        else if is_rchar g ch then finish cur acc (rd g false [] [] rest)
        else if Z.eqb ch CR && crlf_or_lax g then
          match rest with
          | c2 :: rest2 =>
              if Z.eqb c2 LF then finish cur acc (rd g false [] [] rest2)
              else if lax g then finish cur acc (rd g false [] [] rest)
              else rd g false (ch :: cur) acc rest
          | [] =>
              if lax g then finish cur acc (rd g false [] [] rest)
              else rd g false (ch :: cur) acc rest
          end
        else if Z.eqb ch LF && lax g then finish cur acc (rd g false [] [] rest)
        else rd g false (ch :: cur) acc rest
  end.

Definition csv_read (g : grammar) (inp : list Z) : option (list (list (list Z))) := rd g false [] [] inp.

(* ---------------------------------------------------------------- spec side *)
(* the rows the format can represent: an empty row and a row of one empty field are both written as a bare record
   separator, which the reader skips *)
Definition representable (r : list (list Z)) : bool :=
  match r with [] => false | [[]] => false | _ => true end.

(* grammars for which the writer's text is unambiguous *)
Definition notin (c : Z) (l : list Z) : Prop := memz c l = false.
Record wf (g : grammar) : Prop := WF {
  wf_seps : seps g <> [];
  wf_seps_nl : notin CR (seps g) /\ notin LF (seps g);
  wf_quote : exists q, quote g = Some q /\ notin q (seps g) /\ q <> CR /\ q <> LF /\ is_rchar g q = false;
  wf_esc : dbl g = true \/ exists e, esc g = Some e /\ quote g <> Some e;
  wf_rs : forall r, rs g = RChar r -> notin r (seps g)
}.
