(** C19 model of uri-encode / uri-decode of lib/chibi/uri.scm (PINNED code), on strings as lists of code points.
    [ext] stands for (or (char-alphabetic? ch) (char-numeric? ch)) on non-ASCII characters (Unicode tables, not
    modelled): the theorems hold for every such predicate; the tie feeds the implementation's own answers.
    Executable; no proofs here. *)
From ChibiV Require Export C19.Prims.
Local Open Scope Z_scope.

Definition ascii_alnum (c : Z) : bool :=
  ((65 <=? c) && (c <=? 90)) || ((97 <=? c) && (c <=? 122)) || ((48 <=? c) && (c <=? 57)).

(** uri-safe-char? (uri.scm:221-226): alphabetic, numeric or one of - _ . ! ~ * ' ( ) *)
Definition uri_safe (ext : Z -> bool) (c : Z) : bool :=
  if c <? 128 then
    ascii_alnum c || (c =? 45) || (c =? 95) || (c =? 46) || (c =? 33) || (c =? 126) || (c =? 42) || (c =? 39) || (c =? 40) || (c =? 41)
  else ext c.

(** (number->string i 16): lower case, no padding *)
Definition lhex (n : Z) : Z := if n <? 10 then 48 + n else 87 + n.
Fixpoint hex_le (fuel : nat) (n : Z) : list Z :=
  match fuel with
  | O => []
  | S f => if n <? 16 then [lhex n] else lhex (n mod 16) :: hex_le f (n / 16)
  end.
Definition hexstr (i : Z) : list Z := rev (hex_le 8 i).

(** encode-1-normal / encode-1-space (uri.scm:240-249) *)
Definition encode_1 (plus : bool) (c : Z) : list Z :=
  if plus && (c =? 32) then [43]
  else if c <? 16 then 37 :: 48 :: hexstr c else 37 :: hexstr c.

(** uri-encode (uri.scm:239-265) *)
Fixpoint uri_encode (ext : Z -> bool) (plus : bool) (s : list Z) : list Z :=
  match s with
  | [] => []
  | c :: r => if uri_safe ext c then c :: uri_encode ext plus r else encode_1 plus c ++ uri_encode ext plus r
  end.

Definition hexv (c : Z) : option Z :=
  if (48 <=? c) && (c <=? 57) then Some (c - 48)
  else if (97 <=? c) && (c <=? 102) then Some (c - 87)
  else if (65 <=? c) && (c <=? 70) then Some (c - 55)
  else None.

Definition ocons (b : Z) (o : option (list Z)) : option (list Z) :=
  match o with Some l => Some (b :: l) | None => None end.

(** uri-decode (uri.scm:273-299).  (string->number hex 16) is modelled on two hex digits only; any other pair is
    [None] here (in the code: #f -> integer->char raises, or a sign/decimal point is accepted and gives some char) *)
Fixpoint uri_decode (fuel : nat) (plus : bool) (s : list Z) : option (list Z) :=
  match fuel with
  | O => None
  | S f =>
      match s with
      | [] => Some []
      | c :: r =>
          if c =? 37 then
            match r with
            | [] => Some []                       (* % at the end: dropped *)
            | [_] => Some []                      (* %X at the end: dropped *)
            | a :: b :: r3 =>
                match hexv a, hexv b with
                | Some x, Some y => ocons (16 * x + y) (uri_decode f plus r3)
                | _, _ => None
                end
            end
          else if plus && (c =? 43) then ocons 32 (uri_decode f plus r)
          else ocons c (uri_decode f plus r)
      end
  end.

Definition uri_dec (plus : bool) (s : list Z) : option (list Z) := uri_decode (S (length s)) plus s.
