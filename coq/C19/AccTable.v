(** C19 — the shape of one row of the REGENERATED accessor table (coq/Gen/C19_AccTable.v, written by
    gen/c19_accessors.py from lib/scheme/bytevector.stub) and the accessor each row denotes.
    Definitions only; the table itself is data. *)
From Coq Require Export String.
From ChibiV Require Export C19.IntCodec.
Local Open Scope Z_scope.

Inductive akind := KSint | KUint | KF32 | KF64.

Record acc := mkAcc {
  a_name : string;            (* the Scheme name *)
  a_set : bool;               (* -set! (true) or -ref *)
  a_endian : bool;            (* takes an endianness argument (false: native) *)
  a_kind : akind;             (* the C type the inline text's helper copies ... *)
  a_width : nat;              (* ... and its sizeof: the ACCESSED window is [k, k + a_width) *)
  a_decl_kind : akind;        (* the declared C type of the result / value argument ... *)
  a_decl_width : nat;         (* ... and its sizeof *)
  a_lower : bool;             (* the assertion contains  (< -1 k)  on the index used by the access *)
  a_assert_width : option Z   (* the assertion contains  (<= (+ N k) (bytevector-length bv)):  Some N *)
}.

(** the (assert ...) form of the row, as the generated C wrapper evaluates it before the inline text *)
Definition asserted (e : acc) (len k : Z) : bool :=
  (if a_lower e then -1 <? k else true) &&
  (match a_assert_width e with Some n => n + k <=? len | None => true end).

Definition a_signed (e : acc) : bool := match a_kind e with KSint => true | _ => false end.

(** the accessor a row denotes: the row's assertion guards an access of a_width bytes at k.
    Floating-point rows transport the bit pattern (the value is the unsigned integer with the same bytes). *)
Definition acc_ref (e : acc) (big : bool) (bv : list Z) (k : Z) : option Z :=
  if asserted e (Z.of_nat (length bv)) k
  then Some (decode_int (a_width e) (a_signed e) big (firstn (a_width e) (skipn (Z.to_nat k) bv)))
  else None.

Definition acc_set (e : acc) (big : bool) (bv : list Z) (k v : Z) : option (list Z) :=
  if asserted e (Z.of_nat (length bv)) k
  then Some (firstn (Z.to_nat k) bv ++ encode_int (a_width e) big v ++ skipn (Z.to_nat k + a_width e) bv)
  else None.

Definition akind_eqb (a b : akind) : bool :=
  match a, b with KSint, KSint | KUint, KUint | KF32, KF32 | KF64, KF64 => true | _, _ => false end.

(** what must hold of a row: the asserted window IS the accessed window, the declared type is the copied type,
    and the width is one the model's theorems cover non-vacuously *)
Definition acc_ok (e : acc) : bool :=
  a_lower e &&
  (match a_assert_width e with Some n => n =? Z.of_nat (a_width e) | None => false end) &&
  akind_eqb (a_kind e) (a_decl_kind e) && (a_decl_width e =? a_width e)%nat && (0 <? a_width e)%nat.
