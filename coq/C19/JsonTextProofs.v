(** C19: the JSON writer emits printable ASCII only (every control character, the quote, the backslash and every
    non-ASCII character leave as escapes), for every value it accepts. *)
From ChibiV Require Import C19.Prims C19.PrimFacts C19.Json C19.JsonValueProofs.
Local Open Scope Z_scope.
Ltac Zify.zify_post_hook ::= Z.div_mod_to_equations.

Definition printable (b : Z) : Prop := 32 <= b < 127.
Notation text := (Forall printable).

Ltac txt := repeat (first [apply Forall_nil | apply Forall_cons]); unfold printable; lia.

Lemma some_inj {A} (a b : A) : Some a = Some b -> a = b.
Proof. intros H; inversion H; reflexivity. Qed.

Lemma hexd_printable n : 0 <= n < 16 -> printable (hexd n).
Proof. intros H. unfold hexd, printable. destruct (n <? 10) eqn:E; lia. Qed.

Lemma nib v : 0 <= band v 15 < 16.
Proof. change 15 with (Z.ones 4). rewrite band_ones_r by lia. apply Z.mod_pos_bound. reflexivity. Qed.

Lemma hex4_text c : text (hex4 c).
Proof. unfold hex4. repeat (first [apply Forall_nil | apply Forall_cons]); apply hexd_printable, nib. Qed.

Lemma wr_char_text c e : 0 <= c -> wr_char c = Some e -> text e.
Proof.
  intros Hc. unfold wr_char.
  destruct ((c <? 32) && negb ((c =? 8) || (c =? 12) || (c =? 10) || (c =? 13) || (c =? 9))) eqn:E1.
  { intros H; apply some_inj in H; subst e. constructor; [unfold printable; lia|]. constructor; [unfold printable; lia|]. apply hex4_text. }
  destruct (c <? 127) eqn:E2.
  { intros H; apply some_inj in H; subst e.
    destruct (c =? 34); [txt|].
    destruct (c =? 92); [txt|].
    destruct (c =? 8) eqn:E8; [txt|].
    destruct (c =? 12) eqn:E12; [txt|].
    destruct (c =? 10) eqn:E10; [txt|].
    destruct (c =? 13) eqn:E13; [txt|].
    destruct (c =? 9) eqn:E9; [txt|].
    txt. }
  destruct (c <=? 65535).
  { intros H; apply some_inj in H; subst e. constructor; [unfold printable; lia|]. constructor; [unfold printable; lia|]. apply hex4_text. }
  destruct ((55296 - ash_r 65536 10 + ash_r c 10 >? 65535) || (56320 + band c 1023 >? 65535)); [discriminate|].
  intros H; apply some_inj in H; subst e.
  constructor; [unfold printable; lia|]. constructor; [unfold printable; lia|].
  apply Forall_app. split; [apply hex4_text|].
  constructor; [unfold printable; lia|]. constructor; [unfold printable; lia|]. apply hex4_text.
Qed.

Lemma wr_chars_text s t : Forall (fun c => 0 <= c) s -> wr_chars s = Some t -> text t.
Proof.
  intros Hs. revert t. induction Hs as [|c s Hc Hs IH]; intros t H; cbn [wr_chars] in H.
  - injection H as <-. txt.
  - destruct (wr_char c) as [e|] eqn:He; [|discriminate]. destruct (wr_chars s) as [t'|]; [|discriminate].
    injection H as <-. apply Forall_app. split; [apply (wr_char_text c e Hc He) | apply IH; reflexivity].
Qed.

Lemma wr_string_text s t : Forall (fun c => 0 <= c) s -> wr_string s = Some t -> text t.
Proof.
  intros Hs. unfold wr_string. destruct (wr_chars s) as [b|] eqn:E; [|discriminate].
  intros H; apply some_inj in H; subst t. constructor; [unfold printable; lia | apply (wr_chars_text s b Hs E)].
Qed.

Lemma le_digits_range : forall f n, 0 <= n -> Forall (fun d => 0 <= d <= 9) (le_digits f n).
Proof.
  induction f as [|f IH]; intros n Hn; cbn [le_digits]; [constructor|].
  destruct (n <? 10) eqn:E; [repeat constructor; lia|]. constructor; [lia | apply IH; lia].
Qed.

Lemma decimal_text z : text (decimal z).
Proof.
  assert (P : forall n, 0 <= n -> text (dec_pos n)).
  { intros n Hn. unfold dec_pos. apply Forall_forall. intros x Hx. apply in_map_iff in Hx. destruct Hx as [d [<- Hd]].
    apply in_rev in Hd. pose proof (le_digits_range 20 n Hn) as R. rewrite Forall_forall in R. specialize (R d Hd).
    unfold printable. lia. }
  unfold decimal. destruct (z <? 0) eqn:E; [constructor; [unfold printable; lia | apply P; lia] | apply P; lia].
Qed.

(** values whose strings hold non-negative code points (anything a Scheme string can hold) *)
Fixpoint nonneg_strings (v : json) : Prop :=
  match v with
  | JStr s => Forall (fun c => 0 <= c) s
  | JArr l => (fix all (l : list json) : Prop := match l with [] => True | x :: r => nonneg_strings x /\ all r end) l
  | JObj l => (fix all (l : list (json * json)) : Prop :=
                 match l with [] => True | (k, x) :: r => nonneg_strings k /\ nonneg_strings x /\ all r end) l
  | _ => True
  end.

Definition TX (v : json) : Prop := nonneg_strings v -> forall t, jwrite v = Some t -> text t.

Lemma TX_arr l : Forall TX l -> TX (JArr l).
Proof.
  intros HF Hn t. cbn [jwrite]. unfold opt_app at 1.
  destruct (welems jwrite l true) as [b|] eqn:Eb; [|discriminate]. intros H; apply some_inj in H; subst t.
  constructor; [unfold printable; lia|].
  change (nonneg_strings (JArr l)) with ((fix all (l : list json) : Prop := match l with [] => True | x :: r => nonneg_strings x /\ all r end) l) in Hn.
  revert b Eb. generalize true as first.
  induction HF as [|x r Hx Hr IH]; intros first b Eb; cbn [welems] in Eb.
  - injection Eb as <-. txt.
  - destruct Hn as [Hnx Hnr]. unfold opt_app in Eb.
    destruct (jwrite x) as [tx|] eqn:Ex; [|discriminate].
    fold (welems jwrite) in Eb. destruct (welems jwrite r false) as [tr|] eqn:Er; [|discriminate].
    injection Eb as <-. apply Forall_app. split; [destruct first; txt|].
    apply Forall_app. split; [apply (Hx Hnx tx Ex) | apply (IH Hnr false tr Er)].
Qed.

Lemma TX_obj l : Forall (fun kv => TX (fst kv) /\ TX (snd kv)) l -> TX (JObj l).
Proof.
  intros HF Hn t. cbn [jwrite]. unfold opt_app at 1.
  destruct (wmembers jwrite l true) as [b|] eqn:Eb; [|discriminate]. intros H; apply some_inj in H; subst t.
  constructor; [unfold printable; lia|].
  change (nonneg_strings (JObj l)) with ((fix all (l : list (json * json)) : Prop :=
                 match l with [] => True | (k, x) :: r => nonneg_strings k /\ nonneg_strings x /\ all r end) l) in Hn.
  revert b Eb. generalize true as first.
  induction HF as [|[k x] r Hkx Hr IH]; intros first b Eb; cbn [wmembers] in Eb.
  - injection Eb as <-. txt.
  - destruct Hn as [Hnk [Hnx Hnr]]. cbn [fst snd] in Hkx. destruct Hkx as [_ Hx].
    destruct k as [| | | |ks| |]; try discriminate. unfold opt_app in Eb.
    destruct (wr_string ks) as [tk|] eqn:Ek; [|discriminate].
    destruct (jwrite x) as [tx|] eqn:Ex; [|discriminate].
    fold (wmembers jwrite) in Eb. destruct (wmembers jwrite r false) as [tr|] eqn:Er; [|discriminate].
    injection Eb as <-. apply Forall_app. split; [destruct first; txt|].
    apply Forall_app. split; [apply (wr_string_text ks tk Hnk Ek)|].
    constructor; [unfold printable; lia|].
    apply Forall_app. split; [apply (Hx Hnx tx Ex) | apply (IH Hnr false tr Er)].
Qed.

Theorem json_writer_ascii v : TX v.
Proof.
  induction v using json_ind2.
  - intros _ t H. injection H as <-. txt.
  - intros _ t H. destruct b; injection H as <-; txt.
  - intros _ t H. injection H as <-. apply decimal_text.
  - intros _ t H. discriminate.
  - intros Hn t H. apply (wr_string_text s t Hn H).
  - apply TX_arr. assumption.
  - apply TX_obj. assumption.
Qed.

(** non-vacuity: a value with a control character, a quote, a non-BMP character and a negative number *)
Example json_writer_ascii_example :
  nonneg_strings (JArr [JStr [1; 34; 128512; 233]; JInt (-12)]) /\
  jwrite (JArr [JStr [1; 34; 128512; 233]; JInt (-12)]) =
    Some [91; 34; 92;117;48;48;48;49; 92;34; 92;117;68;56;51;68; 92;117;68;69;48;48; 92;117;48;48;69;57; 34; 44; 45;49;50; 93].
Proof. split; [cbn; repeat split; repeat (first [apply Forall_nil | apply Forall_cons]); lia | vm_compute; reflexivity]. Qed.
