(** C19 — mirrors of the Scheme / C primitives the codec libraries are written with.
    Bytes and characters are [Z]; byte strings are [list Z].  Definitions only. *)
From Coq Require Export ZArith List Lia Bool.
Export ListNotations.
Local Open Scope Z_scope.

Definition isbyte (b : Z) : Prop := 0 <= b < 256.
Notation bytes := (Forall isbyte).
Definition isbyteb (b : Z) : bool := (0 <=? b) && (b <? 256).

(** (arithmetic-shift x k), k >= 0 / (arithmetic-shift x (- k)) *)
Definition ash_l (x k : Z) : Z := Z.shiftl x k.
Definition ash_r (x k : Z) : Z := Z.shiftr x k.
(** (bit-field n start end)  — SRFI 151 *)
Definition bit_field (n s e : Z) : Z := Z.land (Z.shiftr n s) (Z.ones (e - s)).
Definition ior (a b : Z) : Z := Z.lor a b.
Definition band (a b : Z) : Z := Z.land a b.

(** every byte value, for finite sweeps *)
Definition zrange (lo n : nat) : list Z := map (fun i => Z.of_nat i) (seq lo n).
Definition all_bytes : list Z := zrange 0 256.
