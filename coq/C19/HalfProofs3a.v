(* C19 — mini-floats, sweep 3a: boundaries between adjacent halves 0 .. 0+16384-1 *)
From Coq Require Import ZArith List Bool.
From ChibiV Require Import C19.Half C19.HalfSweep C19.HalfBnd Gen.C19_HalfFns.
Open Scope Z_scope.
Lemma bnd_part_a : forallb bnd_ok (zr (Pos.to_nat 16384) 0) = true.
Proof. vm_cast_no_check (@eq_refl bool true). Qed.
