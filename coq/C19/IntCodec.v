(** C19 model of the fixed-width numeric bytevector accessors of lib/scheme/bytevector.stub
    (bytevector-{u,s}{8,16,32,64}[-native]-{ref,set!}) and of the arbitrary-size Scheme accessors
    bytevector-{u,s}int-{ref,set!} of lib/scheme/bytevector.sld:99-126.  Executable; no proofs here.
    The bounds test is the REPAIRED one (fixes/C19-bytevector-accessor-bounds.patch):
    (assert (< -1 k) (<= (+ w k) (bytevector-length bv))); the pinned stub tested only k < len in the
    setters and nothing at all in the getters. *)
From ChibiV Require Export C19.Prims.
Local Open Scope Z_scope.

Definition bits (w : nat) : Z := 8 * Z.of_nat w.

(** what a C conversion to uintN_t keeps of the argument (sexp_sint_value -> (uintN_t) / (intN_t) bits) *)
Definition to_unsigned (w : nat) (v : Z) : Z := v mod 2 ^ bits w.

(** memcpy of an N-byte little-endian host integer: set_u16/32/64 (stub:54-121) *)
Fixpoint le_bytes (w : nat) (u : Z) : list Z :=
  match w with
  | O => []
  | S w' => u mod 256 :: le_bytes w' (u / 256)
  end.

Fixpoint le_val (l : list Z) : Z :=
  match l with
  | [] => 0
  | b :: r => b + 256 * le_val r
  end.

(** bytevector-uN-set! value part: endianness other than the host's (little) goes through sexp_swap_*,
    modelled as reversal of the byte sequence. *)
Definition encode_int (w : nat) (big : bool) (v : Z) : list Z :=
  let l := le_bytes w (to_unsigned w v) in if big then rev l else l.

(** bytevector-{u,s}N-ref value part: signed reading = two's complement of the same bits
    (ref_sN returns intN_t; sexp_make_integer) *)
Definition decode_int (w : nat) (signed big : bool) (l : list Z) : Z :=
  let u := le_val (if big then rev l else l) in
  if signed && (2 ^ (bits w - 1) <=? u) then u - 2 ^ bits w else u.

(** the repaired assertion of every accessor *)
Definition in_bounds (len k : Z) (w : nat) : bool := (-1 <? k) && (Z.of_nat w + k <=? len).

Definition bv_ref (w : nat) (signed big : bool) (bv : list Z) (k : Z) : option Z :=
  if in_bounds (Z.of_nat (length bv)) k w
  then Some (decode_int w signed big (firstn w (skipn (Z.to_nat k) bv)))
  else None.

Definition bv_set (w : nat) (big : bool) (bv : list Z) (k v : Z) : option (list Z) :=
  if in_bounds (Z.of_nat (length bv)) k w
  then Some (firstn (Z.to_nat k) bv ++ encode_int w big v ++ skipn (Z.to_nat k + w) bv)
  else None.

(** SPEC side: the representable range of a w-byte integer *)
Definition in_range (w : nat) (signed : bool) (v : Z) : Prop :=
  if signed then - 2 ^ (bits w - 1) <= v < 2 ^ (bits w - 1) else 0 <= v < 2 ^ bits w.
