(* C19 — mini-floats: the 1.5.2 quarters (table regenerated from sexp.c) *)
From Coq Require Import ZArith List Bool Lia.
From ChibiV Require Import C19.Half C19.HalfSweep Gen.C19_Quarters.
Import ListNotations.
Open Scope Z_scope.
Ltac Zify.zify_post_hook ::= Z.div_mod_to_equations.

Definition qrt_ok (q : Z) : bool := double_to_quarter (quarter_to_double q) =? quarter_canon q.
Lemma qrt_all : forallb qrt_ok (zrange 256) = true.
Proof. vm_cast_no_check (@eq_refl bool true). Qed.

(* every pattern round-trips, up to: the three NaN patterns of either sign (125, 126, 127, 253, 254, 255) collapse to
   127, and -0 (128) comes back as +0 because the code tests (f < 0) *)
Lemma quarter_roundtrip : forall q, 0 <= q < 256 -> double_to_quarter (quarter_to_double q) = quarter_canon q.
Proof. intros q Hq. apply Z.eqb_eq. exact (sweep qrt_ok 256 qrt_all q Hq). Qed.

Definition qex_ok (q : Z) : bool :=
  let r := Z.land q 127 in
  if r <? 124 then finite64 (quarter_to_double q) && dy_eqb (dyadic64 (quarter_to_double q)) (quarter_dyadic q)
  else if r =? 124 then isinf64 (quarter_to_double q) && (sign64 (quarter_to_double q) =? Z.shiftr q 7)
  else isnan64 (quarter_to_double q).
Lemma qex_all : forallb qex_ok (zrange 256) = true.
Proof. vm_cast_no_check (@eq_refl bool true). Qed.

(* the table IS the 1.5.2 format with bias 15: entry = (-1)^s m 2^-16 (exponent field 0) or (-1)^s (4+m) 2^(e-17) *)
Lemma quarter_to_double_exact : forall q, 0 <= q < 256 -> Z.land q 127 < 124 ->
  finite64 (quarter_to_double q) = true /\ dy_eq (dyadic64 (quarter_to_double q)) (quarter_dyadic q).
Proof.
  intros q Hq Hr. pose proof (sweep qex_ok 256 qex_all q Hq) as H. unfold qex_ok in H.
  apply Z.ltb_lt in Hr. rewrite Hr in H. apply andb_prop in H. destruct H as [H1 H2].
  split; [exact H1|apply dy_eqb_eq; exact H2].
Qed.

Definition qsorted_ok (i : Z) : bool := qtab i <? qtab (i + 1).
Lemma qsorted_all : forallb qsorted_ok (zrange 124) = true.
Proof. vm_cast_no_check (@eq_refl bool true). Qed.
(* strictly increasing up to the infinity (bit patterns of non-negative doubles order like their values): what the
   binary search needs *)
Lemma quarters_sorted : forall i, 0 <= i < 124 -> qtab i < qtab (i + 1).
Proof. intros i Hi. apply Z.ltb_lt. exact (sweep qsorted_ok 124 qsorted_all i Hi). Qed.

(* the fuel of the model's binary search suffices: 9 rounds for 124 entries *)
Lemma q_search_fuel : forall k lo hi f, -1 <= hi - lo -> hi - lo + 1 < 2 ^ Z.of_nat k -> q_search (S k) lo hi f <> None.
Proof.
  induction k as [|k IH]; intros lo hi f Hs H.
  - cbn [q_search]. simpl in H. destruct (hi <? lo) eqn:E; [discriminate|apply Z.ltb_ge in E; lia].
  - remember (S k) as k1. cbn [q_search]. subst k1. destruct (hi <? lo) eqn:E; [discriminate|].
    apply Z.ltb_ge in E. rewrite Nat2Z.inj_succ, Z.pow_succ_r in H by lia.
    destruct (qtab ((lo + hi) / 2) <? f); [apply IH; lia|].
    destruct (f <? qtab ((lo + hi) / 2)); [apply IH; lia|discriminate].
Qed.
Lemma d2q_search_total : forall f, q_search 9 0 (quarters_infinity_index - 1) f <> None.
Proof. intro f. apply (q_search_fuel 8); vm_compute; [discriminate|reflexivity]. Qed.

Definition qmid (i : Z) : Z := mid64 (qtab i) (qtab (i + 1)).
Definition qbnd_ok (i : Z) : bool :=
  (let '(x, y, k) := dy_align (dyadic64 (qtab i)) (dyadic64 (qtab (i + 1))) in dy_eqb (dyadic64 (qmid i)) (x + y, k - 1)) &&
  (double_to_quarter (qmid i) =? i) && (double_to_quarter (pred64 (qmid i)) =? i) && (double_to_quarter (succ64 (qmid i)) =? i + 1) &&
  (double_to_quarter (neg64 (qmid i)) =? 128 + i) && (double_to_quarter (neg64 (succ64 (qmid i))) =? 128 + i + 1).
Lemma qbnd_all : forallb qbnd_ok (zrange 123) = true.
Proof. vm_cast_no_check (@eq_refl bool true). Qed.

(* sexp_double_to_quarter rounds to nearest at every boundary between adjacent finite quarters i < i+1 (0..123): the
   double just above the midpoint goes up, the midpoint itself and the double just below go down (ties toward zero),
   symmetrically for negative arguments *)
Lemma double_to_quarter_boundaries : forall i, 0 <= i < 123 ->
  double_to_quarter (qmid i) = i /\ double_to_quarter (pred64 (qmid i)) = i /\ double_to_quarter (succ64 (qmid i)) = i + 1 /\
  double_to_quarter (neg64 (qmid i)) = 128 + i /\ double_to_quarter (neg64 (succ64 (qmid i))) = 128 + i + 1.
Proof.
  intros i Hi. pose proof (sweep qbnd_ok 123 qbnd_all i Hi) as H. unfold qbnd_ok in H.
  repeat (apply andb_prop in H; let H' := fresh "H" in destruct H as [H H']).
  repeat match goal with X : (_ =? _) = true |- _ => apply Z.eqb_eq in X end. auto.
Qed.

(* finite doubles above the largest quarter 57344 saturate to it (index 123), they do not become infinite *)
Lemma double_to_quarter_edges :
  double_to_quarter 0x7FEFFFFFFFFFFFFF = 123 /\ double_to_quarter 0xFFEFFFFFFFFFFFFF = 251 /\
  double_to_quarter 0x7FF0000000000000 = 124 /\ double_to_quarter 0xFFF0000000000000 = 252 /\
  double_to_quarter 0x8000000000000000 = 0 /\ double_to_quarter 0x0000000000000001 = 0 /\
  double_to_quarter 0x3EE0000000000000 = 0 /\ double_to_quarter 0x3EE0000000000001 = 1.
Proof. repeat split; vm_compute; reflexivity. Qed.

Example quarter_ex : quarter_to_double 61 = 0x3FF4000000000000 /\ double_to_quarter 0x3FF4000000000000 = 61.
Proof. split; vm_compute; reflexivity. Qed.
