(* C19 — mini-floats: the boundary predicate swept by HalfProofs3a/3b (definitions only) *)
From Coq Require Import ZArith List Bool.
From ChibiV Require Import C19.Half Gen.C19_HalfFns.
Open Scope Z_scope.

(* the double half way between the values of the half patterns a and a+1 (both non-negative, neither special) *)
Definition hmid (a : Z) : Z := mid64 (gen_half_to_double a) (gen_half_to_double (a + 1)).

Definition bnd_ok (a : Z) : bool :=
  half_special a || half_special (a + 1) ||
  (let da := gen_half_to_double a in let db := gen_half_to_double (a + 1) in
   let m := mid64 da db in
   let '(x, y, k) := dy_align (dyadic64 da) (dyadic64 db) in
   finite64 m && dy_eqb (dyadic64 m) (x + y, k - 1) &&     (* m is exactly half way: 2 m = da + db *)
   (gen_double_to_half m =? a + 1) &&                      (* the tie goes AWAY from zero, whatever the parity *)
   (gen_double_to_half (predf64 m) =? a) &&                (* the largest binary32 below the tie goes down *)
   (gen_double_to_half (pred64 m) =? a + 1)).              (* the largest binary64 below the tie goes UP: double rounding *)
