(** C19 round 4 — facts about Json number acceptance (JsonNum.num_accept). *)
From Coq Require Import ZArith Bool Lia.
From ChibiV Require Import C19.JsonNum.
Open Scope Z_scope.

Lemma na_a_ok e : 0 <= na_a e /\ 0 <= e + na_a e.
Proof. unfold na_a. lia. Qed.
Lemma na_b_ok k p : 0 <= na_b k p /\ 0 <= k + na_b k p /\ 0 <= p - 9 + na_b k p.
Proof. unfold na_b. lia. Qed.

Lemma pow_pos_2 n : 0 <= n -> 0 < 2 ^ n.
Proof. intros. apply Z.pow_pos_nonneg; lia. Qed.
Lemma pow_pos_10 n : 0 <= n -> 0 < 10 ^ n.
Proof. intros. apply Z.pow_pos_nonneg; lia. Qed.

(** what the boolean says, as a proposition over the scaled integers *)
Lemma num_accept_spec m e d k p : m <> 0 ->
  num_accept m e d k p = true <->
  (1000000000 * na_U e k p <= Z.abs (na_X m e k p) < 10000000000 * na_U e k p /\
   2 * Z.abs (na_T e d k p - na_X m e k p) <= na_U e k p).
Proof.
  intros Hm. unfold num_accept. destruct (Z.eqb_spec m 0) as [->|_]; [lia|].
  rewrite !andb_true_iff, !Z.leb_le, Z.ltb_lt. tauto.
Qed.

(** an accepted text is within 5 * 10^-10 of the value, relatively:  2 * 10^9 * |T - x| <= |x|  *)
Theorem num_accept_relative m e d k p : m <> 0 -> num_accept m e d k p = true ->
  2000000000 * Z.abs (na_T e d k p - na_X m e k p) <= Z.abs (na_X m e k p).
Proof.
  intros Hm H. apply (num_accept_spec _ _ _ _ _ Hm) in H. lia.
Qed.

(** an accepted text has the sign of the value (a lost or spurious minus sign is always rejected) and is not zero *)
Theorem num_accept_sign m e d k p : m <> 0 -> num_accept m e d k p = true ->
  (0 < m <-> 0 < d) /\ d <> 0.
Proof.
  intros Hm H. pose proof (num_accept_relative _ _ _ _ _ Hm H) as Hr.
  apply (num_accept_spec _ _ _ _ _ Hm) in H. destruct H as [[Hlo _] _].
  unfold na_X, na_T in *.
  destruct (na_a_ok e) as [Ha Hea]. destruct (na_b_ok k p) as [Hb [Hkb Hpb]].
  pose proof (pow_pos_2 _ Hea) as P1. pose proof (pow_pos_10 _ Hb) as P2.
  pose proof (pow_pos_10 _ Hkb) as P3. pose proof (pow_pos_2 _ Ha) as P4.
  assert (PU : 0 < na_U e k p) by (unfold na_U; apply Z.mul_pos_pos; [apply pow_pos_10; assumption | assumption]).
  set (F := 2 ^ (e + na_a e) * 10 ^ na_b k p) in *.
  assert (PF : 0 < F) by (unfold F; apply Z.mul_pos_pos; assumption).
  set (R := 10 ^ (k + na_b k p) * 2 ^ na_a e) in *.
  assert (PR : 0 < R) by (unfold R; apply Z.mul_pos_pos; assumption).
  replace (m * 2 ^ (e + na_a e) * 10 ^ na_b k p) with (m * F) in * by (unfold F; ring).
  assert (Hx : m * F <> 0) by nia.
  split; [split; intro Hs|].
  - assert (0 < m * F) by nia. assert (0 < d * R) by lia. nia.
  - assert (0 < d * R) by nia. assert (0 < m * F) by lia. nia.
  - intros ->. rewrite Z.mul_0_l in Hr. lia.
Qed.

(** a text whose decimal exponent is off by j >= 1 places (a dropped or added exponent digit, a lost exponent sign) is rejected:
    T and T * 10^j cannot both be accepted for the same value *)
Theorem num_accept_exponent_unique m e d k p j : m <> 0 -> 0 < j ->
  num_accept m e d k p = true -> num_accept m e (d * 10 ^ j) k p = false.
Proof.
  intros Hm Hj H. destruct (num_accept m e (d * 10 ^ j) k p) eqn:H2; [exfalso|reflexivity].
  pose proof (num_accept_sign _ _ _ _ _ Hm H) as [_ Hd].
  pose proof (num_accept_relative _ _ _ _ _ Hm H) as R1.
  pose proof (num_accept_relative _ _ _ _ _ Hm H2) as R2.
  unfold na_T in *.
  set (R := 10 ^ (k + na_b k p) * 2 ^ na_a e) in *.
  destruct (na_a_ok e) as [Ha _]. destruct (na_b_ok k p) as [_ [Hkb _]].
  assert (PR : 0 < R) by (unfold R; apply Z.mul_pos_pos; [apply pow_pos_10|apply pow_pos_2]; assumption).
  assert (HJ : 10 <= 10 ^ j).
  { replace j with (1 + (j - 1)) by lia. rewrite Z.pow_add_r by lia. pose proof (pow_pos_10 (j - 1)). nia. }
  set (J := 10 ^ j) in *. set (X := na_X m e k p) in *.
  replace (d * J * R) with (J * (d * R)) in R2 by ring.
  set (T := d * R) in *. assert (T <> 0) by (unfold T; nia).
  nia.
Qed.

(** the hypotheses are satisfiable, and the predicate decides the seeded instance:
    x = -2.718281828e300 (bits FE503C69E1A9CA99): "-2.718281828E+300" accepted, "-2.718281828E+30" (last exponent digit cut) rejected *)
Example accept_seeded_value :
  num_accept (-4570025082604185) 946 (-2718281828) 291 300 = true /\
  num_accept (-4570025082604185) 946 (-2718281828) 21 300 = false /\
  num_accept (-4570025082604185) 946 2718281828 291 300 = false /\
  num_accept (-4570025082604185) 946 (-2718281828) 291 299 = false.
Proof. vm_compute. repeat split. Qed.
(** 0.1 is written "0.1"; 12345678905 (a tie in the 10th digit) may be written either way; one more unit is too far *)
Example accept_small :
  num_accept 7205759403792794 (-56) 1 (-1) (-1) = true /\
  num_accept 12345678905 0 1234567890 1 10 = true /\ num_accept 12345678905 0 1234567891 1 10 = true /\
  num_accept 12345678905 0 1234567892 1 10 = false.
Proof. vm_compute. repeat split. Qed.
