(** C19 proofs about the numeric accessor model. *)
From ChibiV Require Import C19.Prims C19.IntCodec.
Local Open Scope Z_scope.

Lemma bits_S w : bits (S w) = 8 + bits w.
Proof. unfold bits. rewrite Nat2Z.inj_succ. lia. Qed.

Lemma pow_bits_S w : 2 ^ bits (S w) = 256 * 2 ^ bits w.
Proof. rewrite bits_S. rewrite Z.pow_add_r by (unfold bits; lia). reflexivity. Qed.

Lemma pow_bits_pos w : 0 < 2 ^ bits w.
Proof. apply Z.pow_pos_nonneg; unfold bits; lia. Qed.

Lemma le_bytes_length w u : length (le_bytes w u) = w.
Proof. revert u; induction w as [|w IH]; intros u; cbn [le_bytes length]; [reflexivity | rewrite IH; reflexivity]. Qed.

Lemma le_bytes_bytes w u : bytes (le_bytes w u).
Proof.
  revert u; induction w as [|w IH]; intros u; cbn [le_bytes]; constructor; [|apply IH].
  unfold isbyte. apply Z.mod_pos_bound. lia.
Qed.

Lemma le_val_le_bytes w u : le_val (le_bytes w u) = u mod 2 ^ bits w.
Proof.
  revert u; induction w as [|w IH]; intros u.
  - cbn [le_bytes le_val]. change (bits 0) with 0. rewrite Z.pow_0_r, Z.mod_1_r. reflexivity.
  - cbn [le_bytes le_val]. rewrite IH, pow_bits_S.
    rewrite Z.rem_mul_r; [reflexivity | lia | apply pow_bits_pos].
Qed.

Lemma encode_length w big v : length (encode_int w big v) = w.
Proof. unfold encode_int. destruct big; [rewrite rev_length|]; apply le_bytes_length. Qed.

Lemma encode_bytes w big v : bytes (encode_int w big v).
Proof.
  unfold encode_int. destruct big; [|apply le_bytes_bytes].
  apply Forall_forall. intros x Hx. apply in_rev in Hx.
  pose proof (le_bytes_bytes w (to_unsigned w v)) as H. rewrite Forall_forall in H. apply H. exact Hx.
Qed.

Lemma decode_encode_unsigned_val w (big : bool) v :
  le_val (if big then rev (encode_int w big v) else encode_int w big v) = v mod 2 ^ bits w.
Proof.
  unfold encode_int. destruct big; [rewrite rev_involutive|]; rewrite le_val_le_bytes; unfold to_unsigned;
    apply Z.mod_mod; pose proof (pow_bits_pos w); lia.
Qed.

Theorem int_codec_roundtrip (w : nat) (signed big : bool) (v : Z) :
  (0 < w)%nat -> in_range w signed v -> decode_int w signed big (encode_int w big v) = v.
Proof.
  intros Hw Hr. unfold decode_int. rewrite decode_encode_unsigned_val.
  assert (Hsplit : 2 ^ bits w = 2 * 2 ^ (bits w - 1)).
  { rewrite <- Z.pow_succ_r by (unfold bits; lia). f_equal. lia. }
  assert (Hhalf : 0 < 2 ^ (bits w - 1)) by (apply Z.pow_pos_nonneg; unfold bits; lia).
  set (M := 2 ^ (bits w - 1)) in *. rewrite Hsplit in *.
  unfold in_range in Hr. destruct signed; cbn [andb].
  - destruct (Z_lt_le_dec v 0) as [Hneg|Hpos].
    + assert (E : v mod (2 * M) = v + 2 * M).
      { rewrite <- (Z.mod_add v 1 (2 * M)) by lia. rewrite Z.mul_1_l. apply Z.mod_small. lia. }
      rewrite E. assert (M <=? v + 2 * M = true) as -> by lia. lia.
    + rewrite Z.mod_small by lia. assert (M <=? v = false) as -> by lia. reflexivity.
  - fold M in Hr. rewrite Hsplit in Hr. apply Z.mod_small. lia.
Qed.

(** outside the range the setters keep the low bits, exactly as the C conversion does *)
Theorem int_codec_wraps (w : nat) (big : bool) (v : Z) :
  decode_int w false big (encode_int w big v) = v mod 2 ^ bits w.
Proof. unfold decode_int. cbn [andb]. apply decode_encode_unsigned_val. Qed.

Lemma in_bounds_spec len k w : in_bounds len k w = true <-> 0 <= k /\ k + Z.of_nat w <= len.
Proof. unfold in_bounds. lia. Qed.

(** the accessors succeed exactly when the whole w-byte window lies inside the bytevector *)
Theorem accessor_in_bounds (w : nat) (signed big : bool) (bv : list Z) (k v : Z) :
  (bv_ref w signed big bv k <> None <-> 0 <= k /\ k + Z.of_nat w <= Z.of_nat (length bv)) /\
  (bv_set w big bv k v <> None <-> 0 <= k /\ k + Z.of_nat w <= Z.of_nat (length bv)).
Proof.
  unfold bv_ref, bv_set. rewrite <- in_bounds_spec.
  destruct (in_bounds (Z.of_nat (length bv)) k w); split; split; intros H; try reflexivity; try discriminate; congruence.
Qed.

(** a successful set! changes exactly the window, keeps the length, and the matching ref reads the value back *)
Theorem accessor_set_ref (w : nat) (signed big : bool) (bv bv' : list Z) (k v : Z) :
  (0 < w)%nat -> in_range w signed v -> bv_set w big bv k v = Some bv' ->
  length bv' = length bv /\
  bv_ref w signed big bv' k = Some v /\
  (forall i, (i < Z.to_nat k \/ Z.to_nat k + w <= i)%nat -> nth_error bv' i = nth_error bv i).
Proof.
  intros Hw Hr. unfold bv_set. destruct (in_bounds (Z.of_nat (length bv)) k w) eqn:Hb; [|discriminate].
  intros H; injection H as <-. apply in_bounds_spec in Hb. destruct Hb as [Hk Hkw].
  set (n := Z.to_nat k) in *.
  assert (Hn : (n + w <= length bv)%nat) by lia.
  assert (Hlen : length (firstn n bv ++ encode_int w big v ++ skipn (n + w) bv) = length bv).
  { rewrite !app_length, firstn_length, skipn_length, encode_length. lia. }
  split; [exact Hlen|]. split.
  - unfold bv_ref. rewrite Hlen.
    assert (in_bounds (Z.of_nat (length bv)) k w = true) as -> by (apply in_bounds_spec; lia).
    f_equal. fold n.
    rewrite skipn_app. rewrite firstn_length, Nat.min_l by lia. rewrite Nat.sub_diag. cbn [skipn].
    rewrite skipn_all2 by (rewrite firstn_length; lia). cbn [app].
    rewrite firstn_app, encode_length, Nat.sub_diag. cbn [firstn]. rewrite app_nil_r.
    rewrite firstn_all2 by (rewrite encode_length; lia).
    apply int_codec_roundtrip; assumption.
  - intros i [Hi|Hi].
    + rewrite nth_error_app1 by (rewrite firstn_length; lia).
      rewrite <- (firstn_skipn n bv) at 2. rewrite nth_error_app1 by (rewrite firstn_length; lia). reflexivity.
    + rewrite nth_error_app2 by (rewrite firstn_length; lia). rewrite firstn_length, Nat.min_l by lia.
      rewrite nth_error_app2 by (rewrite encode_length; lia). rewrite encode_length.
      rewrite <- (firstn_skipn (n + w) bv) at 2.
      rewrite nth_error_app2 by (rewrite firstn_length; lia). rewrite firstn_length, Nat.min_l by lia.
      f_equal. lia.
Qed.

Theorem encode_length_bytes w big v : length (encode_int w big v) = w /\ bytes (encode_int w big v).
Proof. split; [apply encode_length | apply encode_bytes]. Qed.

(** non-vacuity *)
Example int_codec_example :
  encode_int 2 true (-2) = [255; 254] /\ decode_int 2 true true [255; 254] = -2 /\
  bv_set 4 false [1;2;3;4;5;6] 2 (-1) = Some [1;2;255;255;255;255] /\ bv_set 4 false [1;2;3;4;5;6] 3 0 = None /\
  bv_ref 8 true false [0;0;0;0;0;0;0;128] 0 = Some (-9223372036854775808) /\ bv_ref 2 false false [1;2] (-1) = None.
Proof. vm_compute. repeat split. Qed.
