(** C19 proofs about the quoted-printable model. *)
From ChibiV Require Import C19.Prims C19.PrimFacts C19.QP.
Local Open Scope Z_scope.
Ltac Zify.zify_post_hook ::= Z.div_mod_to_equations.

Definition sweepB (P : Z -> bool) : bool := forallb P all_bytes.
Lemma sweepB_lift P : sweepB P = true -> forall a, isbyte a -> P a = true.
Proof. unfold sweepB. intros H a Ha. rewrite forallb_forall in H. apply H. apply in_all_bytes. exact Ha. Qed.

(** what the decoder needs to know about an escape =XY written by the encoder *)
Definition esc_ok (c : Z) : bool :=
  let h1 := qhex (ash_r c 4) in let h2 := qhex (band c 15) in
  negb (h1 =? 10) && (negb (h1 =? 13) && (negb (h2 =? 13) && (qhexp h1 && (qhexp h2 && ((unhex h1 h2 =? c) && (qp_char h1 && qp_char h2)))))).

Lemma esc_facts c : isbyte c ->
  qhex (ash_r c 4) <> 10 /\ qhex (ash_r c 4) <> 13 /\ qhex (band c 15) <> 13 /\
  qhexp (qhex (ash_r c 4)) = true /\ qhexp (qhex (band c 15)) = true /\
  unhex (qhex (ash_r c 4)) (qhex (band c 15)) = c /\
  qp_char (qhex (ash_r c 4)) = true /\ qp_char (qhex (band c 15)) = true.
Proof.
  intros Hc. assert (E : esc_ok c = true) by (apply sweepB_lift; [vm_compute; reflexivity | exact Hc]).
  unfold esc_ok in E. cbv zeta in E.
  repeat (apply andb_true_iff in E; let A := fresh "A" in destruct E as [A E]).
  rewrite negb_true_iff in A, A0, A1. apply Z.eqb_neq in A, A0, A1. apply Z.eqb_eq in A4.
  repeat split; assumption.
Qed.

Lemma dec_lit c f r : qp_literal c = true -> qp_dec (S f) false (c :: r) = opt_cons c (qp_dec f false r).
Proof.
  unfold qp_literal. intros H. cbn [qp_dec].
  assert (c =? 61 = false) as -> by lia. assert (c =? 95 = false) as -> by lia.
  assert ((c =? 32) || (c =? 9) = false) as -> by lia. reflexivity.
Qed.

Lemma dec_esc c f r : isbyte c ->
  qp_dec (S f) false (61 :: qhex (ash_r c 4) :: qhex (band c 15) :: r) = opt_cons c (qp_dec f false r).
Proof.
  intros Hc. destruct (esc_facts c Hc) as (N10 & N13 & N13b & X1 & X2 & U & _ & _).
  cbn [qp_dec]. change (61 =? 61) with true. cbv beta iota.
  apply Z.eqb_neq in N10, N13. rewrite N10, N13, X1, X2, U. reflexivity.
Qed.

Lemma dec_sep f r : qp_dec (S f) false (61 :: 13 :: 10 :: r) = qp_dec f false r.
Proof. reflexivity. Qed.

Lemma roundtrip_gen : forall bs col f, bytes bs -> (length (qp_loop MAXCOL SEP bs col) < f)%nat ->
  qp_dec f false (qp_loop MAXCOL SEP bs col) = Some bs.
Proof.
  induction bs as [|c r IH]; intros col f Hb Hf.
  - destruct f; [cbn in Hf; lia | reflexivity].
  - pose proof (Forall_inv Hb) as Hc. pose proof (Forall_inv_tail Hb) as Hr.
    cbn [qp_loop] in *.
    destruct (col >=? MAXCOL - 3) eqn:Ebrk.
    + (* a soft line break first *)
      destruct (qp_literal c) eqn:El; cbn [SEP app] in *.
      * destruct f as [|[|f]]; [cbn [length] in Hf; lia .. |].
        rewrite dec_sep, dec_lit by exact El. rewrite IH; [reflexivity | exact Hr | cbn [length] in Hf; lia].
      * destruct f as [|[|f]]; [cbn [length] in Hf; lia .. |].
        rewrite dec_sep, dec_esc by exact Hc. rewrite IH; [reflexivity | exact Hr | cbn [length] in Hf; lia].
    + destruct (qp_literal c) eqn:El; cbn [app] in *.
      * destruct f as [|f]; [cbn [length] in Hf; lia|].
        rewrite dec_lit by exact El. rewrite IH; [reflexivity | exact Hr | cbn [length] in Hf; lia].
      * destruct f as [|f]; [cbn [length] in Hf; lia|].
        rewrite dec_esc by exact Hc. rewrite IH; [reflexivity | exact Hr | cbn [length] in Hf; lia].
Qed.

Theorem qp_roundtrip bs : bytes bs -> qp_decode (qp_encode bs) = Some bs.
Proof. intros H. unfold qp_decode, qp_encode. apply roundtrip_gen; [exact H | lia]. Qed.

(** * alphabet *)
Lemma qp_loop_alphabet : forall bs col, bytes bs -> Forall (fun c => qp_char c = true) (qp_loop MAXCOL SEP bs col).
Proof.
  induction bs as [|c r IH]; intros col Hb; [constructor|].
  pose proof (Forall_inv Hb) as Hc. pose proof (Forall_inv_tail Hb) as Hr.
  destruct (esc_facts c Hc) as (N10 & N13 & N13b & X1 & X2 & U & Q1 & Q2).
  cbn [qp_loop].
  assert (Hbrk : Forall (fun c => qp_char c = true) (if col >=? MAXCOL - 3 then SEP else [])).
  { destruct (col >=? MAXCOL - 3); [repeat constructor | constructor]. }
  destruct (qp_literal c) eqn:El; apply Forall_app; split; try exact Hbrk.
  - constructor; [unfold qp_literal, qp_char in *; lia | apply IH; exact Hr].
  - constructor; [reflexivity|]. constructor; [exact Q1|]. constructor; [exact Q2|]. apply IH; exact Hr.
Qed.

Theorem qp_alphabet bs : bytes bs -> Forall (fun c => qp_char c = true) (qp_encode bs).
Proof. apply qp_loop_alphabet. Qed.

(** * no output line is longer than 76 characters (soft breaks included) *)
Lemma max_line_step c r cur best : c <> 13 -> max_line (c :: r) cur best = max_line r (cur + 1) best.
Proof.
  intros H. cbn [max_line]. destruct r as [|d r']; [reflexivity|].
  assert (c =? 13 = false) as -> by lia. reflexivity.
Qed.

Lemma max_line_sep r cur best : max_line (61 :: 13 :: 10 :: r) cur best = max_line r 0 (Z.max (cur + 1) best).
Proof. reflexivity. Qed.

Lemma qp_loop_lines : forall bs col best, bytes bs -> 0 <= col <= 75 -> best <= 76 ->
  max_line (qp_loop MAXCOL SEP bs col) col best <= 76.
Proof.
  induction bs as [|c r IH]; intros col best Hb Hcol Hbest.
  - cbn [qp_loop max_line]. lia.
  - pose proof (Forall_inv Hb) as Hc. pose proof (Forall_inv_tail Hb) as Hr.
    destruct (esc_facts c Hc) as (N10 & N13 & N13b & X1 & X2 & U & Q1 & Q2).
    cbn [qp_loop]. unfold MAXCOL in *.
    destruct (col >=? 76 - 3) eqn:Ebrk.
    + destruct (qp_literal c) eqn:El; cbn [SEP app]; rewrite max_line_sep.
      * rewrite max_line_step by (unfold qp_literal in El; lia). apply IH; [exact Hr | lia | lia].
      * rewrite max_line_step by lia. rewrite max_line_step by exact N13. rewrite max_line_step by exact N13b.
        replace (0 + 1 + 1 + 1) with (0 + 3) by lia. apply IH; [exact Hr | lia | lia].
    + destruct (qp_literal c) eqn:El; cbn [app].
      * rewrite max_line_step by (unfold qp_literal in El; lia). apply IH; [exact Hr | lia | lia].
      * rewrite max_line_step by lia. rewrite max_line_step by exact N13. rewrite max_line_step by exact N13b.
        replace (col + 1 + 1 + 1) with (col + 3) by lia. apply IH; [exact Hr | lia | lia].
Qed.

Theorem qp_line_length bs : bytes bs -> max_line (qp_encode bs) 0 0 <= 76.
Proof. intros H. apply qp_loop_lines; [exact H | lia | lia]. Qed.

(** non-vacuity: 30 bytes that need escaping cross the 76 column limit; the break never splits an =XX *)
Example qp_example :
  qp_encode [72; 105; 32; 61; 255] = [72; 105; 61;50;48; 61;51;68; 61;70;70] /\
  max_line (qp_encode (repeat 255 30)) 0 0 = 76 /\
  qp_decode (qp_encode (repeat 255 30)) = Some (repeat 255 30) /\
  qp_decode [97; 61] = None /\ qp_decode [97; 32] = None /\ qp_decode [97; 61; 10; 98; 32; 32; 13; 10; 99] = Some [97; 98; 99].
Proof. vm_compute. repeat split. Qed.
