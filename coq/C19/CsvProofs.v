(* C19 — proofs about the csv writer/reader model of C19/Csv.v *)
From Coq Require Import ZArith List Bool Lia.
From ChibiV Require Import C19.Csv.
Import ListNotations. Open Scope Z_scope.

(* ---------------------------------------------------------------- basic facts *)
Lemma is_opt_true_iff : forall o ch, is_opt o ch = true <-> o = Some ch.
Proof.
  intros [q|] ch; cbn [is_opt]; split; intro H; try discriminate.
  - apply Z.eqb_eq in H. subst. reflexivity.
  - inversion H. apply Z.eqb_refl.
Qed.

Lemma memz_true_iff : forall ch l, memz ch l = true <-> In ch l.
Proof.
  intros ch l. unfold memz. rewrite existsb_exists. split.
  - intros (x & Hin & He). apply Z.eqb_eq in He. subst. exact Hin.
  - intro Hin. exists ch. split; [exact Hin | apply Z.eqb_refl].
Qed.

Lemma rd_nq_eq : forall g cur acc ch rest,
  rd g false cur acc (ch :: rest) =
  if memz ch (seps g) then rd g false [] (rev cur :: acc) rest
  else if is_opt (quote g) ch then rd g true cur acc rest
  else if is_rchar g ch then finish cur acc (rd g false [] [] rest)
  else if Z.eqb ch CR && crlf_or_lax g then
    match rest with
    | c2 :: rest2 =>
        if Z.eqb c2 LF then finish cur acc (rd g false [] [] rest2)
        else if lax g then finish cur acc (rd g false [] [] rest)
        else rd g false (ch :: cur) acc rest
    | [] =>
        if lax g then finish cur acc (rd g false [] [] rest)
        else rd g false (ch :: cur) acc rest
    end
  else if Z.eqb ch LF && lax g then finish cur acc (rd g false [] [] rest)
  else rd g false (ch :: cur) acc rest.
Proof. reflexivity. Qed.

Lemma rd_q_eq : forall g cur acc ch rest,
  rd g true cur acc (ch :: rest) =
  if is_opt (quote g) ch then
    match rest with
    | c2 :: rest2 => if dbl g && Z.eqb ch c2 then rd g true (c2 :: cur) acc rest2 else rd g false cur acc rest
    | [] => rd g false cur acc rest
    end
  else if is_opt (esc g) ch then
    match rest with
    | c2 :: rest2 => rd g true (c2 :: cur) acc rest2
    | [] => None
    end
  else rd g true (ch :: cur) acc rest.
Proof. reflexivity. Qed.

Lemma nq_false : forall g ch, needs_quoting g ch = false ->
  is_opt (quote g) ch = false /\ is_opt (esc g) ch = false /\ memz ch (seps g) = false /\
  is_rchar g ch = false /\ Z.eqb ch LF = false /\ Z.eqb ch CR = false.
Proof.
  intros g ch H. unfold needs_quoting in H.
  change (memz ch [LF; CR]) with (Z.eqb ch LF || (Z.eqb ch CR || false)) in H.
  rewrite !orb_false_iff in H. tauto.
Qed.

Definition rest_ok (q : Z) (rest : list Z) : Prop :=
  match rest with c :: _ => Z.eqb q c = false | [] => True end.

(* fields of a row pushed on the reader state *)
Fixpoint push_fields (cur : list Z) (acc : list (list Z)) (row : list (list Z)) : list Z * list (list Z) :=
  match row with
  | [] => (cur, acc)
  | f :: row' => push_fields (rev f) (rev cur :: acc) row'
  end.

Lemma push_fields_rev : forall row cur acc,
  rev (rev (fst (push_fields cur acc row)) :: snd (push_fields cur acc row)) = rev acc ++ [rev cur] ++ row.
Proof.
  induction row as [|f row IH]; intros cur acc; cbn [push_fields fst snd].
  - cbn [rev app]. reflexivity.
  - rewrite IH. cbn [rev app]. rewrite rev_involutive, <- app_assoc. reflexivity.
Qed.

Lemma push_fields_snd_nil : forall row cur acc, snd (push_fields cur acc row) = [] -> row = [] /\ acc = [].
Proof.
  induction row as [|f row IH]; intros cur acc H; cbn [push_fields snd] in H.
  - split; [reflexivity | exact H].
  - apply IH in H. destruct H as [_ H]. discriminate.
Qed.

Section Roundtrip.
  Variable g : grammar.
  Variable q : Z.
  Hypothesis W : wf g.
  Hypothesis Hq : quote g = Some q.
  Hypothesis Hqsep : memz q (seps g) = false.
  Hypothesis HqCR : q <> CR.
  Hypothesis HqLF : q <> LF.
  Hypothesis Hqr : is_rchar g q = false.

  Lemma rd_plain : forall f cur acc rest, existsb (needs_quoting g) f = false ->
    rd g false cur acc (f ++ rest) = rd g false (rev f ++ cur) acc rest.
  Proof.
    induction f as [|ch f IH]; intros cur acc rest H.
    - reflexivity.
    - cbn [existsb] in H. apply orb_false_iff in H. destruct H as [Hc Hf].
      apply nq_false in Hc. destruct Hc as (H1 & H2 & H3 & H4 & H5 & H6).
      cbn [app]. rewrite rd_nq_eq, H3, H1, H4, H6, H5. cbn [andb].
      rewrite IH by exact Hf. cbn [rev]. rewrite <- app_assoc. reflexivity.
  Qed.

  Lemma is_opt_quote : forall ch, is_opt (quote g) ch = Z.eqb ch q.
  Proof. intro ch. rewrite Hq. reflexivity. Qed.

  Lemma rd_quoted_body : forall acc rest, rest_ok q rest ->
    forall f b cur, wq_body g q f = Some b ->
    rd g true cur acc (b ++ q :: rest) = rd g false (rev f ++ cur) acc rest.
  Proof.
    intros acc rest Hrest.
    induction f as [|ch f IH]; intros b cur Hb; cbn [wq_body] in Hb.
    - inversion Hb; subst b. cbn [app rev].
      rewrite rd_q_eq, is_opt_quote, Z.eqb_refl.
      destruct rest as [|c2 rest2]; [reflexivity|].
      cbn [rest_ok] in Hrest. rewrite Hrest, andb_false_r. reflexivity.
    - destruct (Z.eqb ch q || is_opt (esc g) ch) eqn:E.
      + destruct (dbl g && Z.eqb ch q) eqn:D.
        * destruct (wq_body g q f) as [r|] eqn:Er; cbn [option_map] in Hb; [|discriminate].
          inversion Hb; subst b. apply andb_true_iff in D. destruct D as [Dd Dq].
          apply Z.eqb_eq in Dq. subst ch. cbn [app].
          rewrite rd_q_eq, is_opt_quote, Z.eqb_refl, Dd. cbn [andb].
          rewrite (IH r (q :: cur) eq_refl). cbn [rev]. rewrite <- app_assoc. reflexivity.
        * destruct (esc g) as [p|] eqn:Es; [|discriminate].
          destruct (wq_body g q f) as [r|] eqn:Er; cbn [option_map] in Hb; [|discriminate].
          inversion Hb; subst b.
          assert (Hpq : Z.eqb p q = false).
          { destruct (wf_esc g W) as [Hd | (e & He & Hne)].
            - rewrite Hd in D. cbn [andb] in D. rewrite D in E. cbn [orb is_opt] in E.
              apply Z.eqb_eq in E. subst p. exact D.
            - rewrite Es in He. inversion He; subst e. apply Z.eqb_neq. intro Heq. subst p.
              apply Hne. exact Hq. }
          cbn [app]. rewrite rd_q_eq, is_opt_quote, Hpq, Es.
          cbn [is_opt]. rewrite Z.eqb_refl.
          rewrite (IH r (ch :: cur) eq_refl). cbn [rev]. rewrite <- app_assoc. reflexivity.
      + apply orb_false_iff in E. destruct E as [E1 E2].
        destruct (wq_body g q f) as [r|] eqn:Er; cbn [option_map] in Hb; [|discriminate].
        inversion Hb; subst b. cbn [app].
        rewrite rd_q_eq, is_opt_quote, E1, E2.
        rewrite (IH r (ch :: cur) eq_refl). cbn [rev]. rewrite <- app_assoc. reflexivity.
  Qed.

  Lemma rd_field : forall f t cur acc rest, write_field g f = Some t -> rest_ok q rest ->
    rd g false cur acc (t ++ rest) = rd g false (rev f ++ cur) acc rest.
  Proof.
    intros f t cur acc rest Ht Hrest. unfold write_field in Ht.
    destruct (existsb (needs_quoting g) f) eqn:E.
    - unfold write_quoted in Ht. rewrite Hq in Ht.
      destruct (wq_body g q f) as [b|] eqn:Eb; cbn [option_map] in Ht; [|discriminate].
      inversion Ht; subst t. cbn [app]. rewrite <- app_assoc. cbn [app].
      rewrite rd_nq_eq, Hqsep, is_opt_quote, Z.eqb_refl.
      apply rd_quoted_body; assumption.
    - inversion Ht; subst t. apply rd_plain. exact E.
  Qed.

  Lemma rd_terminator : forall cur acc more,
    rd g false cur acc (terminator g ++ more) = finish cur acc (rd g false [] [] more).
  Proof.
    intros cur acc more. destruct (wf_seps_nl g W) as [HsCR HsLF]. unfold notin in *.
    unfold terminator. destruct (rs g) as [| |r] eqn:R; cbn [app]; rewrite rd_nq_eq.
    - rewrite HsLF, is_opt_quote.
      replace (Z.eqb LF q) with false by (symmetry; apply Z.eqb_neq; congruence).
      unfold is_rchar, lax. rewrite R. reflexivity.
    - rewrite HsCR, is_opt_quote.
      replace (Z.eqb CR q) with false by (symmetry; apply Z.eqb_neq; congruence).
      unfold is_rchar, crlf_or_lax. rewrite R. reflexivity.
    - rewrite (wf_rs g W r R), is_opt_quote.
      unfold is_rchar in Hqr |- *. rewrite R in Hqr |- *.
      rewrite Z.eqb_sym, Hqr, Z.eqb_refl. reflexivity.
  Qed.

  Lemma rest_ok_terminator : forall more, rest_ok q (terminator g ++ more).
  Proof.
    intro more. unfold terminator. destruct (rs g) as [| |r] eqn:R; cbn [app rest_ok].
    - apply Z.eqb_neq. exact HqLF.
    - apply Z.eqb_neq. exact HqCR.
    - unfold is_rchar in Hqr. rewrite R in Hqr. exact Hqr.
  Qed.

  Lemma rest_ok_fields : forall row c more, write_fields g false row = Some c ->
    rest_ok q (c ++ terminator g ++ more).
  Proof.
    intros [|f row] c more Hc; cbn [write_fields] in Hc.
    - inversion Hc; subst c. apply rest_ok_terminator.
    - case_eq (seps g); [intros S | intros s ss S]; rewrite S in Hc; [discriminate|].
      destruct (write_field g f) as [b|]; [|discriminate].
      destruct (write_fields g false row) as [c'|]; [|discriminate].
      inversion Hc; subst c. cbn [app rest_ok].
      pose proof Hqsep as Hs. rewrite S in Hs.
      unfold memz in Hs. cbn [existsb] in Hs. apply orb_false_iff in Hs. tauto.
  Qed.

  Lemma rd_fields : forall row t cur acc more, write_fields g false row = Some t ->
    rd g false cur acc (t ++ terminator g ++ more) =
    finish (fst (push_fields cur acc row)) (snd (push_fields cur acc row)) (rd g false [] [] more).
  Proof.
    induction row as [|f row IH]; intros t cur acc more Ht; cbn [write_fields] in Ht.
    - inversion Ht; subst t. cbn [app push_fields fst snd]. apply rd_terminator.
    - case_eq (seps g); [intros S | intros s ss S]; rewrite S in Ht; [discriminate|].
      destruct (write_field g f) as [b|] eqn:F; [|discriminate].
      destruct (write_fields g false row) as [c|] eqn:R; [|discriminate].
      inversion Ht; subst t. cbn [app push_fields].
      rewrite rd_nq_eq. rewrite S. unfold memz at 1. cbn [existsb]. rewrite Z.eqb_refl. cbn [orb].
      rewrite <- app_assoc.
      rewrite (rd_field f b [] (rev cur :: acc) (c ++ terminator g ++ more) F
                 (rest_ok_fields row c more R)).
      rewrite app_nil_r. apply IH. reflexivity.
  Qed.

  Lemma rd_row : forall row t more, write_fields g true row = Some t ->
    rd g false [] [] (t ++ terminator g ++ more) =
    (if representable row then option_map (cons row) (rd g false [] [] more) else rd g false [] [] more).
  Proof.
    intros [|f row] t more Ht; cbn [write_fields] in Ht.
    - inversion Ht; subst t. cbn [app representable]. rewrite rd_terminator. reflexivity.
    - destruct (write_field g f) as [b|] eqn:F; [|discriminate].
      destruct (write_fields g false row) as [c|] eqn:R; [|discriminate].
      inversion Ht; subst t. cbn [app]. rewrite <- app_assoc.
      rewrite (rd_field f b [] [] (c ++ terminator g ++ more) F (rest_ok_fields row c more R)).
      rewrite app_nil_r. rewrite (rd_fields row c (rev f) [] more R).
      pose proof (push_fields_rev row (rev f) []) as Hrev.
      pose proof (push_fields_snd_nil row (rev f) []) as Hnil.
      destruct (push_fields (rev f) [] row) as [c' a'] eqn:P. cbn [fst snd] in *.
      unfold finish. rewrite Hrev. rewrite rev_involutive. cbn [rev app]. clear Hrev.
      destruct a' as [|x a'].
      + destruct (Hnil eq_refl) as [Hr _]. subst row. cbn [push_fields] in P.
        inversion P; subst c'. destruct f as [|ch f]; [reflexivity|].
        cbn [rev]. destruct (rev f ++ [ch]) eqn:Ef.
        * apply app_eq_nil in Ef. destruct Ef; discriminate.
        * reflexivity.
      + cbn [is_nil andb]. destruct row as [|f2 row].
        * cbn [push_fields] in P. discriminate.
        * destruct f; reflexivity.
  Qed.
End Roundtrip.

Theorem csv_roundtrip : forall g, wf g -> forall rows txt,
  csv_write g rows = Some txt -> csv_read g txt = Some (filter representable rows).
Proof.
  intros g W. destruct (wf_quote g W) as (q & Hq & Hqsep & HqCR & HqLF & Hqr). unfold notin in Hqsep.
  unfold csv_read.
  induction rows as [|r rows IH]; intros txt Ht; cbn [csv_write] in Ht.
  - inversion Ht; subst txt. reflexivity.
  - destruct (write_row g r) as [a|] eqn:A; [|discriminate].
    destruct (csv_write g rows) as [b|] eqn:B; [|discriminate].
    inversion Ht; subst txt. unfold write_row in A.
    destruct (write_fields g true r) as [t|] eqn:T; cbn [option_map] in A; [|discriminate].
    inversion A; subst a. rewrite <- app_assoc.
    rewrite (rd_row g q W Hq Hqsep HqCR HqLF Hqr r t b T).
    rewrite (IH b eq_refl). cbn [filter].
    destruct (representable r); reflexivity.
Qed.

(* ---------------------------------------------------------------- totality of the writer *)
Lemma wq_body_total : forall g q, wf g -> forall f, wq_body g q f <> None.
Proof.
  intros g q W. induction f as [|ch f IH]; cbn [wq_body]; [discriminate|].
  destruct (wq_body g q f) as [r|]; [clear IH | contradiction].
  destruct (Z.eqb ch q || is_opt (esc g) ch) eqn:E; cbn [option_map]; [|discriminate].
  destruct (dbl g && Z.eqb ch q) eqn:D; [discriminate|].
  destruct (esc g) as [p|] eqn:Es; [discriminate|].
  destruct (wf_esc g W) as [Hd | (e & He & _)]; [|congruence].
  rewrite Hd in D. cbn [andb] in D. rewrite D in E. discriminate.
Qed.

Lemma write_field_total : forall g, wf g -> forall f, write_field g f <> None.
Proof.
  intros g W f. unfold write_field. destruct (existsb (needs_quoting g) f); [|discriminate].
  unfold write_quoted. destruct (wf_quote g W) as (q & Hq & _). rewrite Hq.
  pose proof (wq_body_total g q W f) as H. destruct (wq_body g q f); [discriminate | contradiction].
Qed.

Lemma write_fields_total : forall g, wf g -> forall row first, write_fields g first row <> None.
Proof.
  intros g W. induction row as [|f row IH]; intro first; cbn [write_fields]; [discriminate|].
  pose proof (write_field_total g W f) as Hf. pose proof (IH false) as Hr. pose proof (wf_seps g W) as Hs.
  destruct (write_field g f); [|contradiction].
  destruct (write_fields g false row); [|contradiction].
  destruct first; [discriminate|]. destruct (seps g); [contradiction | discriminate].
Qed.

Theorem csv_write_total : forall g, wf g -> forall rows, csv_write g rows <> None.
Proof.
  intros g W. induction rows as [|r rows IH]; cbn [csv_write]; [discriminate|].
  unfold write_row. pose proof (write_fields_total g W r true) as Hr.
  destruct (write_fields g true r); [|contradiction]. cbn [option_map].
  destruct (csv_write g rows); [discriminate | contradiction].
Qed.

(* ---------------------------------------------------------------- the default grammar *)
Lemma wf_default : wf default_grammar.
Proof.
  constructor; cbn [default_grammar seps quote dbl esc rs].
  - discriminate.
  - split; reflexivity.
  - exists 34. repeat split; discriminate.
  - left; reflexivity.
  - intros r H. discriminate.
Qed.

Theorem csv_roundtrip_default : forall rows, exists txt,
  csv_write default_grammar rows = Some txt /\
  csv_read default_grammar txt = Some (filter representable rows).
Proof.
  intro rows. pose proof (csv_write_total default_grammar wf_default rows) as H.
  destruct (csv_write default_grammar rows) as [txt|] eqn:E; [|contradiction].
  exists txt. split; [reflexivity|]. apply (csv_roundtrip default_grammar wf_default rows txt E).
Qed.

(* ---------------------------------------------------------------- the writer quotes exactly when needed: (a) *)
Lemma needs_quoting_iff : forall g ch, needs_quoting g ch = true <->
  (quote g = Some ch \/ esc g = Some ch \/ In ch (seps g) \/ rs g = RChar ch \/ ch = LF \/ ch = CR).
Proof.
  intros g ch. unfold needs_quoting. rewrite !orb_true_iff, !is_opt_true_iff, !memz_true_iff.
  assert (Hr : is_rchar g ch = true <-> rs g = RChar ch).
  { unfold is_rchar. destruct (rs g) as [| |r]; split; intro H; try discriminate.
    - apply Z.eqb_eq in H. subst. reflexivity.
    - inversion H. apply Z.eqb_refl. }
  rewrite Hr. cbn [In]. split.
  - intros [[[[H|H]|H]|H]|[H|[H|[]]]]; auto 10.
  - intros [H|[H|[H|[H|[H|H]]]]]; auto 10.
Qed.

Theorem csv_writer_quotes_exactly_when_needed :
  (forall g f, write_field g f = if existsb (needs_quoting g) f then write_quoted g f else Some f) /\
  (forall g ch, needs_quoting g ch = true <->
     (quote g = Some ch \/ esc g = Some ch \/ In ch (seps g) \/ rs g = RChar ch \/ ch = LF \/ ch = CR)).
Proof. split; [reflexivity | exact needs_quoting_iff]. Qed.

(* ---------------------------------------------------------------- (b) necessity, by counting characters *)
Fixpoint tcr (row : list (list Z)) : nat :=
  match row with [] => O | f :: row' => (length f + tcr row')%nat end.
Fixpoint tc (rows : list (list (list Z))) : nat :=
  match rows with [] => O | r :: rows' => (tcr r + tc rows')%nat end.

Lemma tcr_app : forall a b, tcr (a ++ b) = (tcr a + tcr b)%nat.
Proof. induction a as [|x a IH]; intro b; cbn [app tcr]; [reflexivity | rewrite IH; lia]. Qed.

Lemma tcr_rev : forall a, tcr (rev a) = tcr a.
Proof. induction a as [|x a IH]; cbn [rev tcr]; [reflexivity | rewrite tcr_app, IH; cbn [tcr]; lia]. Qed.

Lemma tcr_emit : forall cur acc, tcr (rev (rev cur :: acc)) = (length cur + tcr acc)%nat.
Proof. intros. rewrite tcr_rev. cbn [tcr]. rewrite rev_length. reflexivity. Qed.

Lemma tcr_emit' : forall cur acc, tcr (rev acc ++ [rev cur]) = (length cur + tcr acc)%nat.
Proof. intros. apply (tcr_emit cur acc). Qed.

Lemma tc_cons : forall r rows, tc (r :: rows) = (tcr r + tc rows)%nat.
Proof. reflexivity. Qed.

Lemma finish_tc : forall cur acc k rows, finish cur acc k = Some rows ->
  exists rows', k = Some rows' /\ (tc rows <= length cur + tcr acc + tc rows')%nat.
Proof.
  intros cur acc k rows H. unfold finish in H. destruct (is_nil acc && is_nil cur).
  - exists rows. split; [exact H | lia].
  - destruct k as [r|]; cbn [option_map] in H; [|discriminate]. injection H as H; subst rows.
    exists r. split; [reflexivity|]. rewrite tc_cons; first [rewrite tcr_emit | rewrite tcr_emit']; lia.
Qed.

Lemma rd_nil_tc : forall g inq cur acc rows, rd g inq cur acc [] = Some rows ->
  (tc rows <= length cur + tcr acc)%nat.
Proof.
  intros g inq cur acc rows H. cbn [rd] in H. destruct inq; [discriminate|].
  destruct (is_nil acc && is_nil cur); injection H as H; subst rows; [cbn [tc]; lia|].
  rewrite tc_cons; first [rewrite tcr_emit | rewrite tcr_emit']; cbn [tc]; lia.
Qed.

Ltac split_ifs H :=
  repeat match type of H with
  | context [if ?b then _ else _] => destruct b eqn:?
  | context [match ?l with [] => _ | _ :: _ => _ end] => destruct l eqn:?
  end.

Ltac close_some H :=
  match type of H with
  | Some _ = Some _ =>
      injection H as H; subst; rewrite ?tc_cons; first [rewrite tcr_emit | rewrite tcr_emit' | idtac];
      cbn [tc length] in *; lia
  end.

Lemma rd_tc_n : forall g n inp, (length inp <= n)%nat -> forall inq cur acc rows,
  rd g inq cur acc inp = Some rows -> (tc rows <= length cur + tcr acc + length inp)%nat.
Proof.
  intros g. induction n as [|n IH]; intros inp Hn inq cur acc rows H.
  - destruct inp; [|cbn [length] in Hn; lia]. apply rd_nil_tc in H. cbn [length]. lia.
  - destruct inp as [|ch rest]; [apply rd_nil_tc in H; cbn [length]; lia|].
    cbn [length] in Hn.
    destruct inq; [rewrite rd_q_eq in H | rewrite rd_nq_eq in H]; split_ifs H; subst;
      try discriminate;
      try (close_some H);
      try (match type of H with finish _ _ _ = _ => apply finish_tc in H; destruct H as (r' & H & Hle) end);
      try (close_some H);
      (apply IH in H; [cbn [length tcr] in *; try rewrite rev_length in *; lia | cbn [length] in *; lia]).
Qed.

Lemma rd_tc : forall g inp inq cur acc rows,
  rd g inq cur acc inp = Some rows -> (tc rows <= length cur + tcr acc + length inp)%nat.
Proof. intros g inp. apply (rd_tc_n g (length inp) inp). lia. Qed.

Notation g0 := default_grammar.

Lemma rd0_nq_eq : forall cur acc ch rest,
  rd g0 false cur acc (ch :: rest) =
  if Z.eqb ch 44 then rd g0 false [] (rev cur :: acc) rest
  else if Z.eqb ch 34 then rd g0 true cur acc rest
  else if Z.eqb ch CR then
    match rest with
    | c2 :: rest2 =>
        if Z.eqb c2 LF then finish cur acc (rd g0 false [] [] rest2)
        else finish cur acc (rd g0 false [] [] rest)
    | [] => finish cur acc (rd g0 false [] [] rest)
    end
  else if Z.eqb ch LF then finish cur acc (rd g0 false [] [] rest)
  else rd g0 false (ch :: cur) acc rest.
Proof.
  intros. rewrite rd_nq_eq. unfold memz, is_rchar, crlf_or_lax, lax.
  cbn [default_grammar seps quote rs existsb is_opt]. rewrite orb_false_r, !andb_true_r.
  reflexivity.
Qed.

Lemma rd0_q_eq : forall cur acc ch rest,
  rd g0 true cur acc (ch :: rest) =
  if Z.eqb ch 34 then
    match rest with
    | c2 :: rest2 => if Z.eqb ch c2 then rd g0 true (c2 :: cur) acc rest2 else rd g0 false cur acc rest
    | [] => rd g0 false cur acc rest
    end
  else rd g0 true (ch :: cur) acc rest.
Proof. intros. rewrite rd_q_eq. reflexivity. Qed.

Ltac fin := cbn [length tcr tc] in *; rewrite ?rev_length, ?app_length in *; cbn [length] in *; lia.

Lemma rd0_lf_only : forall inq cur acc rows, rd g0 inq cur acc [LF] = Some rows ->
  (tc rows <= length cur + tcr acc)%nat.
Proof.
  intros inq cur acc rows H. destruct inq.
  - rewrite rd0_q_eq in H. change (rd g0 true (LF :: cur) acc [] = Some rows) in H.
    cbn [rd] in H. discriminate.
  - rewrite rd0_nq_eq in H. change (finish cur acc (rd g0 false [] [] []) = Some rows) in H.
    apply finish_tc in H. destruct H as (r' & H & Hle). apply rd_tc in H. fin.
Qed.

(* a text ending in LF: at least one character (that LF, or a closing quote) is not copied into a field *)
Lemma rd0_tc_lf : forall n inp, (length inp <= n)%nat -> forall inq cur acc rows,
  rd g0 inq cur acc (inp ++ [LF]) = Some rows -> (tc rows <= length cur + tcr acc + length inp)%nat.
Proof.
  induction n as [|n IH]; intros inp Hn inq cur acc rows H.
  - destruct inp; [|cbn [length] in Hn; lia]. apply rd0_lf_only in H. fin.
  - destruct inp as [|ch inp']; [apply rd0_lf_only in H; fin|].
    cbn [app length] in *. destruct inq.
    + rewrite rd0_q_eq in H. destruct (ch =? 34) eqn:E1.
      * destruct inp' as [|c2 inp'']; cbn [app] in H.
        -- destruct (ch =? LF).
           ++ cbn [rd] in H. discriminate.
           ++ apply rd_tc in H. fin.
        -- destruct (ch =? c2).
           ++ apply IH in H; fin.
           ++ apply rd_tc in H. fin.
      * apply IH in H; fin.
    + rewrite rd0_nq_eq in H.
      destruct (ch =? 44); [apply rd_tc in H; fin|].
      destruct (ch =? 34); [apply rd_tc in H; fin|].
      destruct (ch =? CR).
      * destruct (inp' ++ [LF]) as [|c2 rest2] eqn:E.
        { apply app_eq_nil in E. destruct E; discriminate. }
        assert (Hl : length rest2 = length inp').
        { apply (f_equal (@length Z)) in E. rewrite app_length in E. cbn [length] in E. lia. }
        destruct (c2 =? LF); apply finish_tc in H; destruct H as (r' & H & Hle); apply rd_tc in H; fin.
      * destruct (ch =? LF).
        -- apply finish_tc in H. destruct H as (r' & H & Hle). apply rd_tc in H. fin.
        -- apply IH in H; fin.
Qed.

Lemma rd0_tc_lf' : forall inp inq cur acc rows,
  rd g0 inq cur acc (inp ++ [LF]) = Some rows -> (tc rows <= length cur + tcr acc + length inp)%nat.
Proof. intros inp. apply (rd0_tc_lf (length inp) inp). lia. Qed.

(* outside quotes, a special character is itself never copied: a second character is lost *)
Lemma rd0_special : forall inp cur acc rows, existsb (needs_quoting g0) inp = true ->
  rd g0 false cur acc (inp ++ [LF]) = Some rows -> (tc rows + 1 <= length cur + tcr acc + length inp)%nat.
Proof.
  induction inp as [|ch inp' IH]; intros cur acc rows Hs H; [discriminate|].
  cbn [app] in H. rewrite rd0_nq_eq in H. cbn [existsb] in Hs.
  destruct (ch =? 44) eqn:E1; [apply rd0_tc_lf' in H; fin|].
  destruct (ch =? 34) eqn:E2; [apply rd0_tc_lf' in H; fin|].
  destruct (ch =? CR) eqn:E3.
  - destruct (inp' ++ [LF]) as [|c2 rest2] eqn:E.
    { apply app_eq_nil in E. destruct E; discriminate. }
    assert (Hl : length rest2 = length inp').
    { apply (f_equal (@length Z)) in E. rewrite app_length in E. cbn [length] in E. lia. }
    destruct (c2 =? LF); apply finish_tc in H; destruct H as (r' & H & Hle).
    + apply rd_tc in H. fin.
    + rewrite <- E in H. apply rd0_tc_lf' in H. fin.
  - destruct (ch =? LF) eqn:E4.
    + apply finish_tc in H. destruct H as (r' & H & Hle). apply rd0_tc_lf' in H. fin.
    + assert (Hn : needs_quoting g0 ch = false).
      { unfold needs_quoting, is_rchar, memz.
        cbn [default_grammar quote esc seps rs is_opt existsb]. rewrite E1, E2, E3, E4. reflexivity. }
      rewrite Hn in Hs. cbn [orb] in Hs. apply (IH _ _ _ Hs) in H. fin.
Qed.

Theorem csv_unquoted_special_misread : forall f,
  existsb (needs_quoting default_grammar) f = true ->
  csv_read default_grammar (f ++ [LF]) <> Some [[f]].
Proof.
  intros f Hs Hr. unfold csv_read in Hr. apply (rd0_special f [] [] _ Hs) in Hr. fin.
Qed.

(* ---------------------------------------------------------------- concrete instances (vm_compute) *)
Definition ex_rows0 : list (list (list Z)) := [[[97];[34;13]];[[]];[[];[]];[[44;10]]].
Definition ex_g1 : grammar := Grammar [59;9] (Some 39) false (Some 92) RCrlf.
Definition ex_rows1 : list (list (list Z)) :=
  [[[97;39;98];[92];[59;9]];[];[[13;10];[13];[10];[]];[[]];[[98;34;44]]].

Example ex_wf_g1 : wf ex_g1.
Proof.
  constructor; cbn [ex_g1 seps quote dbl esc rs].
  - discriminate.
  - split; reflexivity.
  - exists 39. repeat split; discriminate.
  - right. exists 92. split; [reflexivity | discriminate].
  - intros r H. discriminate.
Qed.

(* csv_roundtrip *)
Example ex_roundtrip_default_text :
  csv_write default_grammar ex_rows0 = Some [97;44;34;34;34;13;34;10; 10; 44;10; 34;44;10;34;10].
Proof. vm_compute. reflexivity. Qed.
Example ex_roundtrip_default_read :
  csv_read default_grammar [97;44;34;34;34;13;34;10; 10; 44;10; 34;44;10;34;10]
  = Some [[[97];[34;13]];[[];[]];[[44;10]]].
Proof. vm_compute. reflexivity. Qed.
Example ex_roundtrip_g1 :
  match csv_write ex_g1 ex_rows1 with Some t => csv_read ex_g1 t | None => None end
  = Some [[[97;39;98];[92];[59;9]];[[13;10];[13];[10];[]];[[98;34;44]]].
Proof. vm_compute. reflexivity. Qed.
Example ex_roundtrip_g1_text :
  csv_write ex_g1 [[[97;39;98];[92];[59;9]]]
  = Some [39;97;92;39;98;39; 59; 39;92;92;39; 59; 39;59;9;39; 13;10].
Proof. vm_compute. reflexivity. Qed.

(* csv_write_total *)
Example ex_write_total_g1 : csv_write ex_g1 ex_rows1 <> None.
Proof. vm_compute. discriminate. Qed.
(* without a quote character (not wf) the writer does fail on a field that needs quoting *)
Example ex_write_partial_noquote : csv_write (Grammar [44] None true None RLax) [[[44]]] = None.
Proof. vm_compute. reflexivity. Qed.

(* csv_roundtrip_default *)
Example ex_roundtrip_default_filter : filter representable ex_rows0 = [[[97];[34;13]];[[];[]];[[44;10]]].
Proof. vm_compute. reflexivity. Qed.

(* csv_writer_quotes_exactly_when_needed *)
Example ex_needs_quoting_g1 :
  map (needs_quoting ex_g1) [39;92;59;9;13;10;97;34;44] = [true;true;true;true;true;true;false;false;false].
Proof. vm_compute. reflexivity. Qed.
Example ex_needs_quoting_default :
  map (needs_quoting default_grammar) [34;44;13;10;97;39;92;59;9] = [true;true;true;true;false;false;false;false;false].
Proof. vm_compute. reflexivity. Qed.

(* csv_unquoted_special_misread: what the unquoted text is read as *)
Example ex_misread_comma : csv_read default_grammar ([97;44;98] ++ [LF]) = Some [[[97];[98]]].
Proof. vm_compute. reflexivity. Qed.
Example ex_misread_quote : csv_read default_grammar ([97;34;98] ++ [LF]) = None.
Proof. vm_compute. reflexivity. Qed.
Example ex_misread_quote2 : csv_read default_grammar ([34;97;34] ++ [LF]) = Some [[[97]]].
Proof. vm_compute. reflexivity. Qed.
Example ex_misread_cr : csv_read default_grammar ([97;13;98] ++ [LF]) = Some [[[97]];[[98]]].
Proof. vm_compute. reflexivity. Qed.
Example ex_misread_lf : csv_read default_grammar ([97;10;98] ++ [LF]) = Some [[[97]];[[98]]].
Proof. vm_compute. reflexivity. Qed.

(* ---------------------------------------------------------------- the reader only returns representable rows *)
Lemma representable_len2 : forall r : list (list Z), (2 <= length r)%nat -> representable r = true.
Proof.
  intros [|a [|b r]] H; cbn [length] in H; try lia. destruct a; reflexivity.
Qed.

Lemma emit_repr : forall cur acc, is_nil acc && is_nil cur = false ->
  representable (rev (rev cur :: acc)) = true.
Proof.
  intros cur acc H. destruct acc as [|x acc].
  - destruct cur as [|c cur]; [discriminate|].
    change (rev [rev (c :: cur)]) with [rev (c :: cur)].
    destruct (rev (c :: cur)) as [|y l] eqn:E; [|reflexivity].
    apply (f_equal (@length Z)) in E. rewrite rev_length in E. discriminate.
  - apply representable_len2. rewrite rev_length. cbn [length]. lia.
Qed.

Lemma finish_repr : forall cur acc k rows, finish cur acc k = Some rows ->
  exists rows', k = Some rows' /\ (forallb representable rows' = true -> forallb representable rows = true).
Proof.
  intros cur acc k rows H. unfold finish in H. destruct (is_nil acc && is_nil cur) eqn:E.
  - exists rows. split; [exact H | tauto].
  - destruct k as [r|]; [|discriminate]. injection H as H. subst rows.
    exists r. split; [reflexivity|]. intro Hr.
    change (representable (rev (rev cur :: acc)) && forallb representable r = true).
    rewrite Hr, (emit_repr cur acc E). reflexivity.
Qed.

Lemma rd_nil_repr : forall g inq cur acc rows, rd g inq cur acc [] = Some rows ->
  forallb representable rows = true.
Proof.
  intros g inq cur acc rows H. cbn [rd] in H. destruct inq; [discriminate|].
  destruct (is_nil acc && is_nil cur) eqn:E; injection H as H; subst rows; [reflexivity|].
  change (representable (rev (rev cur :: acc)) && true = true).
  rewrite (emit_repr cur acc E). reflexivity.
Qed.

Lemma rd_repr_n : forall g n inp, (length inp <= n)%nat -> forall inq cur acc rows,
  rd g inq cur acc inp = Some rows -> forallb representable rows = true.
Proof.
  intros g. induction n as [|n IH]; intros inp Hn inq cur acc rows H.
  - destruct inp; [|cbn [length] in Hn; lia]. apply rd_nil_repr in H. exact H.
  - destruct inp as [|ch rest]; [apply rd_nil_repr in H; exact H|].
    cbn [length] in Hn.
    destruct inq; [rewrite rd_q_eq in H | rewrite rd_nq_eq in H].
    + destruct (is_opt (quote g) ch).
      * destruct rest as [|c2 rest2].
        -- apply rd_nil_repr in H. exact H.
        -- destruct (dbl g && (ch =? c2)); apply IH in H; cbn [length] in *; (exact H || lia).
      * destruct (is_opt (esc g) ch).
        -- destruct rest as [|c2 rest2]; [discriminate|]. apply IH in H; cbn [length] in *; (exact H || lia).
        -- apply IH in H; (exact H || lia).
    + destruct (memz ch (seps g)); [apply IH in H; (exact H || lia)|].
      destruct (is_opt (quote g) ch); [apply IH in H; (exact H || lia)|].
      destruct (is_rchar g ch).
      { apply finish_repr in H. destruct H as (r' & H & Himp). apply Himp. apply IH in H; (exact H || lia). }
      destruct ((ch =? CR) && crlf_or_lax g).
      { destruct rest as [|c2 rest2].
        - destruct (lax g).
          + apply finish_repr in H. destruct H as (r' & H & Himp). apply Himp. apply rd_nil_repr in H. exact H.
          + apply IH in H; (exact H || (cbn [length]; lia)).
        - destruct (c2 =? LF).
          + apply finish_repr in H. destruct H as (r' & H & Himp). apply Himp.
            apply IH in H; cbn [length] in *; (exact H || lia).
          + destruct (lax g).
            * apply finish_repr in H. destruct H as (r' & H & Himp). apply Himp.
              apply IH in H; (exact H || lia).
            * apply IH in H; (exact H || lia). }
      destruct ((ch =? LF) && lax g).
      { apply finish_repr in H. destruct H as (r' & H & Himp). apply Himp. apply IH in H; (exact H || lia). }
      apply IH in H; (exact H || lia).
Qed.

Theorem csv_read_rows_representable : forall g txt rows,
  csv_read g txt = Some rows -> forallb representable rows = true.
Proof. intros g txt rows H. unfold csv_read in H. apply (rd_repr_n g (length txt) txt (le_n _) _ _ _ _ H). Qed.

Lemma filter_all : forall (A : Type) (p : A -> bool) (l : list A), forallb p l = true -> filter p l = l.
Proof.
  intros A p. induction l as [|x l IH]; intro H; [reflexivity|].
  cbn [forallb] in H. apply andb_true_iff in H. destruct H as [Hx Hl].
  cbn [filter]. rewrite Hx, (IH Hl). reflexivity.
Qed.

(* normalisation: writing what was read and reading it again is stable *)
Theorem csv_read_write_read : forall g, wf g -> forall txt rows,
  csv_read g txt = Some rows -> exists txt', csv_write g rows = Some txt' /\ csv_read g txt' = Some rows.
Proof.
  intros g W txt rows H. pose proof (csv_write_total g W rows) as Ht.
  destruct (csv_write g rows) as [txt'|] eqn:E; [|contradiction].
  exists txt'. split; [reflexivity|].
  rewrite (csv_roundtrip g W rows txt' E).
  rewrite (filter_all _ representable rows (csv_read_rows_representable g txt rows H)). reflexivity.
Qed.
