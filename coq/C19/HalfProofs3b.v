(* C19 — mini-floats, sweep 3b: boundaries between adjacent halves 16384 .. 16384+16383-1 *)
From Coq Require Import ZArith List Bool.
From ChibiV Require Import C19.Half C19.HalfSweep C19.HalfBnd Gen.C19_HalfFns.
Open Scope Z_scope.
Lemma bnd_part_b : forallb bnd_ok (zr (Pos.to_nat 16383) 16384) = true.
Proof. vm_cast_no_check (@eq_refl bool true). Qed.
