(** C19 round 4 — acceptance predicate for the text the JSON writer emits for a finite number (json.c json_write_flonum:
    snprintf "%.*G" with 10 significant digits into a fixed buffer; bignums take the same path).
    No model of %G: the check asks whether the TEXT denotes the value rounded to 10 significant digits.
      x = m * 2^e      the number written (a double: m its signed integral significand, e its exponent; a bignum: e = 0)
      T = d * 10^k     the exact value of the text (d the signed digit string without the point, k the decimal exponent)
      p                the decimal exponent of x (certificate supplied by the caller and CHECKED here): 10^p <= |x| < 10^(p+1)
    num_accept m e d k p  <->  10^p <= |x| < 10^(p+1)  /\  |T - x| <= 10^(p-9) / 2     (half a unit of the 10th significant digit)
    everything scaled by the common denominator 2^a * 10^b so that only integers occur.  Executable, no proofs here. *)
From Coq Require Import ZArith Bool.
Open Scope Z_scope.

Definition na_a (e : Z) : Z := Z.max 0 (- e).                         (* power of 2 of the common denominator *)
Definition na_b (k p : Z) : Z := Z.max 0 (Z.max (- k) (9 - p)).      (* power of 10 of the common denominator *)
Definition na_X (m e k p : Z) : Z := m * 2 ^ (e + na_a e) * 10 ^ (na_b k p).               (* x scaled *)
Definition na_T (e d k p : Z) : Z := d * (10 ^ (k + na_b k p) * 2 ^ (na_a e)).             (* T scaled *)
Definition na_U (e k p : Z) : Z := 10 ^ (p - 9 + na_b k p) * 2 ^ (na_a e).                 (* one unit of the 10th digit, scaled *)

Definition num_accept (m e d k p : Z) : bool :=
  if m =? 0 then d =? 0
  else
    let X := na_X m e k p in
    let U := na_U e k p in
    (1000000000 * U <=? Z.abs X) && (Z.abs X <? 10000000000 * U)       (* 10^p <= |x| < 10^(p+1) *)
    && (2 * Z.abs (na_T e d k p - X) <=? U).                            (* |T - x| <= half a unit *)
