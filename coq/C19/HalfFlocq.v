(* C19 — mini-floats: the generic rounding function of Half.v against Flocq's IEEE 754 formalisation.
   round_mag carries every hardware conversion of the model (double->float, unsigned->float, float->double, double
   subtraction).  Here it is compared with Flocq's binary_normalize (round M * 2^E to nearest-even into binary32 /
   binary64, bit pattern by bits_of_b32 / bits_of_b64) on finite grids that cover its case split: exact results,
   ties and near-ties at 24 and 53 bits, carry into the next binade, subnormal results, underflow to 0, overflow to
   infinity.  (A proof for ALL M, E is not attempted; the check additionally runs every test double through the real
   hardware.)  Flocq's definitions bring in the axioms of the standard library's real numbers. *)
From Flocq Require Import IEEE754.Binary IEEE754.Bits IEEE754.BinarySingleNaN Core.
From Coq Require Import ZArith List Bool Lia.
From ChibiV Require Import C19.Half C19.HalfSweep.
Open Scope Z_scope.

Definition fl32 (M E : Z) : Z := bits_of_b32 (Binary.binary_normalize 24 128 (eq_refl _) (eq_refl _) mode_NE M E false).
Definition fl64 (M E : Z) : Z := bits_of_b64 (Binary.binary_normalize 53 1024 (eq_refl _) (eq_refl _) mode_NE M E false).

Definition ok32 (M E : Z) : bool := fl32 M E =? round_mag 23 8 M E.
Definition ok64 (M E : Z) : bool := fl64 M E =? round_mag 52 11 M E.
Definition grid (ok : Z -> Z -> bool) (m0 : Z) (nm : positive) (e0 : Z) (ne : positive) : bool :=
  forallb (fun E => forallb (fun M => ok M E) (zr (Pos.to_nat nm) m0)) (zr (Pos.to_nat ne) e0).

Lemma grid_spec : forall ok m0 nm e0 ne, grid ok m0 nm e0 ne = true ->
  forall M E, m0 <= M < m0 + Zpos nm -> e0 <= E < e0 + Zpos ne -> ok M E = true.
Proof.
  intros ok m0 nm e0 ne H M E HM HE. unfold grid in H.
  pose proof (sweep_from _ ne e0 H E HE) as H1. cbv beta in H1.
  exact (sweep_from _ nm m0 H1 M HM).
Qed.

(* binary32: short mantissas (every half / quarter value is one) over the whole exponent range incl. subnormal results and underflow *)
Lemma g32_short : grid ok32 0 1024 (-175) 60 = true.      Proof. vm_cast_no_check (@eq_refl bool true). Qed.
Lemma g32_mid   : grid ok32 0 1024 (-40) 60 = true.       Proof. vm_cast_no_check (@eq_refl bool true). Qed.
Lemma g32_over  : grid ok32 0 1024 100 30 = true.         Proof. vm_cast_no_check (@eq_refl bool true). Qed.
(* binary32: 26-bit mantissas around 2^25 (ties, near-ties, carry) in the subnormal, normal and overflow zones *)
Lemma g32_ties_n : grid ok32 (2 ^ 25 - 256) 512 (-40) 16 = true.    Proof. vm_cast_no_check (@eq_refl bool true). Qed.
Lemma g32_ties_s : grid ok32 (2 ^ 25 - 256) 512 (-180) 16 = true.   Proof. vm_cast_no_check (@eq_refl bool true). Qed.
Lemma g32_ties_o : grid ok32 (2 ^ 25 - 256) 512 96 12 = true.       Proof. vm_cast_no_check (@eq_refl bool true). Qed.
(* binary64: 55-bit mantissas around 2^54, and short mantissas (the double subtraction of sexp_double_to_quarter, mid64) *)
Lemma g64_ties_n : grid ok64 (2 ^ 54 - 128) 256 (-60) 8 = true.     Proof. vm_cast_no_check (@eq_refl bool true). Qed.
Lemma g64_ties_s : grid ok64 (2 ^ 54 - 128) 256 (-1132) 8 = true.   Proof. vm_cast_no_check (@eq_refl bool true). Qed.
Lemma g64_ties_o : grid ok64 (2 ^ 54 - 128) 256 966 8 = true.       Proof. vm_cast_no_check (@eq_refl bool true). Qed.
Lemma g64_short  : grid ok64 0 1024 (-40) 60 = true.                Proof. vm_cast_no_check (@eq_refl bool true). Qed.

Theorem round_mag_matches_flocq :
  (forall M E, 0 <= M < 1024 -> (-175 <= E < -115 \/ -40 <= E < 20 \/ 100 <= E < 130) -> round_mag 23 8 M E = fl32 M E) /\
  (forall M E, 2 ^ 25 - 256 <= M < 2 ^ 25 + 256 -> (-180 <= E < -164 \/ -40 <= E < -24 \/ 96 <= E < 108) -> round_mag 23 8 M E = fl32 M E) /\
  (forall M E, 2 ^ 54 - 128 <= M < 2 ^ 54 + 128 -> (-1132 <= E < -1124 \/ -60 <= E < -52 \/ 966 <= E < 974) -> round_mag 52 11 M E = fl64 M E) /\
  (forall M E, 0 <= M < 1024 -> -40 <= E < 20 -> round_mag 52 11 M E = fl64 M E).
Proof.
  repeat split; intros M E HM HE; symmetry; apply Z.eqb_eq.
  - destruct HE as [HE|[HE|HE]];
      [apply (grid_spec ok32 _ _ _ _ g32_short)|apply (grid_spec ok32 _ _ _ _ g32_mid)|apply (grid_spec ok32 _ _ _ _ g32_over)]; lia.
  - destruct HE as [HE|[HE|HE]];
      [apply (grid_spec ok32 _ _ _ _ g32_ties_s)|apply (grid_spec ok32 _ _ _ _ g32_ties_n)|apply (grid_spec ok32 _ _ _ _ g32_ties_o)]; lia.
  - destruct HE as [HE|[HE|HE]];
      [apply (grid_spec ok64 _ _ _ _ g64_ties_s)|apply (grid_spec ok64 _ _ _ _ g64_ties_n)|apply (grid_spec ok64 _ _ _ _ g64_ties_o)]; lia.
  - apply (grid_spec ok64 _ _ _ _ g64_short); lia.
Qed.

Example round_mag_flocq_ex : round_mag 23 8 (2 ^ 25 + 2) (-30) = fl32 (2 ^ 25 + 2) (-30) /\ fl32 (2 ^ 25 + 2) (-30) = 0x3D000000.
Proof. split; vm_compute; reflexivity. Qed.
