(** C19 — rows of the table REGENERATED from lib/srfi/160/uvprims.stub (SRFI 160 uniform-vector accessors,
    element-indexed): what the (assert ...) of each binding says about the index.  Definitions only. *)
From Coq Require Export String ZArith List Bool Lia.
Export ListNotations.
Local Open Scope Z_scope.

Record uacc := mkUacc {
  u_name : string;     (* the Scheme name *)
  u_set : bool;        (* -set! or -ref *)
  u_lower : bool;      (* the assertion contains 0 <= i for the index the C function uses *)
  u_upper : bool       (* ... and i < (uvector-length uv) for the vector the C function uses *)
}.

(** the assertion as evaluated before the C function indexes element i of a vector of len elements *)
Definition uasserted (e : uacc) (len i : Z) : bool :=
  (if u_lower e then -1 <? i else true) && (if u_upper e then i <? len else true).

Definition uacc_ok (e : uacc) : bool := u_lower e && u_upper e.
