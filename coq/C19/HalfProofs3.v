(* C19 — mini-floats, sweep 3: how sexp_double_to_half rounds, at every boundary between two adjacent half values *)
From Coq Require Import ZArith List Bool Lia.
From ChibiV Require Import C19.Half C19.HalfSweep C19.HalfBnd C19.HalfProofs3a C19.HalfProofs3b Gen.C19_HalfFns.
Import ListNotations.
Open Scope Z_scope.

Lemma bnd_all : forall a, 0 <= a < 32767 -> bnd_ok a = true.
Proof.
  intros a Ha. destruct (Z_lt_le_dec a 16384) as [L|G].
  - apply (sweep_from bnd_ok 16384 0 bnd_part_a). lia.
  - apply (sweep_from bnd_ok 16383 16384 bnd_part_b). lia.
Qed.

(* For every pair of adjacent non-negative half values a < a+1 (0 .. 0x7FFE, specials excluded) and the double `mid`
   exactly between them:  mid |-> a+1 (ties away from zero — NOT ties-to-even: half of the a+1 are odd);
   the next binary32 below mid |-> a;  the next binary64 below mid |-> a+1 (it is first rounded to binary32 = mid).
   So sexp_double_to_half = round-half-away of the binary32 rounding of its argument; as a function of the double it is
   within half a binary32 ulp of round-to-nearest. *)
Lemma double_to_half_boundaries : forall a, 0 <= a < 32767 -> half_special a = false -> half_special (a + 1) = false ->
  gen_double_to_half (hmid a) = a + 1 /\
  gen_double_to_half (predf64 (hmid a)) = a /\
  gen_double_to_half (pred64 (hmid a)) = a + 1.
Proof.
  intros a Ha S1 S2. pose proof (bnd_all a Ha) as H. unfold bnd_ok in H.
  rewrite S1, S2 in H. cbn [orb] in H. fold (hmid a) in H.
  destruct (dy_align (dyadic64 (gen_half_to_double a)) (dyadic64 (gen_half_to_double (a + 1)))) as [[x y] k].
  apply andb_prop in H. destruct H as [H H4]. apply andb_prop in H. destruct H as [H H3].
  apply andb_prop in H. destruct H as [H1 H2].
  apply Z.eqb_eq in H2. apply Z.eqb_eq in H3. apply Z.eqb_eq in H4. auto.
Qed.

(* round-to-nearest-EVEN is refuted: the tie between 1.0 (0x3C00) and 1.0009765625 (0x3C01) goes to the odd pattern *)
Lemma double_to_half_ties_to_even_refuted : gen_double_to_half 0x3FF0020000000000 = 0x3C01.
Proof. vm_compute. reflexivity. Qed.

(* subnormal and overflow boundaries.  65520 = the tie between 65504 (0x7BFF) and 65536: the latter's pattern 0x7C00 IS
   +infinity.  Beyond: finite doubles 65536 < x < 131040 become the patterns 0x7C01 .. 0x7FFE (read back as finite, an
   extension of IEEE binary16); x >= 131040 becomes 0x7FFF = NaN, x <= -131040 becomes 0xFFFF = -131008 (no overflow to
   infinity; observation recorded in notes/C19.md) *)
Lemma double_to_half_edges :
  gen_double_to_half 0x3E70000000000000 = 1 /\          (* 2^-24, the smallest subnormal *)
  gen_double_to_half 0x3E60000000000000 = 1 /\          (* 2^-25: tie with 0 goes away from zero *)
  gen_double_to_half 0x3E5FFFFFE0000000 = 0 /\          (* the binary32 below 2^-25 *)
  gen_double_to_half 0x3F10000000000000 = 0x0400 /\     (* 2^-14, the smallest normal *)
  gen_double_to_half 0x3F0FF80000000000 = 0x03FF /\     (* the largest subnormal 1023 * 2^-24 *)
  gen_double_to_half 0x3F00000000000000 = 0x0200 /\     (* 2^-15 *)
  gen_double_to_half 0x40EFFC0000000000 = 0x7BFF /\     (* 65504 *)
  gen_double_to_half 0x40EFFE0000000000 = 0x7C00 /\     (* 65520 -> +inf *)
  gen_double_to_half 0x40EFFDFFE0000000 = 0x7BFF /\     (* the binary32 below 65520 *)
  gen_double_to_half 0x7FEFFFFFFFFFFFFF = 0x7FFF /\     (* DBL_MAX -> the NaN pattern *)
  gen_double_to_half 0xFFEFFFFFFFFFFFFF = 0xFFFF /\     (* -DBL_MAX -> 0xFFFF ... *)
  dyadic64 (gen_half_to_double 0xFFFF) = (- 9002801208229888, -36) /\   (* ... which reads back as -131008 *)
  gen_double_to_half 0x8000000000000000 = 0x8000.       (* -0.0 keeps its sign *)
Proof. repeat split; vm_compute; reflexivity. Qed.
