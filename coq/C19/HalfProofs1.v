(* C19 — mini-floats, sweep 1: the half round trip over all 65536 patterns (about the REGENERATED functions) *)
From Coq Require Import ZArith List Bool Lia.
From ChibiV Require Import C19.Half C19.HalfSweep Gen.C19_HalfFns.
Import ListNotations.
Open Scope Z_scope.

Definition rt_ok (h : Z) : bool := gen_double_to_half (gen_half_to_double h) =? h.
Lemma rt_all : forallb rt_ok (zrange 65536) = true.
Proof. vm_cast_no_check (@eq_refl bool true). Qed.

(* EVERY pattern, the NaN 0x7FFF and the "NaN-looking" patterns 0x7C01..0x7FFE / 0xFC01..0xFFFF included (sexp.c reads
   the latter as finite numbers 65600 .. 131008): no payload canonicalisation happens *)
Lemma half_roundtrip : forall h, 0 <= h < 65536 -> gen_double_to_half (gen_half_to_double h) = h.
Proof. intros h Hh. apply Z.eqb_eq. exact (sweep rt_ok 65536 rt_all h Hh). Qed.

Example half_roundtrip_ex : gen_double_to_half (gen_half_to_double 0x0200) = 0x0200 /\ gen_half_to_double 0x0200 = 0x3F00000000000000.
Proof. split; vm_compute; reflexivity. Qed.
