(** C19 — every SRFI 160 accessor binding regenerated from uvprims.stub asserts 0 <= i < length before indexing. *)
From ChibiV Require Import C19.UvTable Gen.C19_UvTable.
Local Open Scope Z_scope.

Lemma uv_table_ok : forallb uacc_ok uv_table = true.
Proof. vm_compute. reflexivity. Qed.

Lemma uv_table_nonempty : (8 <= length uv_table)%nat.
Proof. vm_compute. repeat constructor. Qed.

Theorem uvector_table_in_bounds : forall e, In e uv_table ->
  forall len i, uasserted e len i = true <-> 0 <= i < len.
Proof.
  intros e Hin len i.
  pose proof (proj1 (forallb_forall uacc_ok uv_table) uv_table_ok e Hin) as Hok.
  unfold uacc_ok in Hok. unfold uasserted.
  destruct (u_lower e); [|discriminate]. destruct (u_upper e); [|discriminate]. lia.
Qed.
