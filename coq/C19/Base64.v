(** C19 model of lib/chibi/base64.scm (executable; no proofs here). *)
From ChibiV Require Export C19.Prims.
Local Open Scope Z_scope.

Definition OUTSIDE : Z := 99.   (* *outside-char*  base64.scm:23 *)
Definition PAD : Z := 101.      (* *pad-char*      base64.scm:24 *)

(** *base64-b64_encode-table* / (enc i)   base64.scm:51-69 *)
Definition enc (i : Z) : Z :=
  if i <=? 25 then i + 65
  else if i <=? 51 then (i - 26) + 97
  else if i <=? 61 then (i - 52) + 48
  else if i =? 62 then 43 else 47.

(** *base64-b64_decode-table* / base64-b64_decode-u8   base64.scm:26-49: letters, digits, the liberal
    extras + - / _ ~, the pad char =; everything else is "outside". *)
Definition dec_tab (c : Z) : Z :=
  if (65 <=? c) && (c <=? 90) then c - 65
  else if (97 <=? c) && (c <=? 122) then c - 97 + 26
  else if (48 <=? c) && (c <=? 57) then c - 48 + 52
  else if (c =? 43) || (c =? 45) then 62
  else if (c =? 47) || (c =? 95) || (c =? 126) then 63
  else if c =? 61 then PAD
  else OUTSIDE.

(** the four sextets written for a full group, base64.scm:294-311 *)
Definition s1 (b1 : Z) : Z := ash_r b1 2.
Definition s2 (b1 b2 : Z) : Z := ior (ash_l (band 3 b1) 4) (bit_field b2 4 8).
Definition s3 (b2 b3 : Z) : Z := ior (ash_l (bit_field b2 0 4) 2) (bit_field b3 6 8).
Definition s4 (b3 : Z) : Z := band 63 b3.

(** base64-b64_encode-bytevector! (base64.scm:261-311): groups of three; (- end i) = 1 or 2 at the end.
    base64-b64_encode-bytevector allocates exactly 4*ceil(len/3) bytes and this fills all of them. *)
Fixpoint b64_encode (bs : list Z) : list Z :=
  match bs with
  | [] => []
  | [b1] => [enc (s1 b1); enc (ash_l (band 3 b1) 4); 61; 61]
  | [b1; b2] => [enc (s1 b1); enc (s2 b1 b2); enc (ash_l (bit_field b2 0 4) 2); 61]
  | b1 :: b2 :: b3 :: r => enc (s1 b1) :: enc (s2 b1 b2) :: enc (s3 b2 b3) :: enc (s4 b3) :: b64_encode r
  end.

(** the three bytes written for four collected sextets, base64.scm:140-156 *)
Definition o1 (c1 c2 : Z) : Z := ior (ash_l c1 2) (bit_field c2 4 6).
Definition o2 (c2 c3 : Z) : Z := ior (ash_l (bit_field c2 0 4) 4) (bit_field c3 2 6).
Definition o3 (c3 c4 : Z) : Z := ior (ash_l (bit_field c3 0 2) 6) c4.

(** base64-b64_decode-finish (base64.scm:164-185): 1 leftover sextet -> 1 byte, 2 -> 1 byte, 3 -> 2 bytes *)
Definition finish (b1 b2 b3 : Z) : list Z :=
  if b1 =? OUTSIDE then []
  else if b2 =? OUTSIDE then [ash_l b1 2]
  else if b3 =? OUTSIDE then [o1 b1 b2]
  else [o1 b1 b2; o2 b2 b3].

(** base64-b64_decode-bytevector! (base64.scm:119-158) with the continuation of
    base64-b64_decode-bytevector (finish, then truncate the buffer to the bytes written). *)
Fixpoint dec_loop (src : list Z) (b1 b2 b3 : Z) : list Z :=
  match src with
  | [] => finish b1 b2 b3
  | x :: r =>
      let c := dec_tab x in
      if c =? PAD then finish b1 b2 b3
      else if c =? OUTSIDE then dec_loop r b1 b2 b3
      else if b1 =? OUTSIDE then dec_loop r c b2 b3
      else if b2 =? OUTSIDE then dec_loop r b1 c b3
      else if b3 =? OUTSIDE then dec_loop r b1 b2 c
      else o1 b1 b2 :: o2 b2 b3 :: o3 b3 c :: dec_loop r OUTSIDE OUTSIDE OUTSIDE
  end.

Definition b64_decode (src : list Z) : list Z := dec_loop src OUTSIDE OUTSIDE OUTSIDE.

(** size of the destination buffer allocated by base64-b64_decode-bytevector (base64.scm:99) *)
Definition dst_len (len : Z) : Z := 3 * ash_r (3 + len) 2.

(** SPEC side: the RFC 4648 alphabet plus padding *)
Definition b64char (c : Z) : bool :=
  ((65 <=? c) && (c <=? 90)) || ((97 <=? c) && (c <=? 122)) || ((48 <=? c) && (c <=? 57))
  || (c =? 43) || (c =? 47) || (c =? 61).
