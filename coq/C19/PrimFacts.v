(** Arithmetic reading of the bit primitives (general lemmas, no sweeps). *)
From ChibiV Require Import C19.Prims.
Local Open Scope Z_scope.

Lemma ash_r_div x k : 0 <= k -> ash_r x k = x / 2 ^ k.
Proof. intros; unfold ash_r; apply Z.shiftr_div_pow2; auto. Qed.

Lemma ash_l_mul x k : 0 <= k -> ash_l x k = x * 2 ^ k.
Proof. intros; unfold ash_l; apply Z.shiftl_mul_pow2; auto. Qed.

Lemma bit_field_arith n s e : 0 <= s -> s <= e -> bit_field n s e = (n / 2 ^ s) mod 2 ^ (e - s).
Proof.
  intros Hs He. unfold bit_field. rewrite Z.land_ones by lia. rewrite Z.shiftr_div_pow2 by lia. reflexivity.
Qed.

Lemma band_ones_l k a : 0 <= k -> band (Z.ones k) a = a mod 2 ^ k.
Proof. intros. unfold band. rewrite Z.land_comm. apply Z.land_ones; auto. Qed.

Lemma band_ones_r k a : 0 <= k -> band a (Z.ones k) = a mod 2 ^ k.
Proof. intros. unfold band. apply Z.land_ones; auto. Qed.

(** ior of a value shifted left by k with a value below 2^k is their sum *)
Lemma ior_disjoint a b k : 0 <= k -> 0 <= b < 2 ^ k -> ior (a * 2 ^ k) b = a * 2 ^ k + b.
Proof.
  intros Hk Hb. unfold ior.
  rewrite <- Z.lxor_lor.
  - symmetry. apply Z.add_nocarry_lxor.
    apply Z.bits_inj'. intros n Hn. rewrite Z.land_spec, Z.bits_0.
    destruct (Z_lt_le_dec n k) as [Hlt|Hge].
    + rewrite Z.mul_pow2_bits_low by lia. reflexivity.
    + assert (Z.testbit b n = false) as ->.
      { destruct (Z.eq_dec b 0) as [->|Hb0]; [apply Z.bits_0|].
        apply Z.bits_above_log2; [lia|]. apply Z.log2_lt_pow2; [lia|].
        apply Z.lt_le_trans with (2 ^ k); [lia|]. apply Z.pow_le_mono_r; lia. }
      apply andb_false_r.
  - apply Z.bits_inj'. intros n Hn. rewrite Z.land_spec, Z.bits_0.
    destruct (Z_lt_le_dec n k) as [Hlt|Hge].
    + rewrite Z.mul_pow2_bits_low by lia. reflexivity.
    + assert (Z.testbit b n = false) as ->.
      { destruct (Z.eq_dec b 0) as [->|Hb0]; [apply Z.bits_0|].
        apply Z.bits_above_log2; [lia|]. apply Z.log2_lt_pow2; [lia|].
        apply Z.lt_le_trans with (2 ^ k); [lia|]. apply Z.pow_le_mono_r; lia. }
      apply andb_false_r.
Qed.

Lemma in_zrange x lo n : In x (zrange lo n) <-> (Z.of_nat lo <= x < Z.of_nat lo + Z.of_nat n).
Proof.
  unfold zrange. rewrite in_map_iff. split.
  - intros [i [<- Hi]]. apply in_seq in Hi. lia.
  - intros H. exists (Z.to_nat x). split; [lia|]. apply in_seq. lia.
Qed.

Lemma in_all_bytes x : isbyte x <-> In x all_bytes.
Proof. unfold all_bytes, isbyte. rewrite in_zrange. cbn. lia. Qed.
