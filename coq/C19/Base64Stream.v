(** C19 model of the PORT (streaming) variants of lib/chibi/base64.scm and of base64-encode-header
    (executable; no proofs here).  The code modelled is the REPAIRED one
    (fixes/C19-base64-decode-port-eof, C19-base64-encode-port-chunk-multiple-of-3, C19-base64-encode-port-eof):
    read-bytevector! returning the eof object counts as 0 bytes, and the encoder reads chunks of
    encode-src-length (a multiple of 3) instead of 2048.  The chunk sizes are parameters [N] of the model
    (the theorems hold for every admissible N; the tie reads the real constants from the source). *)
From ChibiV Require Export C19.Base64.
Local Open Scope Z_scope.

(** base64-decode-bytevector! (base64.scm:119-158) seen as a function to the ARGUMENTS OF ITS CONTINUATION:
    the bytes written to dst (dst[0..j)), the unread rest of src (src[i..end), non-empty exactly when the loop
    stopped at a pad character) and the pending sextets b1 b2 b3. *)
Fixpoint dec_k (src : list Z) (b1 b2 b3 : Z) : list Z * list Z * (Z * Z * Z) :=
  match src with
  | [] => ([], [], (b1, b2, b3))
  | x :: r =>
      let c := dec_tab x in
      if c =? PAD then ([], src, (b1, b2, b3))
      else if c =? OUTSIDE then dec_k r b1 b2 b3
      else if b1 =? OUTSIDE then dec_k r c b2 b3
      else if b2 =? OUTSIDE then dec_k r b1 c b3
      else if b3 =? OUTSIDE then dec_k r b1 b2 c
      else let '(o, rest, st) := dec_k r OUTSIDE OUTSIDE OUTSIDE in
           (o1 b1 b2 :: o2 b2 b3 :: o3 b3 c :: o, rest, st)
  end.

(** "one to three chars left in buffer" (base64.scm:219-231): the pending sextets are RE-ENCODED into
    src[0..k) and the next read-bytevector! starts at offset k. *)
Definition carry_of (b1 b2 b3 : Z) : list Z :=
  if b1 =? OUTSIDE then []
  else if b2 =? OUTSIDE then [enc b1]
  else if b3 =? OUTSIDE then [enc b1; enc b2]
  else [enc b1; enc b2; enc b3].

(** (and (< src-offset src-len) (eqv? #x3D (bytevector-u8-ref src src-offset)))   base64.scm:210-211 *)
Definition at_eq (rest : list Z) : bool :=
  match rest with x :: _ => x =? 61 | [] => false end.

(** base64-decode, BINARY-port branch (base64.scm:198-240), chunk buffer of N bytes.
    [carry] = src[0..offset) left by the previous round, [input] = what the port still holds.
    One round per unit of fuel; [None] = out of fuel (never with fuel > length input, see the proofs). *)
Fixpoint stream_dec (fuel : nat) (N : nat) (carry input : list Z) : option (list Z) :=
  match fuel with
  | O => None
  | S f =>
      let want := (N - length carry)%nat in            (* read-bytevector! src in offset N *)
      let chunk := carry ++ firstn want input in       (* src[0..src-len) *)
      let rest := skipn want input in
      if (length chunk =? N)%nat then
        (* a full chunk: decode, write and loop *)
        let '(out, stop, (b1, b2, b3)) := dec_k chunk OUTSIDE OUTSIDE OUTSIDE in
        if at_eq stop then Some (out ++ finish b1 b2 b3)
        else if b1 =? OUTSIDE then option_map (app out) (stream_dec f N [] rest)
        else option_map (app out) (stream_dec f N (carry_of b1 b2 b3) rest)
      else
        (* end of source: decode what is there, finish, write once *)
        let '(out, _, (b1, b2, b3)) := dec_k chunk OUTSIDE OUTSIDE OUTSIDE in
        Some (out ++ finish b1 b2 b3)
  end.

Definition b64_stream_decode (N : nat) (input : list Z) : option (list Z) :=
  stream_dec (S (length input)) N [] input.

(** base64-encode, BINARY-port branch (base64.scm:321-334, repaired): read up to N bytes, encode them
    (padding included) and write 4*ceil(n/3) characters; loop while a full chunk was read. *)
Fixpoint stream_enc (fuel : nat) (N : nat) (input : list Z) : option (list Z) :=
  match fuel with
  | O => None
  | S f =>
      let chunk := firstn N input in
      if (length chunk =? N)%nat
      then option_map (app (b64_encode chunk)) (stream_enc f N (skipn N input))
      else Some (b64_encode chunk)
  end.

Definition b64_stream_encode (N : nat) (input : list Z) : option (list Z) :=
  stream_enc (S (length input)) N input.

(** * base64-encode-header (base64.scm:347-372, REPAIRED: fixes/C19-base64-encode-header-no-room-on-first-line) on byte lists
    [name] = the charset name, [nl] = the newline separator; start-col / max-col as in the code. *)
Definition round4 (i : Z) : Z := ash_l (ash_r i 2) 2.

(** (string-chop str n): pieces of n characters, the last one holding the remainder (possibly empty when
    n divides the length: (>= j len) closes the list on the piece that reaches the end).  Fuelled: the
    Scheme loop does not terminate for n <= 0 — a hostile PARAMETER, outside the property. *)
Fixpoint chop (fuel : nat) (s : list Z) (n : nat) : list (list Z) :=
  match fuel with
  | O => [s]
  | S f => if (length s <=? n)%nat then [s] else firstn n s :: chop f (skipn n s) n
  end.

Fixpoint join (sep : list Z) (l : list (list Z)) : list Z :=
  match l with
  | [] => []
  | [x] => x
  | x :: r => x ++ sep ++ join sep r
  end.

Definition b64_header (name : list Z) (bs : list Z) (start_col max_col : Z) (nl : list Z) : list Z :=
  let prefix := [61; 63] ++ name ++ [63; 66; 63] in               (* "=?" enc "?B?" *)
  let prefix_length := 2 + Z.of_nat (length prefix) in
  let effective := round4 (max_col - prefix_length) in
  let first := Z.max 0 (round4 (effective - start_col)) in
  let str := b64_encode bs in
  let len := Z.of_nat (length str) in
  let close := [63; 61] in                                          (* "?=" *)
  if len <=? first then prefix ++ str ++ close
  else
    let sep := close ++ nl ++ [9] ++ prefix in
    (if 0 <? first then prefix ++ firstn (Z.to_nat first) str ++ sep else nl ++ [9] ++ prefix)
    ++ join sep (chop (length str) (skipn (Z.to_nat first) str) (Z.to_nat effective))
    ++ close.
