(** C19 — the streaming (port) variants of base64 compute the same function as the one-shot ones,
    for EVERY chunk size and EVERY position of white space / line breaks relative to a chunk boundary. *)
From ChibiV Require Import C19.Base64 C19.Base64Proofs C19.Base64Stream.
Local Open Scope Z_scope.

(** * dec_k is dec_loop with the continuation made explicit *)
Lemma dec_k_app : forall xs ys b1 b2 b3,
  dec_loop (xs ++ ys) b1 b2 b3 =
  let '(out, stop, (c1, c2, c3)) := dec_k xs b1 b2 b3 in
  out ++ (match stop with [] => dec_loop ys c1 c2 c3 | _ :: _ => finish c1 c2 c3 end).
Proof.
  induction xs as [|x r IH]; intros ys b1 b2 b3.
  - reflexivity.
  - cbn [app dec_loop dec_k].
    destruct (dec_tab x =? PAD) eqn:Ep; [reflexivity|].
    destruct (dec_tab x =? OUTSIDE) eqn:Eo; [apply IH|].
    destruct (b1 =? OUTSIDE) eqn:E1; [apply IH|].
    destruct (b2 =? OUTSIDE) eqn:E2; [apply IH|].
    destruct (b3 =? OUTSIDE) eqn:E3; [apply IH|].
    rewrite IH. destruct (dec_k r OUTSIDE OUTSIDE OUTSIDE) as [[o stop] [[c1 c2] c3]]. reflexivity.
Qed.

Lemma dec_k_whole xs b1 b2 b3 :
  dec_loop xs b1 b2 b3 = let '(out, _, (c1, c2, c3)) := dec_k xs b1 b2 b3 in out ++ finish c1 c2 c3.
Proof.
  rewrite <- (app_nil_r xs) at 1. rewrite dec_k_app.
  destruct (dec_k xs b1 b2 b3) as [[o stop] [[c1 c2] c3]]. destruct stop; reflexivity.
Qed.

(** where the loop stops before the end of the buffer there is an [=] (the code re-tests the byte) *)
Lemma dec_tab_pad x : dec_tab x = PAD -> x = 61.
Proof.
  unfold dec_tab, PAD, OUTSIDE.
  repeat match goal with |- context [if ?c then _ else _] => destruct c eqn:? end; lia.
Qed.

Lemma dec_k_stop : forall xs b1 b2 b3 out stop st,
  dec_k xs b1 b2 b3 = (out, stop, st) -> stop = [] \/ at_eq stop = true.
Proof.
  induction xs as [|x r IH]; intros b1 b2 b3 out stop st H.
  - cbn in H. left. congruence.
  - cbn [dec_k] in H.
    destruct (dec_tab x =? PAD) eqn:Ep.
    { right. apply Z.eqb_eq, dec_tab_pad in Ep. subst x.
      assert (stop = 61 :: r) as -> by congruence. reflexivity. }
    destruct (dec_tab x =? OUTSIDE) eqn:Eo; [eapply IH; eassumption|].
    destruct (b1 =? OUTSIDE) eqn:E1; [eapply IH; eassumption|].
    destruct (b2 =? OUTSIDE) eqn:E2; [eapply IH; eassumption|].
    destruct (b3 =? OUTSIDE) eqn:E3; [eapply IH; eassumption|].
    destruct (dec_k r OUTSIDE OUTSIDE OUTSIDE) as [[o s] st'] eqn:Er.
    assert (stop = s) as -> by congruence. eapply IH; eassumption.
Qed.

(** the pending sextets stay well formed *)
Lemma dec_k_wf : forall xs b1 b2 b3 out stop c1 c2 c3,
  wf_state b1 b2 b3 -> dec_k xs b1 b2 b3 = (out, stop, (c1, c2, c3)) -> wf_state c1 c2 c3.
Proof.
  induction xs as [|x r IH]; intros b1 b2 b3 out stop c1 c2 c3 Hwf H.
  - cbn in H. assert (b1 = c1 /\ b2 = c2 /\ b3 = c3) as (<- & <- & <-) by (repeat split; congruence). exact Hwf.
  - cbn [dec_k] in H.
    destruct (dec_tab x =? PAD) eqn:Ep.
    { assert (b1 = c1 /\ b2 = c2 /\ b3 = c3) as (<- & <- & <-) by (repeat split; congruence). exact Hwf. }
    destruct (dec_tab x =? OUTSIDE) eqn:Eo; [eapply IH; eassumption|].
    assert (Hs : sextet (dec_tab x)).
    { destruct (dec_tab_cases x) as [A|[A|A]]; [rewrite A in Ep; discriminate | rewrite A, Z.eqb_refl in Eo; discriminate | exact A]. }
    destruct Hwf as (K1 & K2 & K3 & I1 & I2).
    destruct (b1 =? OUTSIDE) eqn:E1.
    { apply Z.eqb_eq in E1. specialize (I1 E1). specialize (I2 I1). subst b1 b2 b3.
      eapply IH; [|eassumption]. unfold wf_state, okst, sextet, OUTSIDE in *; lia. }
    destruct (b2 =? OUTSIDE) eqn:E2.
    { apply Z.eqb_eq in E2. specialize (I2 E2). subst b2 b3. apply Z.eqb_neq in E1.
      eapply IH; [|eassumption]. unfold wf_state, okst, sextet, OUTSIDE in *; lia. }
    destruct (b3 =? OUTSIDE) eqn:E3.
    { apply Z.eqb_eq in E3. subst b3. apply Z.eqb_neq in E1, E2.
      eapply IH; [|eassumption]. unfold wf_state, okst, sextet, OUTSIDE in *; lia. }
    destruct (dec_k r OUTSIDE OUTSIDE OUTSIDE) as [[o s] [[d1 d2] d3]] eqn:Er.
    assert (d1 = c1 /\ d2 = c2 /\ d3 = c3) as (<- & <- & <-) by (repeat split; congruence).
    eapply IH; [|eassumption]. unfold wf_state, okst, sextet, OUTSIDE in *; lia.
Qed.

Lemma wf_out : wf_state OUTSIDE OUTSIDE OUTSIDE.
Proof. unfold wf_state, okst. tauto. Qed.

(** re-encoding the pending sextets in front of the next chunk restores the state *)
Lemma carry_restores b1 b2 b3 ys : wf_state b1 b2 b3 ->
  dec_loop (carry_of b1 b2 b3 ++ ys) OUTSIDE OUTSIDE OUTSIDE = dec_loop ys b1 b2 b3.
Proof.
  intros (K1 & K2 & K3 & I1 & I2). unfold carry_of.
  destruct (okst_cases _ K1) as [[-> E1]|[-> S1]].
  { specialize (I1 E1). specialize (I2 I1). subst. reflexivity. }
  destruct (okst_cases _ K2) as [[-> E2]|[-> S2]].
  { specialize (I2 E2). subst b2 b3. cbn [app].
    rewrite dec_loop_valid by (rewrite dec_enc; assumption). rewrite Z.eqb_refl, dec_enc by assumption. reflexivity. }
  destruct (okst_cases _ K3) as [[-> E3]|[-> S3]].
  { subst b3. cbn [app].
    rewrite dec_loop_valid by (rewrite dec_enc; assumption). rewrite Z.eqb_refl, dec_enc by assumption.
    rewrite dec_loop_valid by (rewrite dec_enc; assumption). rewrite (sextet_not_out _ S1), Z.eqb_refl, dec_enc by assumption.
    reflexivity. }
  cbn [app].
  rewrite dec_loop_valid by (rewrite dec_enc; assumption). rewrite Z.eqb_refl, dec_enc by assumption.
  rewrite dec_loop_valid by (rewrite dec_enc; assumption). rewrite (sextet_not_out _ S1), Z.eqb_refl, dec_enc by assumption.
  rewrite dec_loop_valid by (rewrite dec_enc; assumption).
  rewrite (sextet_not_out _ S1), (sextet_not_out _ S2), Z.eqb_refl, dec_enc by assumption.
  reflexivity.
Qed.

Lemma carry_length b1 b2 b3 : (length (carry_of b1 b2 b3) <= 3)%nat.
Proof. unfold carry_of. repeat match goal with |- context [if ?c then _ else _] => destruct c end; cbn; lia. Qed.

Lemma carry_out b1 b2 b3 : b1 =? OUTSIDE = true -> carry_of b1 b2 b3 = [].
Proof. unfold carry_of. intros ->. reflexivity. Qed.

(** * the streaming decoder = the one-shot decoder *)
Lemma stream_dec_spec : forall fuel N input b1 b2 b3,
  (4 <= N)%nat -> wf_state b1 b2 b3 -> (length input < fuel)%nat ->
  stream_dec fuel N (carry_of b1 b2 b3) input = Some (dec_loop input b1 b2 b3).
Proof.
  induction fuel as [|f IH]; intros N input b1 b2 b3 HN Hwf Hf; [lia|].
  cbn [stream_dec].
  pose proof (carry_length b1 b2 b3) as Hc.
  set (want := (N - length (carry_of b1 b2 b3))%nat).
  assert (Hwant : (1 <= want)%nat) by (unfold want; lia).
  assert (Hrhs : dec_loop input b1 b2 b3 =
                 dec_loop ((carry_of b1 b2 b3 ++ firstn want input) ++ skipn want input) OUTSIDE OUTSIDE OUTSIDE).
  { rewrite <- app_assoc, firstn_skipn. symmetry. apply carry_restores. exact Hwf. }
  rewrite Hrhs. clear Hrhs.
  destruct (length (carry_of b1 b2 b3 ++ firstn want input) =? N)%nat eqn:Efull.
  - (* a full chunk *)
    rewrite dec_k_app.
    destruct (dec_k (carry_of b1 b2 b3 ++ firstn want input) OUTSIDE OUTSIDE OUTSIDE) as [[out stop] [[c1 c2] c3]] eqn:Ek.
    pose proof (dec_k_wf _ _ _ _ _ _ _ _ _ wf_out Ek) as Hwf'.
    assert (Hrest : (length (skipn want input) < f)%nat).
    { rewrite skipn_length. apply Nat.eqb_eq in Efull. rewrite app_length, firstn_length in Efull. lia. }
    destruct (dec_k_stop _ _ _ _ _ _ _ Ek) as [-> | Hs].
    + cbn [at_eq].
      destruct (c1 =? OUTSIDE) eqn:E1.
      * rewrite <- (carry_out c1 c2 c3 E1). rewrite IH by assumption. reflexivity.
      * rewrite IH by assumption. reflexivity.
    + rewrite Hs. destruct stop; [discriminate|]. reflexivity.
  - (* the last, short chunk: firstn took everything *)
    apply Nat.eqb_neq in Efull.
    assert (Hall : skipn want input = []).
    { apply skipn_all2. rewrite app_length, firstn_length in Efull. unfold want in *. lia. }
    rewrite Hall, app_nil_r. rewrite dec_k_whole.
    destruct (dec_k (carry_of b1 b2 b3 ++ firstn want input) OUTSIDE OUTSIDE OUTSIDE) as [[out stop] [[c1 c2] c3]].
    reflexivity.
Qed.

(** for every chunk size >= 4 and every input (white space, line breaks, junk and padding anywhere,
    in particular astride a chunk boundary) streaming decode = one-shot decode, and the loop terminates *)
Theorem stream_decode_equals_decode (N : nat) (input : list Z) :
  (4 <= N)%nat -> b64_stream_decode N input = Some (b64_decode input).
Proof.
  intros HN. unfold b64_stream_decode, b64_decode.
  change (@nil Z) with (carry_of OUTSIDE OUTSIDE OUTSIDE).
  apply stream_dec_spec; [assumption | apply wf_out | lia].
Qed.

(** every write-bytevector of a round fits the dst buffer of decode-dst-length = 3*((3+N)>>2) bytes *)
Theorem stream_decode_chunk_fits (N : nat) (chunk : list Z) :
  length chunk = N ->
  let '(out, _, (c1, c2, c3)) := dec_k chunk OUTSIDE OUTSIDE OUTSIDE in
  Z.of_nat (length (out ++ finish c1 c2 c3)) <= dst_len (Z.of_nat N).
Proof.
  intros HN. pose proof (base64_decode_total chunk) as [_ Hlen].
  unfold b64_decode in Hlen. rewrite dec_k_whole in Hlen. rewrite HN in Hlen.
  destruct (dec_k chunk OUTSIDE OUTSIDE OUTSIDE) as [[out stop] [[c1 c2] c3]]. exact Hlen.
Qed.

(** * the streaming encoder *)
Lemma b64_encode_app3 : forall n xs ys, length xs = (3 * n)%nat ->
  b64_encode (xs ++ ys) = b64_encode xs ++ b64_encode ys.
Proof.
  induction n as [|n IH]; intros xs ys Hl.
  - destruct xs; [reflexivity | cbn in Hl; lia].
  - destruct xs as [|a [|b [|c r]]]; try (cbn in Hl; lia).
    cbn [app b64_encode]. rewrite (IH r ys) by (cbn [length] in Hl; lia). reflexivity.
Qed.

Lemma stream_enc_spec : forall fuel n input, (0 < n)%nat -> (length input < fuel)%nat ->
  stream_enc fuel (3 * n) input = Some (b64_encode input).
Proof.
  induction fuel as [|f IH]; intros n input Hn Hf; [lia|].
  cbn [stream_enc].
  destruct (length (firstn (3 * n) input) =? 3 * n)%nat eqn:E.
  - apply Nat.eqb_eq in E.
    rewrite IH; [| assumption | rewrite skipn_length; rewrite firstn_length in E; lia].
    cbn [option_map]. rewrite <- (b64_encode_app3 n) by exact E. rewrite firstn_skipn. reflexivity.
  - apply Nat.eqb_neq in E. rewrite firstn_length in E.
    rewrite firstn_all2 by lia. reflexivity.
Qed.

(** for every chunk size that is a positive multiple of 3, streaming encode = one-shot encode *)
Theorem stream_encode_equals_encode (n : nat) (input : list Z) :
  (0 < n)%nat -> b64_stream_encode (3 * n) input = Some (b64_encode input).
Proof. intros Hn. apply stream_enc_spec; [assumption | lia]. Qed.

(** ... and a chunk size that is NOT a multiple of 3 (the pinned code read 2048 bytes per round) puts
    padding in the middle of the text: the witness that made fixes/C19-base64-encode-port-chunk-multiple-of-3 *)
Theorem stream_encode_chunk_2048_refuted :
  exists input, b64_stream_encode 2048 input <> Some (b64_encode input) /\
                option_map b64_decode (b64_stream_encode 2048 input) <> Some input.
Proof.
  exists (repeat 65 2049). split; vm_compute; intro H; discriminate H.
Qed.

(** * base64-encode-header: a sequence of encoded words =?name?B?w?= separated by nl TAB whose payloads,
    concatenated, are the one-shot encoding; when the first line has no room for a quantum the text starts with a fold *)
Lemma chop_concat : forall fuel s n, concat (chop fuel s n) = s.
Proof.
  induction fuel as [|f IH]; intros s n; cbn [chop].
  - cbn. apply app_nil_r.
  - destruct (length s <=? n)%nat; cbn [concat]; [apply app_nil_r|].
    rewrite IH. apply firstn_skipn.
Qed.

Lemma chop_nonempty fuel s n : chop fuel s n <> [].
Proof. destruct fuel; cbn [chop]; [discriminate|]. destruct (length s <=? n)%nat; discriminate. Qed.

Lemma wrap_join (p c x : list Z) : forall ws, ws <> [] ->
  p ++ join (c ++ x ++ p) ws ++ c = join x (map (fun w => p ++ w ++ c) ws).
Proof.
  induction ws as [|w r IH]; intros Hne; [congruence|].
  destruct r as [|w' r'].
  - reflexivity.
  - change (join (c ++ x ++ p) (w :: w' :: r')) with (w ++ (c ++ x ++ p) ++ join (c ++ x ++ p) (w' :: r')).
    change (join x (map (fun w0 => p ++ w0 ++ c) (w :: w' :: r')))
      with ((p ++ w ++ c) ++ x ++ join x (map (fun w0 => p ++ w0 ++ c) (w' :: r'))).
    rewrite <- IH by discriminate. repeat rewrite <- app_assoc. reflexivity.
Qed.

Theorem header_words (name bs : list Z) (start_col max_col : Z) (nl : list Z) :
  let prefix := [61; 63] ++ name ++ [63; 66; 63] in
  exists lead words,
    b64_header name bs start_col max_col nl = lead ++ join (nl ++ [9]) (map (fun w => prefix ++ w ++ [63; 61]) words) /\
    concat words = b64_encode bs /\ (lead = [] \/ lead = nl ++ [9]).
Proof.
  intros prefix. unfold b64_header. fold prefix.
  set (first := Z.max 0 (round4 (round4 (max_col - (2 + Z.of_nat (length prefix))) - start_col))).
  destruct (Z.of_nat (length (b64_encode bs)) <=? first).
  - exists [], [b64_encode bs]. split; [reflexivity | split; [cbn; apply app_nil_r | left; reflexivity]].
  - set (eff := Z.to_nat (round4 (max_col - (2 + Z.of_nat (length prefix))))).
    set (rest := chop (length (b64_encode bs)) (skipn (Z.to_nat first) (b64_encode bs)) eff).
    assert (Hr : rest <> []) by apply chop_nonempty.
    destruct (0 <? first) eqn:Ef.
    + exists [], (firstn (Z.to_nat first) (b64_encode bs) :: rest). split; [|split; [|left; reflexivity]].
      * rewrite app_nil_l. rewrite <- (wrap_join prefix [63; 61] (nl ++ [9])) by discriminate.
        destruct rest as [|r0 rr] eqn:Er; [congruence|].
        change (join ([63; 61] ++ (nl ++ [9]) ++ prefix) (firstn (Z.to_nat first) (b64_encode bs) :: r0 :: rr))
          with (firstn (Z.to_nat first) (b64_encode bs) ++ ([63; 61] ++ (nl ++ [9]) ++ prefix) ++ join ([63; 61] ++ (nl ++ [9]) ++ prefix) (r0 :: rr)).
        repeat rewrite <- app_assoc. reflexivity.
      * cbn [concat]. unfold rest. rewrite chop_concat. apply firstn_skipn.
    + exists (nl ++ [9]), rest. split; [|split; [|right; reflexivity]].
      * rewrite <- (wrap_join prefix [63; 61] (nl ++ [9])) by exact Hr.
        repeat rewrite <- app_assoc. reflexivity.
      * unfold rest. rewrite chop_concat.
        assert (first = 0) as -> by (apply Z.ltb_ge in Ef; unfold first in *; lia). reflexivity.
Qed.

Example stream_decode_example :
  b64_stream_decode 4 [84; 87; 10; 70; 117; 13; 10; 47; 119; 65; 61] = Some [77; 97; 110; 255; 0] /\
  b64_stream_decode 5 [84; 87; 10; 70; 117; 13; 10; 47; 119; 65; 61] = Some [77; 97; 110; 255; 0] /\
  b64_stream_encode 3 [77; 97; 110; 255; 0] = Some [84; 87; 70; 117; 47; 119; 65; 61].
Proof. vm_compute. repeat split. Qed.
