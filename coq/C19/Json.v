(** C19 model of lib/chibi/json.c (reader and writer), REPAIRED code:
      fixes/C19-json-write-escape-quote-control.patch   (writer escapes the double quote and control characters)
      fixes/C19-json-read-escapes-b-f-r.patch           (reader decodes \b \f \r)
      fixes/C19-json-read-exact-integers.patch          (reader keeps integers exact up to the fixnum limit)
      fixes/C19-json-read-depth-limit.patch             (reader refuses nesting deeper than JSON_MAX_DEPTH)
    Input and output are byte lists; EOF is the end of the list.  Executable; no proofs here.
    Not modelled: the malloc'ed growing buffer of json_read_string (sampled under ASan instead), flonum
    values (a number with '.', 'e' or beyond the fixnum range is the opaque class [JFloat]). *)
From ChibiV Require Export C19.Prims.
Local Open Scope Z_scope.

Inductive json : Type :=
| JNull                          (* the symbol null *)
| JBool (b : bool)
| JInt (v : Z)                   (* fixnum *)
| JFloat                         (* some flonum; value outside the model *)
| JStr (s : list Z)              (* writer: code points of the string / reader: the UTF-8 bytes it put in its buffer;
                                    as an object key: the symbol with that name *)
| JArr (l : list json)           (* vector *)
| JObj (l : list (json * json)). (* alist *)

Inductive res (A : Type) : Type := Ok (a : A) | Err | Fuel.
Arguments Ok {A} a.  Arguments Err {A}.  Arguments Fuel {A}.

Definition MAXFIX : Z := 4611686018427387903.     (* SEXP_MAX_FIXNUM = 2^62-1 *)
Definition MAXDEPTH : Z := 1000.                  (* JSON_MAX_DEPTH *)

(** <ctype.h> in the C locale *)
Definition isspace (c : Z) : bool := ((9 <=? c) && (c <=? 13)) || (c =? 32).
Definition isdigit (c : Z) : bool := (48 <=? c) && (c <=? 57).
(** isxdigit + digit_value (json.c:8-10) *)
Definition hexval (c : Z) : option Z :=
  if isdigit c then Some (c - 48)
  else if (97 <=? c) && (c <=? 102) then Some (c - 97 + 10)
  else if (65 <=? c) && (c <=? 70) then Some (c - 65 + 10)
  else None.

(** sexp_utf8_char_byte_count + sexp_utf8_encode_char (sexp.c:1231-1275) *)
Definition utf8_enc (c : Z) : list Z :=
  if c <? 128 then [c]
  else if c <? 2048 then [192 + ash_r c 6; 128 + band c 63]
  else if c <? 65536 then [224 + ash_r c 12; 128 + band (ash_r c 6) 63; 128 + band c 63]
  else [240 + ash_r c 18; 128 + band (ash_r c 12) 63; 128 + band (ash_r c 6) 63; 128 + band c 63].

(** decode_useq (json.c:83-94): four hex digits or failure (which every caller turns into an error) *)
Definition decode_useq (s : list Z) : option (Z * list Z) :=
  match s with
  | a :: b :: c :: d :: r =>
      match hexval a, hexval b, hexval c, hexval d with
      | Some x, Some y, Some z, Some w => Some (ash_l (ash_l (ash_l x 4 + y) 4 + z) 4 + w, r)
      | _, _, _, _ => None
      end
  | _ => None
  end.

Definition cons_res (b : Z) (r : res (list Z * list Z)) : res (list Z * list Z) :=
  match r with Ok (bs, rest) => Ok (b :: bs, rest) | Err => Err | Fuel => Fuel end.
Definition app_res (p : list Z) (r : res (list Z * list Z)) : res (list Z * list Z) :=
  match r with Ok (bs, rest) => Ok (p ++ bs, rest) | Err => Err | Fuel => Fuel end.

(** json_read_string (json.c:98-173), after the opening quote: the bytes put in the buffer, and the rest *)
Fixpoint read_string (fuel : nat) (s : list Z) : res (list Z * list Z) :=
  match fuel with
  | O => Fuel
  | S f =>
      match s with
      | [] => Err                                             (* unterminated string *)
      | ch :: r =>
          if ch =? 34 then Ok ([], r)
          else if ch =? 92 then
            match r with
            | [] => Err                                       (* EOF after the backslash, then unterminated *)
            | e :: r2 =>
                if e =? 110 then cons_res 10 (read_string f r2)
                else if e =? 116 then cons_res 9 (read_string f r2)
                else if e =? 114 then cons_res 13 (read_string f r2)
                else if e =? 98 then cons_res 8 (read_string f r2)
                else if e =? 102 then cons_res 12 (read_string f r2)
                else if e =? 117 then
                  match decode_useq r2 with
                  | None => Err                               (* invalid \u sequence *)
                  | Some (u, r3) =>
                      if (55296 <=? u) && (u <=? 56319) then
                        match r3 with
                        | 92 :: 117 :: r4 =>
                            match decode_useq r4 with
                            | Some (u2, r5) =>
                                if (56320 <=? u2) && (u2 <=? 57343)
                                then app_res (utf8_enc (65536 + ior (ash_l (u - 55296) 10) (u2 - 56320))) (read_string f r5)
                                else Err
                            | None => Err
                            end
                        | _ => app_res (utf8_enc u) (read_string f r3)   (* pushed back: the high surrogate stays unpaired *)
                        end
                      else app_res (utf8_enc u) (read_string f r3)
                  end
                else cons_res e (read_string f r2)            (* default: the escaped character itself *)
            end
          else cons_res ch (read_string f r)
      end
  end.

(** json_read_number (json.c:37-78), integer part with the exactness guard of the repairs: digits are accumulated exactly while
    the result stays <= lim, where lim = SEXP_MAX_FIXNUM for a positive and SEXP_MAX_FIXNUM + 1 for a negative number
    (C19-json-read-min-fixnum: -2^62 is a fixnum too) *)
Fixpoint read_digits (lim : Z) (s : list Z) (ires : Z) (inexact : bool) : Z * bool * list Z :=
  match s with
  | ch :: r =>
      if isdigit ch then
        let d := ch - 48 in
        if ires >? (lim - d) / 10 then read_digits lim r ires true
        else read_digits lim r (ires * 10 + d) inexact
      else (ires, inexact, s)
  | [] => (ires, inexact, [])
  end.

Fixpoint skip_digits (s : list Z) : list Z :=
  match s with
  | ch :: r => if isdigit ch then skip_digits r else s
  | [] => []
  end.

(** optional exponent part: e|E, optional sign, digits (json.c json_read_number after C19-json-read-exponent: the exponent is
    looked for after the fraction too, and the upper-case E that json_write_flonum's %G emits is accepted) *)
Definition skip_exp (s : list Z) : list Z :=
  match s with
  | c :: r =>
      if (c =? 101) || (c =? 69) then
        skip_digits (match r with
                     | c2 :: t => if (c2 =? 43) || (c2 =? 45) then t else r
                     | [] => r
                     end)
      else s
  | [] => s
  end.

Definition read_number (s : list Z) : json * list Z :=
  let '(sign, s1) := match s with
                     | c :: r => if c =? 43 then (1, r) else if c =? 45 then (-1, r) else (1, s)
                     | [] => (1, s)
                     end in
  let '(ires, inexact, s2) := read_digits (MAXFIX + (if sign =? 1 then 0 else 1)) s1 0 false in
  let plain := (if inexact then JFloat else JInt (sign * ires), s2) in
  match s2 with
  | c :: r =>
      if c =? 46 then (JFloat, skip_exp (skip_digits r))                (* '.' fraction, then an optional exponent *)
      else if (c =? 101) || (c =? 69) then (JFloat, skip_exp s2)        (* exponent directly after the integer part *)
      else plain
  | [] => plain
  end.

Fixpoint skip_ws (s : list Z) : list Z :=
  match s with
  | ch :: r => if isspace ch then skip_ws r else s
  | [] => []
  end.

Definition is_nil {A} (l : list A) : bool := match l with [] => true | _ => false end.

(** json_read / json_read_array / json_read_object (json.c:175-315).
    [fuel] bounds the number of loop iterations + recursive calls (it is not in the code; [Fuel] = ran out). *)
Fixpoint jread (fuel : nat) (depth : Z) (s : list Z) : res (json * list Z) :=
  match fuel with
  | O => Fuel
  | S f =>
      match skip_ws s with
      | [] => Err                                             (* EOF: "unexpected character" *)
      | ch :: r =>
          if ch =? 123 then (if depth >=? MAXDEPTH then Err else jobj f (depth + 1) r true [])
          else if ch =? 91 then (if depth >=? MAXDEPTH then Err else jarr f (depth + 1) r true [])
          else if ch =? 34 then
            match read_string (S (length r)) r with
            | Ok (bs, r') => Ok (JStr bs, r')
            | Err => Err
            | Fuel => Fuel
            end
          else if (ch =? 45) || (ch =? 43) || isdigit ch then Ok (read_number (ch :: r))
          else if (ch =? 110) || (ch =? 78) then Ok (JNull, skipn 3 r)          (* json_read_literal does not compare *)
          else if (ch =? 116) || (ch =? 84) then Ok (JBool true, skipn 3 r)
          else if (ch =? 102) || (ch =? 70) then Ok (JBool false, skipn 4 r)
          else Err
      end
  end
with jarr (fuel : nat) (depth : Z) (s : list Z) (comma : bool) (acc : list json) : res (json * list Z) :=
  match fuel with
  | O => Fuel
  | S f =>
      match s with
      | [] => Err                                             (* unterminated array *)
      | ch :: r =>
          if ch =? 93 then (if comma && negb (is_nil acc) then Err else Ok (JArr (rev acc), r))
          else if (ch =? 44) && comma then Err
          else if ch =? 44 then jarr f depth r true acc
          else if isspace ch then jarr f depth r comma acc
          else if comma then
            match jread f depth s with
            | Ok (v, r') => jarr f depth r' false (v :: acc)
            | Err => Err
            | Fuel => Fuel
            end
          else Err
      end
  end
with jobj (fuel : nat) (depth : Z) (s : list Z) (comma : bool) (acc : list (json * json)) : res (json * list Z) :=
  match fuel with
  | O => Fuel
  | S f =>
      match s with
      | [] => Err
      | ch :: r =>
          if ch =? 125 then (if comma && negb (is_nil acc) then Err else Ok (JObj (rev acc), r))
          else if (ch =? 44) && comma then Err
          else if ch =? 44 then jobj f depth r true acc
          else if isspace ch then jobj f depth r comma acc
          else if comma then
            match jread f depth s with
            | Ok (k, r1) =>
                match skip_ws r1 with
                | c :: r2 =>
                    if c =? 58 then
                      match jread f depth r2 with
                      | Ok (v, r3) => jobj f depth r3 false ((k, v) :: acc)
                      | Err => Err
                      | Fuel => Fuel
                      end
                    else Err                                  (* missing colon *)
                | [] => Err
                end
            | Err => Err
            | Fuel => Fuel
            end
          else Err
      end
  end.

(** string->json: read one value from the start of the text (trailing text is ignored by the library) *)
Definition json_read (s : list Z) : res json :=
  match jread (2 * length s + 2) 0 s with
  | Ok (v, _) => Ok v
  | Err => Err
  | Fuel => Fuel
  end.

(** * writer (json.c:339-487) *)
Definition hexd (n : Z) : Z := if n <? 10 then 48 + n else 55 + n.            (* %X *)
Definition hex4 (c : Z) : list Z :=
  [hexd (band (ash_r c 12) 15); hexd (band (ash_r c 8) 15); hexd (band (ash_r c 4) 15); hexd (band c 15)].   (* %04lX, c <= 0xFFFF *)

(** one character of json_write_string; None = "unable to encode string" *)
Definition wr_char (c : Z) : option (list Z) :=
  if (c <? 32) && negb ((c =? 8) || (c =? 12) || (c =? 10) || (c =? 13) || (c =? 9)) then Some (92 :: 117 :: hex4 c)
  else if c <? 127 then
    Some (if c =? 34 then [92; 34]
          else if c =? 92 then [92; 92]
          else if c =? 8 then [92; 98]
          else if c =? 12 then [92; 102]
          else if c =? 10 then [92; 110]
          else if c =? 13 then [92; 114]
          else if c =? 9 then [92; 116]
          else [c])
  else if c <=? 65535 then Some (92 :: 117 :: hex4 c)
  else
    let chh := 55296 - ash_r 65536 10 + ash_r c 10 in
    let chl := 56320 + band c 1023 in
    if (chh >? 65535) || (chl >? 65535) then None
    else Some (92 :: 117 :: hex4 chh ++ 92 :: 117 :: hex4 chl).

Fixpoint wr_chars (s : list Z) : option (list Z) :=
  match s with
  | [] => Some [34]
  | c :: r => match wr_char c, wr_chars r with
              | Some a, Some b => Some (a ++ b)
              | _, _ => None
              end
  end.
Definition wr_string (s : list Z) : option (list Z) :=
  match wr_chars s with Some b => Some (34 :: b) | None => None end.

(** sexp_write of a fixnum: decimal *)
Fixpoint le_digits (fuel : nat) (n : Z) : list Z :=
  match fuel with
  | O => []
  | S f => if n <? 10 then [n] else (n mod 10) :: le_digits f (n / 10)
  end.
Definition dec_pos (n : Z) : list Z := map (fun d => 48 + d) (rev (le_digits 20 n)).
Definition decimal (z : Z) : list Z := if z <? 0 then 45 :: dec_pos (- z) else dec_pos z.

Definition opt_app (a b : option (list Z)) : option (list Z) :=
  match a, b with Some x, Some y => Some (x ++ y) | _, _ => None end.

(** json_write_array / json_write_object loops, parameterised by the writer of one value *)
Definition welems (w : json -> option (list Z)) : list json -> bool -> option (list Z) :=
  fix elems (l : list json) (first : bool) : option (list Z) :=
    match l with
    | [] => Some [93]
    | x :: r => opt_app (Some (if first then [] else [44])) (opt_app (w x) (elems r false))
    end.

Definition wmembers (w : json -> option (list Z)) : list (json * json) -> bool -> option (list Z) :=
  fix members (l : list (json * json)) (first : bool) : option (list Z) :=
    match l with
    | [] => Some [125]
    | (k, x) :: r =>
        match k with
        | JStr ks => opt_app (Some (if first then [] else [44]))
                       (opt_app (wr_string ks) (opt_app (Some [58]) (opt_app (w x) (members r false))))
        | _ => None                                       (* key: not a symbol *)
        end
    end.

(** json_write; None = a write exception (or a flonum, outside the model) *)
Fixpoint jwrite (v : json) : option (list Z) :=
  match v with
  | JNull => Some [110; 117; 108; 108]
  | JBool true => Some [116; 114; 117; 101]
  | JBool false => Some [102; 97; 108; 115; 101]
  | JInt z => Some (decimal z)
  | JFloat => None
  | JStr s => wr_string s
  | JArr l => opt_app (Some [91]) (welems jwrite l true)
  | JObj l => opt_app (Some [123]) (wmembers jwrite l true)
  end.

(** SPEC side: what the reader is expected to give back for a written value: the same tree with every string
    replaced by its UTF-8 encoding (the reader fills a byte buffer) *)
Fixpoint utf8_str (s : list Z) : list Z := match s with [] => [] | c :: r => utf8_enc c ++ utf8_str r end.
Fixpoint utf8_val (v : json) : json :=
  match v with
  | JStr s => JStr (utf8_str s)
  | JArr l => JArr (map utf8_val l)
  | JObj l => JObj (map (fun kv => (utf8_val (fst kv), utf8_val (snd kv))) l)
  | _ => v
  end.

(** Unicode scalar value *)
Definition scalar (c : Z) : bool := ((0 <=? c) && (c <? 55296)) || ((57344 <=? c) && (c <? 1114112)).
