(** C10 — unreachable memory is recycled; the heap stays well-formed: property theorems only. *)
From Coq Require Import ZArith List.
From ChibiV Require Import Gen.C10_Consts C10.Model C10.Spec C10.Proofs.
Import ListNotations.
Local Open Scope Z_scope.

Theorem inv_init : forall size max, hdr_sz < size -> (unit_sz | size) -> Inv (init size max).
Proof. exact inv_init_lemma. Qed.
Print Assumptions inv_init.

Theorem try_alloc_inv : forall st size i o st',
  0 < size -> (unit_sz | size) -> Inv st -> try_alloc st size = Some (i, o, st') ->
  Inv st' /\ map hsize (heaps st') = map hsize (heaps st) /\ max_size st' = max_size st.
Proof. exact try_alloc_inv_lemma. Qed.
Print Assumptions try_alloc_inv.

Theorem grow_inv : forall st size, Inv st -> 0 < size -> (unit_sz | size) ->
  Inv (grow st size) /\ total_size (grow st size) = total_size st + grow_size st size.
Proof. exact grow_inv_lemma. Qed.
Print Assumptions grow_inv.
