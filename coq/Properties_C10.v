(** C10 — unreachable memory is recycled; the heap stays well-formed: property theorems only.
    Model: coq/C10/Model.v (sexp_make_heap, sexp_try_alloc, sexp_sweep, sexp_gc's allocator part,
    sexp_grow_heap, sexp_alloc of gc.c).  [Inv]: coq/C10/Spec.v — every segment starts with the zero-size
    sentinel and is tiled EXACTLY by free-list nodes and objects, the free list is strictly increasing,
    coalesced (no two chunks adjacent), sizes positive and aligned, all mark bits clear. *)
From Coq Require Import ZArith List Permutation.
From ChibiV Require Import Gen.C10_Consts C10.Model C10.Spec C10.Proofs C10.Sweep C10.Theorems C10.More C10.Oom C10.SizeClass C10.Examples C10.Closed C10.Image C10.ImageProofs C10.OneClass C10.OneClass2 C10.Recycle.
Import ListNotations.
Local Open Scope Z_scope.

Theorem inv_init : forall size max, hdr_sz < size -> (unit_sz | size) -> Inv (init size max).
Proof. exact inv_init_lemma. Qed.
Print Assumptions inv_init.

Theorem try_alloc_inv : forall st size i o st',
  0 < size -> (unit_sz | size) -> Inv st -> try_alloc st size = Some (i, o, st') ->
  Inv st' /\ map hsize (heaps st') = map hsize (heaps st) /\ max_size st' = max_size st.
Proof. exact try_alloc_inv_lemma. Qed.
Print Assumptions try_alloc_inv.

(** the sweep of any exactly tiled state, WHATEVER the mark bits: it terminates with the provided fuel,
    re-establishes the invariant (coalesced, marks clear), changes no segment size ... *)
Theorem sweep_inv : forall st, heaps st <> [] -> Forall heap_inv (heaps st) ->
  exists st' mf sf, sweep st = Some (st', mf, sf) /\ Inv st' /\
    map hsize (heaps st') = map hsize (heaps st) /\ max_size st' = max_size st /\
    state_objs st' = map surv (state_objs st) /\ sf = all_dead_bytes st /\ 0 <= mf.
Proof. exact sweep_inv_lemma. Qed.
Print Assumptions sweep_inv.

(** ... and frees exactly the unmarked objects: what is left, per heap, is the list of the marked objects
    at their old offsets with their old sizes, marks cleared *)
Theorem sweep_frees_exactly_unmarked : forall st st' mf sf, heaps st <> [] -> Forall heap_inv (heaps st) ->
  sweep st = Some (st', mf, sf) -> state_objs st' = map surv (state_objs st).
Proof. exact sweep_frees_exactly_unmarked_lemma. Qed.
Print Assumptions sweep_frees_exactly_unmarked.

Theorem sweep_free_bytes : forall st st' mf sf, heaps st <> [] -> Forall heap_inv (heaps st) ->
  sweep st = Some (st', mf, sf) ->
  state_free st' = total_size st - hdr_sz * Z.of_nat (length (heaps st)) - live_bytes st
  /\ sf = all_dead_bytes st.
Proof. exact sweep_free_bytes_lemma. Qed.
Print Assumptions sweep_free_bytes.

Theorem grow_inv : forall st size, Inv st -> 0 < size -> (unit_sz | size) ->
  Inv (grow st size) /\ total_size (grow st size) = total_size st + grow_size st size.
Proof. exact grow_inv_lemma. Qed.
Print Assumptions grow_inv.

Theorem gc_inv : forall st mss st' mf sf, Inv st -> gc st mss = Some (st', mf, sf) ->
  Inv st' /\ map hsize (heaps st') = map hsize (heaps st) /\ max_size st' = max_size st.
Proof. exact gc_inv_lemma. Qed.
Print Assumptions gc_inv.

Theorem alloc_inv : forall st size mss, 0 < size -> (unit_sz | size) -> Inv st -> Inv (fst (alloc st size mss)).
Proof. exact alloc_inv_lemma. Qed.
Print Assumptions alloc_inv.

(** any history of allocations and collections, any mark inputs *)
Theorem heap_inv_reachable_states : forall size max ops,
  hdr_sz < size -> (unit_sz | size) -> Forall req_ok ops -> Inv (fold_left step ops (init size max)).
Proof. exact heap_inv_reachable_states_lemma. Qed.
Print Assumptions heap_inv_reachable_states.

Theorem alloc_reuses : forall st size,
  (exists h n, In h (heaps st) /\ In n (tl (hnodes h)) /\ size <= nsize n) -> try_alloc st size <> None.
Proof. exact alloc_reuses_lemma. Qed.
Print Assumptions alloc_reuses.

Theorem no_growth_when_fits : forall st size mss st1 mf sf,
  gc st mss = Some (st1, mf, sf) -> size <= mf ->
  ratio_den * (total_size st1 - sf) <= ratio_num * total_size st1 ->
  try_alloc st size = None ->
  map hsize (heaps (fst (alloc st size mss))) = map hsize (heaps st1) \/
  exists i o st3, try_alloc st1 size = Some (i, o, st3) /\ fst (alloc st size mss) = st3.
Proof. exact no_growth_when_fits_lemma. Qed.
Print Assumptions no_growth_when_fits.

(** the block sexp_try_alloc returns held no object: afterwards the chosen heap's objects are the old ones,
    unchanged, plus the new one (and by try_alloc_inv they still tile the heap: no overlap) *)
Theorem try_heap_fresh : forall h size o h',
  0 < size -> (unit_sz | size) -> heap_inv h -> try_heap h size = Some (o, h') ->
  Permutation (heap_objs h') ((o, size, false) :: heap_objs h).
Proof. exact try_heap_fresh_lemma. Qed.
Print Assumptions try_heap_fresh.

(** max_freed >= size after the sweep of a heap => a chunk that fits is on its free list *)
Theorem max_freed_fits : forall h sf h' mf' sf' size, heap_inv h -> sweep_heap h 0 sf = Some (h', mf', sf') ->
  0 < size -> size <= mf' -> exists n, In n (tl (hnodes h')) /\ size <= nsize n.
Proof. exact max_freed_fits_lemma. Qed.
Print Assumptions max_freed_fits.

(** PARTIAL (see C10/More.v): the bound holds for histories satisfying [hist_ok L]; deriving [hist_ok] from
    "live data <= L" is the missing fragmentation argument. *)
Theorem heap_bounded_partial : forall L st0 ops,
  Inv st0 -> Forall req_ok ops -> hist_ok L st0 ops ->
  ratio_num * total_size (fold_left step ops st0)
  <= Z.max (ratio_num * total_size st0) ((1 + factor_num) * ratio_den * L).
Proof. exact heap_bounded_partial_lemma. Qed.
Print Assumptions heap_bounded_partial.

(** after a collection that reports max_freed >= size the retry succeeds *)
Theorem gc_then_fits : forall st mss st1 mf sf size, Inv st -> gc st mss = Some (st1, mf, sf) ->
  0 < size -> size <= mf -> try_alloc st1 size <> None.
Proof. exact gc_then_fits_lemma. Qed.
Print Assumptions gc_then_fits.

(** sexp_alloc hands out the out-of-memory object only when a maximum heap size is set and reached *)
Theorem oom_only_at_max : forall st size mss, Inv st -> 0 < size -> (unit_sz | size) ->
  snd (alloc st size mss) = AOom ->
  max_size st <> 0 /\ exists st1 mf sf, gc st mss = Some (st1, mf, sf) /\ max_size st <= total_size st1.
Proof. exact oom_only_at_max_lemma. Qed.
Print Assumptions oom_only_at_max.

(** one size class: when every object has at least n bytes, a collection frees nothing or reports
    max_freed >= n — the first premise of [hist_ok] for histories whose requests all have size n *)
Theorem single_class_fit : forall st mss st1 mf sf n, 0 <= n -> Forall (heap_ge n) (heaps st) ->
  gc st mss = Some (st1, mf, sf) -> n <= mf \/ sf = 0.
Proof. exact single_class_fit_lemma. Qed.
Print Assumptions single_class_fit.

(** round 2.  [grow_formula] is the right-hand side of [new_size = ...] in sexp_grow_heap, TRANSLATED from gc.c on
    every run (gen/c10_consts.py -> Gen/C10_Consts.v); [grow_size] of the model is that expression applied to the
    size of the last segment.  From aligned arguments (segment sizes are aligned by [Inv], requests by sexp_alloc)
    every segment size it produces is a multiple of the allocation unit — so [make_heap] tiles the new segment
    exactly, no tail belongs to no chunk — and the request fits behind the header. *)
Theorem grow_formula_aligned : forall cur size, 0 <= cur -> (unit_sz | cur) -> 0 < size -> (unit_sz | size) ->
  (unit_sz | grow_formula cur size) /\ hdr_sz + size <= grow_formula cur size.
Proof. exact grow_formula_aligned_lemma. Qed.
Print Assumptions grow_formula_aligned.

(** round 2: CLOSEDNESS for the sweep step, and the interface between the mark phase (C02), the weak pass (C16) and
    the sweep.  [sl] = the slot contents of the objects (strong / weak = ephemeron key / extra = ephemeron value),
    ANY function; [marked_addrs st] = the (heap, offset) of the objects that carry a mark at sweep entry;
    [marks_closed M sl]: M is closed under the strong slots of marked objects and under the values of the marked
    ephemerons one of whose keys is alive (what sexp_mark + sexp_mark_weak_extras must deliver);
    [reset_slots M] = sexp_reset_weak_references on one object.  Then the objects after the sweep are exactly the
    marked ones and EVERY slot of every one of them designates one of them. *)
Theorem sweep_inv_closed : forall st st' mf sf sl,
  heaps st <> [] -> Forall heap_inv (heaps st) ->
  marks_closed (marked_addrs st) sl ->
  sweep st = Some (st', mf, sf) ->
  obj_addrs st' = marked_addrs st /\
  closed (obj_addrs st') (fun a => reset_slots (marked_addrs st) (sl a)).
Proof. exact sweep_inv_closed_lemma. Qed.
Print Assumptions sweep_inv_closed.

(** the premise is necessary for the strong slots: a closed result forces the marks to be closed under them (the
    premise check on the heap dumps is not stronger than the property) *)
Theorem marks_closed_strong_necessary : forall M sl,
  closed M (fun a => reset_slots M (sl a)) -> forall a, In a M -> forall b, In (Some b) (strong (sl a)) -> In b M.
Proof. exact strong_closed_necessary. Qed.
Print Assumptions marks_closed_strong_necessary.

(** round 3: the SECOND way a context comes into being — an image (chibi-scheme -i, sexp_load_image).  The segment is
    built by hand by gc_heap.c sexp_gc_packed_heap_make, whose arithmetic is TRANSLATED from the source into
    [pk_req], [pk_hsize], [pk_chunk] (Gen/C10_Consts.v).  For ALL packed contents and ALL requested free sizes the
    segment is an exact tiling — the packed objects where the image was read to, then one free chunk ending EXACTLY at
    the segment end (the sentinel pad is not part of it) — of aligned size, inside the malloc'ed block. *)
Theorem packed_heap_make_inv : forall objs free,
  run_ok objs -> unmarked objs -> 0 <= free ->
  let h := fst (packed_heap_make objs free) in
  heap_inv h /\ heap_unmarked h /\
  hsize h <= snd (packed_heap_make objs free) /\
  heap_objs h = pos_objs hdr_sz objs /\
  hsize h = hdr_sz + run_bytes objs + packed_free free /\
  free_list h = (if packed_free free =? 0 then [] else [(hdr_sz + run_bytes objs, packed_free free)]) /\
  free <= packed_free free.
Proof. exact packed_heap_make_inv_lemma. Qed.
Print Assumptions packed_heap_make_inv.

(** ... and every history of allocations and collections from a loaded image keeps the invariant *)
Theorem inv_after_image_load : forall objs free max ops,
  run_ok objs -> unmarked objs -> 0 <= free -> Forall req_ok ops ->
  Inv (fold_left step ops (image_state objs free max)).
Proof. exact inv_after_image_load_lemma. Qed.
Print Assumptions inv_after_image_load.

(** round 3: the embedder's root API.  [preserve] / [release] mirror sexp_preserve_object / sexp_release_object
    (gc.c:116-129) on the list SEXP_G_PRESERVATIVES; [rstep] adds the sexp_gc_preserve frames.  Over ANY history the
    list holds every object as often as it was preserved minus released (never below zero). *)
Theorem pres_count_history : forall ops r x,
  count_occ oaddr_dec (pres (fold_left rstep ops r)) x
  = fold_left (balance_step x) ops (count_occ oaddr_dec (pres r) x).
Proof. exact pres_count_history_lemma. Qed.
Print Assumptions pres_count_history.

(** after the release of the LAST preservation of x, and a collection whose marks are exactly the objects reachable
    from the roots as they are now (C02's property: the stated interface), x is no object of the swept heap — its
    storage is a free chunk (sweep_inv: exact tiling) — unless x is reachable from what remains *)
Theorem release_unroots : forall r x sl st st' mf sf,
  count_occ oaddr_dec (pres r) x = 1%nat ->
  let r' := rstep r (RRelease x) in
  ~ In x (pres r') /\
  (heaps st <> [] -> Forall heap_inv (heaps st) ->
   (forall a, In a (marked_addrs st) <-> In a (obj_addrs st) /\ reach sl (root_list r') a) ->
   sweep st = Some (st', mf, sf) ->
   ~ reach sl (root_list r') x -> ~ In x (obj_addrs st')).
Proof. exact release_unroots_lemma. Qed.
Print Assumptions release_unroots.

(** lifted over histories of preserve / release / frame push / frame pop *)
Theorem release_unroots_history : forall ops r0 x sl st st' mf sf,
  let r := fold_left rstep ops r0 in
  fold_left (balance_step x) ops (count_occ oaddr_dec (pres r0) x) = 0%nat ->
  ~ In x (pres r) /\
  (heaps st <> [] -> Forall heap_inv (heaps st) ->
   (forall a, In a (marked_addrs st) <-> In a (obj_addrs st) /\ reach sl (root_list r) a) ->
   sweep st = Some (st', mf, sf) ->
   ~ reach sl (root_list r) x -> ~ In x (obj_addrs st')).
Proof. exact release_unroots_history_lemma. Qed.
Print Assumptions release_unroots_history.

(** and nothing still rooted is lost *)
Theorem rooted_survives : forall r sl st st' mf sf x,
  heaps st <> [] -> Forall heap_inv (heaps st) ->
  (forall a, In a (marked_addrs st) <-> In a (obj_addrs st) /\ reach sl (root_list r) a) ->
  sweep st = Some (st', mf, sf) ->
  In x (obj_addrs st) -> reach sl (root_list r) x -> In x (obj_addrs st').
Proof. exact rooted_survives_lemma. Qed.
Print Assumptions rooted_survives.

(** round 3, job 2: the heap bound for SINGLE-SIZE-CLASS histories, with [hist_ok] (the premise of heap_bounded_partial)
    DERIVED.  [J n st]: Inv, every object has size n and lies on the n-grid of its segment (offset = hdr + k*n), every
    segment can hold one; [class_op n]: every request has size n; [live_hist n Lv K st ops]: whenever the slow path
    collects, the survivors total at most Lv bytes and the heap has at most K segments.  Then each slow-path collection
    frees a chunk that fits or nothing, the request fits the last segment, and the bytes it does not free are at most
    Lv + (hdr + n) * K: per segment the header and a tail of fewer than n bytes (every other free chunk is a multiple
    of n, so at a slow path the tail is the only free chunk). *)
Theorem single_class_hist_ok : forall n, 0 < n -> (unit_sz | n) -> forall Lv K ops st,
  J n st -> Forall (class_op n) ops -> live_hist n Lv K st ops -> hist_ok (Lv + (hdr_sz + n) * K) st ops.
Proof. exact single_class_hist_ok_lemma. Qed.
Print Assumptions single_class_hist_ok.

(** ... hence, from a fresh heap, total <= max(initial, (1+FACTOR)/RATIO * (Lv + (hdr+n)*K)) — in terms of the program's
    live data and the per-segment overhead only (K segments; with doubling segments K is logarithmic in the bound) *)
Theorem heap_bounded_single_class : forall n, 0 < n -> (unit_sz | n) -> forall size0 max Lv K ops,
  hdr_sz < size0 -> (unit_sz | size0) -> n <= size0 ->
  Forall (class_op n) ops -> live_hist n Lv K (init size0 max) ops ->
  ratio_num * total_size (fold_left step ops (init size0 max))
  <= Z.max (ratio_num * size0) ((1 + factor_num) * ratio_den * (Lv + (hdr_sz + n) * K)).
Proof. exact heap_bounded_single_class_lemma. Qed.
Print Assumptions heap_bounded_single_class.

(** the grid invariant itself: preserved by every operation of the class (it is NOT a consequence of Inv) *)
Theorem single_class_grid_invariant : forall n, 0 < n -> (unit_sz | n) -> forall st o,
  J n st -> class_op n o -> J n (step st o).
Proof. exact step_J. Qed.
Print Assumptions single_class_grid_invariant.

(** job 2, closed form — C10's first clause for one size class, from the program's live data ALONE: when every segment
    holds at least 8 objects of the class ([J8]: J + every segment >= 8n; true of every grown segment), every request
    has size n, and the survivors of every slow-path collection total at most Lv bytes ([live_hist1]), then
    total heap <= max(initial, 6 * Lv) after ANY number of allocations and collections, any mark inputs otherwise.
    (header + tail per segment <= total/4; the growth test fires only while total < 2 Lv; a growth at most triples.) *)
Theorem heap_bounded_single_class_free : forall n, 0 < n -> (unit_sz | n) -> forall Lv ops st,
  J8 n st -> Forall (class_op n) ops -> live_hist1 n Lv st ops ->
  total_size (fold_left step ops st) <= Z.max (total_size st) (6 * Lv).
Proof. exact heap_bounded_single_class_free_lemma. Qed.
Print Assumptions heap_bounded_single_class_free.

Theorem heap_bounded_from_init : forall n, 0 < n -> (unit_sz | n) -> forall size0 max Lv ops,
  hdr_sz < size0 -> (unit_sz | size0) -> 8 * n <= size0 ->
  Forall (class_op n) ops -> live_hist1 n Lv (init size0 max) ops ->
  total_size (fold_left step ops (init size0 max)) <= Z.max size0 (6 * Lv).
Proof. exact heap_bounded_from_init_lemma. Qed.
Print Assumptions heap_bounded_from_init.

(** round 4 — "storage of unreachable objects is returned to the allocator and REUSED" (coq/C10/Recycle.v).
    After the sweep of any exactly tiled state (ANY mark bits) max_freed is at least the size s of EVERY unmarked
    object the sweep walked over, and a request of at most s bytes is served by sexp_try_alloc right away (so
    sexp_alloc's retry needs no growth for it). *)
Theorem dead_object_recycled : forall st st' mf sf h nd s n,
  heaps st <> [] -> Forall heap_inv (heaps st) -> sweep st = Some (st', mf, sf) ->
  In h (heaps st) -> In nd (hnodes h) -> In (s, false) (nrun nd) -> 0 < n -> n <= s ->
  s <= mf /\ try_alloc st' n <> None.
Proof. exact dead_object_recycled_lemma. Qed.
Print Assumptions dead_object_recycled.

(** [cap n st] = sum over all free chunks of floor(size / n): how many n-byte objects the free lists can take.
    A successful sexp_try_alloc lowers it by EXACTLY one — when it splits a chunk and when it takes a whole chunk of
    n .. n + MINIMUM - 1 bytes (a chunk of exactly n bytes in particular) ... *)
Theorem try_alloc_cap : forall st n i o st', 0 < n -> (unit_sz | n) -> Inv st ->
  try_alloc st n = Some (i, o, st') -> cap n st' = cap n st - 1.
Proof. exact try_alloc_cap_lemma. Qed.
Print Assumptions try_alloc_cap.

(** ... it fails exactly when that capacity is zero ... *)
Theorem try_alloc_none_iff_no_capacity : forall st n, 0 < n -> Inv st -> (try_alloc st n = None <-> cap n st = 0).
Proof. exact try_alloc_none_cap_lemma. Qed.
Print Assumptions try_alloc_none_iff_no_capacity.

(** ... hence exactly [cap n st] consecutive n-byte allocations are served on the fast path (no collection, no
    growth) and the next one is not: k holes of one object each are ALL refilled before sexp_alloc collects. *)
Theorem fast_path_count : forall k st n, 0 < n -> (unit_sz | n) -> Inv st ->
  ((exists st', iter_try k st n = Some st') <-> Z.of_nat k <= cap n st).
Proof. exact fast_path_count_lemma. Qed.
Print Assumptions fast_path_count.

(** exact fit: when the first chunk that is large enough has exactly the requested size, the object is placed at
    that chunk's address, that chunk leaves the free list, every other chunk keeps its offset and size. *)
Theorem exact_fit_refilled : forall h s pre m post n,
  hnodes h = s :: pre ++ m :: post -> Forall (fun x => nsize x < n) pre -> nsize m = n -> 0 < min_obj ->
  exists h', try_heap h n = Some (noff m, h') /\ hsize h' = hsize h /\
             free_list h' = map nshape (pre ++ post).
Proof. exact exact_fit_refilled_lemma. Qed.
Print Assumptions exact_fit_refilled.
