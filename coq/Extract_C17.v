From Coq Require Import ExtrOcamlBasic.
From ChibiV Require Import Common.ExtractBase C17.Model C17.Spec C17.SchemeBase Gen.C17_Bitwise.
Extraction "model.ml" ext_base ival bit_and bit_ior bit_xor arithmetic_shift bit_count integer_length bit_set_p
  set_tc fix_to_tc fxadd normalize bit_count_w integer_log2 log2i spec bit_count_spec integer_length_spec
  s_bitwise_not s_bitwise_and s_bitwise_ior s_bitwise_xor s_bitwise_eqv s_bitwise_nand s_bitwise_nor
  s_bitwise_andc1 s_bitwise_andc2 s_bitwise_orc1 s_bitwise_orc2 s_any_bit_set_p s_every_bit_set_p s_first_set_bit
  s_bitwise_if s_bit_field s_bit_field_any_p s_bit_field_every_p s_bit_field_clear s_bit_field_set
  s_bit_field_replace s_bit_field_replace_same s_bit_field_rotate s_bit_field_reverse s_copy_bit s_bit_swap
  s_vector_to_bits s_bits_to_vector s_list_to_bits s_bits_to_list s_bits s_bitwise_fold s_bitwise_unfold
  s_make_bitwise_generator_step.
