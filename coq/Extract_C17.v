From Coq Require Import ExtrOcamlBasic.
From ChibiV Require Import Common.ExtractBase C17.Model C17.Spec.
Extraction "model.ml" ext_base ival bit_and bit_ior bit_xor arithmetic_shift bit_count integer_length bit_set_p
  set_tc fix_to_tc fxadd normalize bit_count_w integer_log2 log2i spec bit_count_spec integer_length_spec.
