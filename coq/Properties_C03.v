(** C03 — compiled evaluation implements the core-language semantics: property theorems only. *)
From Coq Require Import ZArith List Bool Arith.
From ChibiV Require Import C03.Defs C03.Model C03.Spec C03.Proofs.
Import ListNotations.

(** distinct variables of one frame (parameters, rest, internal defines) never share a slot *)
Theorem param_index_injective_in_frame : forall ps r ls x y,
  In x (frame_vars ps r ls) -> In y (frame_vars ps r ls) ->
  param_index ps r ls x = param_index ps r ls y -> x = y.
Proof. exact param_index_injective. Qed.
Print Assumptions param_index_injective_in_frame.

(** under every call protocol the slot LOCAL-REF k reads is the slot make_call stored argument k
    in, the rest list (when built) is in the slot of the rest parameter, the header is at fp..fp+3 *)
Theorem local_slot_matches_frame : forall s flags nargs c vars st i rip rself rfp s',
  make_call s (VProc flags nargs c vars) st i rip rself rfp = Next s' ->
  self s' = VProc flags nargs c vars /\ ip s' = 0 /\ length (stk s') = fp s' + 4 /\
  (exists i', sget (stk s') (fp s') = Some (vint i') /\ nargs <= i' /\ i' <= fp s') /\
  sget (stk s') (fp s' + 1) = Some (vint rip) /\
  sget (stk s') (fp s' + 2) = Some rself /\
  sget (stk s') (fp s' + 3) = Some (vint rfp) /\
  (forall k, k < nargs ->
     exists a, slot (fp s') (Z.of_nat k) = Some a /\ sget (stk s') a = nth_error st k) /\
  (Nat.testbit flags 0 = true -> Nat.testbit flags 1 = false ->
     exists a l, slot (fp s') (Z.of_nat nargs) = Some a /\ sget (stk s') a = Some l /\
       build_list (heap s) (firstn (i - nargs) (skipn nargs st)) = (heap s', l)).
Proof. exact make_call_frame. Qed.
Print Assumptions local_slot_matches_frame.

(** (after fixes/C03-rest-assigned.patch) UNUSED_REST is set only if the body neither references
    nor assigns the rest parameter; on the pinned code this fails (Proofs.rest_unused_pinned_refuted) *)
Theorem rest_unused_sound : forall id v body,
  rest_unused true id (Some v) body = true -> mentions id v body = false.
Proof. exact Proofs.rest_unused_sound. Qed.
Print Assumptions rest_unused_sound.

(** a lambda's fv list is exactly the set of variable occurrences of its body that it does not
    bind itself, without duplicates *)
Theorem free_vars_complete : forall id ps r ls b,
  NoDup (lam_fv id ps r ls b) /\
  forall x, In x (lam_fv id ps r ls b) <->
            In x (free_occ b) /\ bound_by id (ls ++ ps ++ match r with Some y => [y] | None => [] end) x = false.
Proof. exact Proofs.free_vars_complete. Qed.
Print Assumptions free_vars_complete.

(** index used by the creation code (VECTOR-SET k) = index used by CLOSURE-REF in the callee *)
Theorem closure_layout_agrees : forall svs svs' cur id ps r ls b k x o u,
  nth_error (lam_fv id ps r ls b) k = Some (x, o) -> o <> Local id ->
  (exists pre post, closure_fill svs cur 0 (lam_fv id ps r ls b) =
     pre ++ gen_non_global_ref svs cur x o false ++ [IPush (LInt (Z.of_nat k)); IStackRef 3; IVectorSet] ++ post)
  /\ gen_non_global_ref svs' (Some (mk_lctx id ps r ls (lam_fv id ps r ls b))) x o u
     = IClosureRef k :: (if u && memn x (sv_of svs' o) then [ICdr] else []).
Proof. exact Proofs.closure_layout_agrees. Qed.
Print Assumptions closure_layout_agrees.

(** box access (CDR / SET-CDR) is used exactly for the variables in their owner's sv, which are
    exactly the ones the entry code boxes *)
Theorem boxing_consistent : forall svs c x m v tail,
  gen_ref svs (Some c) x (Local m) true
    = gen_ref svs (Some c) x (Local m) false ++ (if memn x (svs m) then [ICdr] else [])
  /\ (memn x (svs m) = true ->
      generate tail svs (Some c) (SetV x (Local m) v)
      = generate false svs (Some c) v ++ gen_ref svs (Some c) x (Local m) false ++ [ISetCdr; IPush LVoid])
  /\ (forall ps r ls sv,
        box_code ps r ls sv
        = flat_map (fun y => [ILocalRef (param_index ps r ls y); IPush (LSym y); ICons; ILocalSet (param_index ps r ls y)]) sv).
Proof. exact Proofs.boxing_consistent. Qed.
Print Assumptions boxing_consistent.
