(** C03 — compiled evaluation implements the core-language semantics: property theorems only. *)
From Coq Require Import ZArith List Bool Arith.
From ChibiV Require Import C03.Defs C03.Model C03.Spec C03.Proofs C03.Simulation C03.SimCalls C03.SimBoxes C03.SimRest C03.SimClos C03.SimFull C03.SimProg C03.SimErr C03.SimStale.
Import ListNotations.

(** distinct variables of one frame (parameters, rest, internal defines) never share a slot *)
Theorem param_index_injective_in_frame : forall ps r ls x y,
  In x (frame_vars ps r ls) -> In y (frame_vars ps r ls) ->
  param_index ps r ls x = param_index ps r ls y -> x = y.
Proof. exact param_index_injective. Qed.
Print Assumptions param_index_injective_in_frame.

(** under every call protocol the slot LOCAL-REF k reads is the slot make_call stored argument k
    in, the rest list (when built) is in the slot of the rest parameter, the header is at fp..fp+3 *)
Theorem local_slot_matches_frame : forall s flags nargs c vars st i rip rself rfp s',
  make_call s (VProc flags nargs c vars) st i rip rself rfp = Next s' ->
  self s' = VProc flags nargs c vars /\ ip s' = 0 /\ length (stk s') = fp s' + 4 /\
  (exists i', sget (stk s') (fp s') = Some (vint i') /\ nargs <= i' /\ i' <= fp s') /\
  sget (stk s') (fp s' + 1) = Some (vint rip) /\
  sget (stk s') (fp s' + 2) = Some rself /\
  sget (stk s') (fp s' + 3) = Some (vint rfp) /\
  (forall k, k < nargs ->
     exists a, slot (fp s') (Z.of_nat k) = Some a /\ sget (stk s') a = nth_error st k) /\
  (Nat.testbit flags 0 = true -> Nat.testbit flags 1 = false ->
     exists a l, slot (fp s') (Z.of_nat nargs) = Some a /\ sget (stk s') a = Some l /\
       build_list (heap s) (firstn (i - nargs) (skipn nargs st)) = (heap s', l)).
Proof. exact make_call_frame. Qed.
Print Assumptions local_slot_matches_frame.

(** (after fixes/C03-rest-assigned.patch) UNUSED_REST is set only if the body neither references
    nor assigns the rest parameter; on the pinned code this fails (Proofs.rest_unused_pinned_refuted) *)
Theorem rest_unused_sound : forall id v body,
  rest_unused true id (Some v) body = true -> mentions id v body = false.
Proof. exact Proofs.rest_unused_sound. Qed.
Print Assumptions rest_unused_sound.

(** sexp_rest_unused_p as of /repo 7788b66 (simplify.c:190-201: the set-vars are consulted before usedp; this is the
    function [generate] uses for the procedure flags, [lam_flags_sv]): UNUSED_REST is set only if the body neither
    references nor assigns the rest parameter AND the set-vars do not list it -- simplification may remove every
    assignment while the set-vars keep the (stale) entry.  The usedp-only function violates the second half:
    Proofs.rest_unused_stale_sv_refuted. *)
Theorem rest_unused_sound_with_set_vars : forall id v sv body,
  rest_unused_p true id (Some v) sv body = true -> mentions id v body = false /\ ~ In v sv.
Proof. exact Proofs.rest_unused_p_sound. Qed.
Print Assumptions rest_unused_sound_with_set_vars.

(** ... and it is set whenever both hold (the optimisation is not lost: what must not change in the other direction) *)
Theorem rest_unused_complete_with_set_vars : forall id v sv body,
  mentions id v body = false -> ~ In v sv -> rest_unused_p true id (Some v) sv body = true.
Proof. exact Proofs.rest_unused_p_complete. Qed.
Print Assumptions rest_unused_complete_with_set_vars.

(** a procedure flagged UNUSED_REST gets no rest slot from make_call: frame position #fixed is a surplus argument or
    the CALLER's stack.  The prologue that boxes the assigned variables (vm.c:699-707, [box_code]) never stores
    there: every LOCAL-SET it contains addresses a fixed parameter (0 <= k < #fixed) or an internal define (k < 0).
    (F-C03-1 and the stale set-vars defect of C09 were both a boxed write to slot #fixed of a flagged procedure.) *)
Theorem unused_rest_prologue_never_boxes_rest_slot : forall id ps v ls sv b k,
  rest_unused_p true id (Some v) sv b = true ->
  (forall x, In x sv -> In x (frame_vars ps (Some v) ls)) ->
  In (ILocalSet k) (box_code ps (Some v) ls sv) ->
  (0 <= k < Z.of_nat (length ps))%Z \/ (k < 0)%Z.
Proof. exact Proofs.unused_rest_prologue_safe. Qed.
Print Assumptions unused_rest_prologue_never_boxes_rest_slot.

(** the procedure flags [generate] emits (vm.c generate_lambda via sexp_rest_unused_p) are a function of three SPEC-level
    facts only: is there a rest parameter, does the body mention it, do the set-vars list it.  (SimStale.ExampleStale
    applies the simulation theorem to the stale set-vars procedure [(lambda (a . r) a)] with set-vars [r].) *)
Theorem procedure_flags_characterised : forall id r sv b,
  lam_flags_sv id r sv b =
  match r with
  | None => 0
  | Some v => if mentions id v b || existsb (Nat.eqb v) sv then PROC_VARIADIC else PROC_VARIADIC + PROC_UNUSED_REST
  end.
Proof. exact SimStale.lam_flags_sv_spec. Qed.
Print Assumptions procedure_flags_characterised.

(** ERROR OUTCOMES OF CALLS, protocol level: make_call (vm.c:1305-1356), entered for a procedure object the code generator
    emitted for [Lam id ps r ls sv fv b] with the arguments vargs on top of the stack, fails or enters exactly as the
    SPEC's application rule decides (Spec.v eval/App; [spec_arity_verdict] is its two tests in its order): too few
    arguments -> ENotEnoughArgs, too many without rest parameter -> ETooManyArgs, otherwise the frame is entered --
    whatever the flags say about the rest parameter (used / unused / stale set-vars entry).
    PARTIAL with respect to "error outcomes of programs with calls": this is the call step only; the induction that
    carries an error out of a callee's body through RET is not proved (tested per program: model VM vs SPEC). *)
Theorem call_arity_errors_agree_partial : forall s id ps r sv b c vars vargs X rip rself rfp,
  match spec_arity_verdict ps r (length vargs) with
  | Some er => make_call s (VProc (lam_flags_sv id r sv b) (length ps) c vars) (vargs ++ X) (length vargs) rip rself rfp = Fail er
  | None => exists s', make_call s (VProc (lam_flags_sv id r sv b) (length ps) c vars) (vargs ++ X) (length vargs) rip rself rfp = Next s'
  end.
Proof. exact SimStale.make_call_arity_agrees. Qed.
Print Assumptions call_arity_errors_agree_partial.

(** ... and [spec_arity_verdict] is the SPEC's own rule: the application evaluates to that error *)
Theorem spec_application_arity_rule : forall fuel f args env st rvs st1 id ps r ls b cenv st2 er,
  evlist (eval fuel) (rev args) env st = inl (rvs, st1) ->
  eval fuel f env st1 = SVal (SClo id ps r ls b cenv) st2 ->
  spec_arity_verdict ps r (length (rev rvs)) = Some er ->
  eval (S fuel) (App f args) env st = SErr er.
Proof. exact SimStale.spec_app_arity. Qed.
Print Assumptions spec_application_arity_rule.

(** every variable the prologue boxes has a slot: [fragA]'s side condition on the set-vars (they only list variables WITH a slot:
    parameters, the LIVE rest parameter, internal defines) follows from what [wf_program] checks on the analyser's output (they only
    list variables of the frame).  True since 7788b66 only: a stale entry for an unmentioned rest parameter used to name a variable
    without slot.  First step of connecting the side conditions of the simulation theorems to [wf_program] (hand-over item 4). *)
Theorem set_vars_only_list_variables_with_a_slot : forall SV id ps r ls b,
  forallb (fun x => memn x (frame_vars ps r ls)) (SV id) = true ->
  forallb (fun x => memn x (ps ++ live_of SV id r b ++ ls)) (SV id) = true.
Proof. exact SimStale.set_vars_have_slots. Qed.
Print Assumptions set_vars_only_list_variables_with_a_slot.

(** second step (hand-over item 4): what [wf_program] (validated on every AST the real analyser produces) guarantees about the
    free-variable list the free-variable pass computes for a lambda ([lam_fv] = the fv field of an annotated term): every entry is
    a variable of an ENCLOSING lambda -- never of the lambda itself, never a global -- that is in scope where the lambda stands and
    binds that name.  These are the hypothesis "forall p, In p fv -> exists m, snd p = Local m /\ m <> id" of the call lemma of
    the simulation and the scoping half of [fv_okA].  [wf_free_occ_scoped] (every free occurrence of a well-formed term is bound
    by a lambda of the scope) is the underlying induction.  PARTIAL with respect to item 4: that an entry owned by a lambda further
    out is itself in the ENCLOSING lambda's fv list (fetchable through CLOSURE-REF) is not derived here. *)
Theorem wf_free_variables_belong_to_enclosing_lambdas_partial : forall sc id ps r ls sv fv b p,
  wf sc (Lam id ps r ls sv fv b) = true -> In p (lam_fv id ps r ls b) ->
  exists m bd sv', snd p = Local m /\ m <> id /\ scope_lookup m sc = Some (bd, sv') /\ memn (fst p) bd = true.
Proof. exact SimStale.wf_lam_fv_enclosing. Qed.
Print Assumptions wf_free_variables_belong_to_enclosing_lambdas_partial.

(** a lambda's fv list is exactly the set of variable occurrences of its body that it does not
    bind itself, without duplicates *)
Theorem free_vars_complete : forall id ps r ls b,
  NoDup (lam_fv id ps r ls b) /\
  forall x, In x (lam_fv id ps r ls b) <->
            In x (free_occ b) /\ bound_by id (ls ++ ps ++ match r with Some y => [y] | None => [] end) x = false.
Proof. exact Proofs.free_vars_complete. Qed.
Print Assumptions free_vars_complete.

(** index used by the creation code (VECTOR-SET k) = index used by CLOSURE-REF in the callee *)
Theorem closure_layout_agrees : forall svs svs' cur id ps r ls b k x o u,
  nth_error (lam_fv id ps r ls b) k = Some (x, o) -> o <> Local id ->
  (exists pre post, closure_fill svs cur 0 (lam_fv id ps r ls b) =
     pre ++ gen_non_global_ref svs cur x o false ++ [IPush (LInt (Z.of_nat k)); IStackRef 3; IVectorSet] ++ post)
  /\ gen_non_global_ref svs' (Some (mk_lctx id ps r ls (lam_fv id ps r ls b))) x o u
     = IClosureRef k :: (if u && memn x (sv_of svs' o) then [ICdr] else []).
Proof. exact Proofs.closure_layout_agrees. Qed.
Print Assumptions closure_layout_agrees.

(** box access (CDR / SET-CDR) is used exactly for the variables in their owner's sv, which are
    exactly the ones the entry code boxes *)
Theorem boxing_consistent : forall svs c x m v tail,
  gen_ref svs (Some c) x (Local m) true
    = gen_ref svs (Some c) x (Local m) false ++ (if memn x (svs m) then [ICdr] else [])
  /\ (memn x (svs m) = true ->
      generate tail svs (Some c) (SetV x (Local m) v)
      = generate false svs (Some c) v ++ gen_ref svs (Some c) x (Local m) false ++ [ISetCdr; IPush LVoid])
  /\ (forall ps r ls sv,
        box_code ps r ls sv
        = flat_map (fun y => [ILocalRef (param_index ps r ls y); IPush (LSym y); ICons; ILocalSet (param_index ps r ls y)]) sv).
Proof. exact Proofs.boxing_consistent. Qed.
Print Assumptions boxing_consistent.

(** compile_correct, the part that is proved.  FULL STATEMENT (not proved):
      forall fuel prog v st', eval_program fuel prog (mkstore [] []) = SVal v st' ->
      exists fuel' v' s', run_program fuel' prog [] [] = Done v' s' /\ vrelF (heap s') (cells st') v' v   (same for errors).
    PROVED: the PURELY FUNCTIONAL fragment [fragF] (coq/C03/SimClos.v on top of SimRest.v / SimCalls.v): literals, global
    references, references to parameters and to the rest parameter of the current lambda, references to variables of
    ENCLOSING lambdas that are in the current lambda's free-variable list (CLOSURE-REF), if, begin, the inlined unary /
    binary opcodes except eq?, lambda expressions with or without rest parameter and with ANY free-variable list whose
    entries can be fetched where the lambda expression stands (PUSH of a literal procedure when the list is empty, else
    MAKE-VECTOR, the fill loop LOCAL-REF|CLOSURE-REF; PUSH k; STACK-REF 3; VECTOR-SET, MAKE-PROCEDURE), and APPLICATIONS in
    non-tail (CALL) and tail position (TAIL-CALL) under all three argument protocols of make_call, recursion through
    globals included.  No set! / internal define (so nothing is boxed and captured variables are copied by value).
    Whenever the SPEC interpreter yields a value, the code [generate] emits -- wherever it sits in the current procedure's
    code -- runs on the model VM in finitely many steps EITHER to the instruction just after it with a value representing
    the SPEC's value pushed on the otherwise unchanged stack (same fp / self / globals), OR (only for code in tail
    position, when a TAIL-CALL was executed) to the return point recorded in the current frame header with that value
    pushed on the stack below the frame; the old heap is a prefix of the new one; the SPEC store only grows.
    [vrelF]: literals equal, pairs by heap cells, a SPEC closure (code + environment of LOCATIONS) is represented by a
    procedure object whose code is the entry code of its lambda and whose vector holds, per free variable, a value
    representing the content of that variable's location.
    MISSING: set! / boxes / internal defines together with calls (separately: compile_correct_partial_boxes) -- hence
    letrec, named let and do loops inside procedures --, eq? on pairs, error outcomes, top-level define and the driver
    run_program over several forms; those are only tested per program (model compiler + model VM vs SPEC). *)
Theorem compile_correct_partial : forall fuel e cur env st v st' tl svs s pre post,
  fragF cur e = true ->
  eval fuel e env st = SVal v st' ->
  unboxed svs ->
  code_of (self s) = pre ++ generate tl svs (lctxF cur) e ++ post -> ip s = length pre ->
  env_okF cur env st s ->
  store_ext st st' /\
  exists v' hx, vrelF (heap s ++ hx) (cells st') v' v /\
    ((exists n, nsteps n s = Some (mkst (v' :: stk s) (fp s) (self s)
                                        (length pre + length (generate tl svs (lctxF cur) e))
                                        (heap s ++ hx) (globals s)))
     \/ (tl = true /\ forall j rip rself rfp, frame_info s = Some (j, rip, rself, rfp) -> j <= fp s ->
           exists n, nsteps n s = Some (mkst (v' :: below (fp s - j) (stk s)) rfp rself rip (heap s ++ hx) (globals s)))).
Proof. exact SimClos.compile_correct_functional_fragment. Qed.
Print Assumptions compile_correct_partial.

(** end to end for ONE top-level expression of the functional fragment, given globals that represent the SPEC's
    (procedures defined by earlier forms, data): the thunk built as sexp_generate_op does, applied as sexp_apply does,
    runs to completion ([run] = Done) with a value representing the SPEC's value, the globals unchanged, the heap
    extended *)
Theorem compile_correct_partial_toplevel_expr : forall fuel e st v st' svs h gl,
  fragF None e = true ->
  eval fuel e [] st = SVal v st' ->
  unboxed svs ->
  (forall g w, glob_lookup g (sglobals st) = Some w -> exists v0, assoc_nat g gl = Some v0 /\ vrelF h (cells st) v0 w) ->
  exists s0 n v' s',
    init_state (generate true svs None e ++ [IRet]) h gl = Next s0 /\
    run n s0 = Done v' s' /\ vrelF (heap s') (cells st') v' v /\ globals s' = gl /\ (exists hx, heap s' = h ++ hx).
Proof. exact SimClos.compile_correct_toplevel_expr_functional. Qed.
Print Assumptions compile_correct_partial_toplevel_expr.

(** the closed-procedure fragment (no free local variables) with rest parameters, where the fragment definition does
    not mention free-variable lists: [fragR]; it records per lambda the variables WITHOUT a stack slot (the rest
    parameter when flagged UNUSED_REST) *)
Theorem compile_correct_partial_rest : forall fuel e cur env st v st' tl svs s pre post,
  fragR cur e = true ->
  eval fuel e env st = SVal v st' ->
  unboxed svs ->
  code_of (self s) = pre ++ generate tl svs (lctxR cur) e ++ post -> ip s = length pre ->
  env_okR cur env st s ->
  store_ext st st' /\
  exists v' hx, vrelR (heap s ++ hx) v' v /\
    ((exists n, nsteps n s = Some (mkst (v' :: stk s) (fp s) (self s)
                                        (length pre + length (generate tl svs (lctxR cur) e))
                                        (heap s ++ hx) (globals s)))
     \/ (tl = true /\ forall j rip rself rfp, frame_info s = Some (j, rip, rself, rfp) -> j <= fp s ->
           exists n, nsteps n s = Some (mkst (v' :: below (fp s - j) (stk s)) rfp rself rip (heap s ++ hx) (globals s)))).
Proof. exact SimRest.compile_correct_rest_fragment. Qed.
Print Assumptions compile_correct_partial_rest.

(** the plain reading of the fragment (a reference to the rest parameter is always allowed) is contained in [fragR]:
    a rest parameter the compiler flags UNUSED_REST is never mentioned (rest_unused_sound) *)
Theorem fragR0_is_fragR : forall e, fragR0 None e = true -> fragR None e = true.
Proof. exact SimRest.fragR0_fragR. Qed.
Print Assumptions fragR0_is_fragR.

(** the call-free fragment with ANY unboxed variable of the current frame (parameters, rest parameter, internal
    defines): Lit / Ref / Cnd / Seq / opcode applications; the SPEC store is unchanged *)
Theorem compile_correct_partial_pure : forall c svs fuel e env st v st' tl s pre post,
  pure (l_id c) (svs (l_id c)) e = true ->
  eval fuel e env st = SVal v st' ->
  code_of (self s) = pre ++ generate tl svs (Some c) e ++ post -> ip s = length pre ->
  env_ok c svs env st s ->
  st' = st /\
  exists n v' hx,
    nsteps n s = Some (mkst (v' :: stk s) (fp s) (self s) (length pre + length (generate tl svs (Some c) e))
                            (heap s ++ hx) (globals s))
    /\ vrel (heap s ++ hx) v' v.
Proof. exact Simulation.compile_correct_pure_fragment. Qed.
Print Assumptions compile_correct_partial_pure.

(** assignments and boxes (coq/C03/SimBoxes.v), fragment [imp]: literals, global references, references to variables
    of the current frame -- boxed ones through LOCAL-REF; CDR --, set! of boxed variables of the current frame
    (LOCAL-REF; SET-CDR on the box), set! of globals (PUSH cell; SET-CDR), if, begin (with generate_drop_prev's rewind of
    the PUSH after a non-final set!), the inlined opcodes except eq?; no calls.  Given the static separation of the
    frame (a boxed variable shares its SPEC location with no other variable, two boxed variables have different
    boxes) and the simulation relation [imp_rel] between SPEC store and VM frame / boxes / globals: whenever the SPEC
    yields a value and a final store st', the code runs to the instruction after it with a value representing the
    SPEC's value pushed on the unchanged stack, every heap cell that is not one of the frame's boxes B keeps its
    content (the heap otherwise only grows), and [imp_rel] holds again for st'. *)
Theorem compile_correct_partial_boxes : forall c svs B fp0 stk0 env,
  (forall x y a, memn x (svs (l_id c)) = true ->
     env_lookup (x, Local (l_id c)) env = Some a -> env_lookup (y, Local (l_id c)) env = Some a -> y = x) ->
  (forall x y kx ky bx, memn x (svs (l_id c)) = true -> memn y (svs (l_id c)) = true ->
     slot fp0 (param_index (l_params c) (l_rest c) (l_locals c) x) = Some kx -> sget stk0 kx = Some (VPair bx) ->
     slot fp0 (param_index (l_params c) (l_rest c) (l_locals c) y) = Some ky -> sget stk0 ky = Some (VPair bx) -> y = x) ->
  forall fuel e st v st' tl s pre post temps,
  imp (l_id c) (svs (l_id c)) e = true ->
  eval fuel e env st = SVal v st' ->
  code_of (self s) = pre ++ generate tl svs (Some c) e ++ post -> ip s = length pre ->
  stk s = temps ++ stk0 -> fp s = fp0 ->
  imp_rel c svs B fp0 stk0 env st (heap s) (globals s) ->
  exists n v' h' gl',
    nsteps n s = Some (mkst (v' :: stk s) (fp s) (self s) (length pre + length (generate tl svs (Some c) e)) h' gl')
    /\ evolves B (heap s) h' /\ vrelB B h' v' v /\ imp_rel c svs B fp0 stk0 env st' h' gl'.
Proof. exact SimBoxes.compile_correct_boxes_fragment. Qed.
Print Assumptions compile_correct_partial_boxes.

(** ASSIGNMENTS (TO LOCALS AND TO GLOBALS), BOXES, INTERNAL DEFINES, CLOSURES, CALLS AND REST PARAMETERS TOGETHER
    (coq/C03/SimFull.v; round 3: the rest-parameter fragment and set! of globals are merged in), fragment [fragA]: literals (bare immediates and literal NODES alike: the code
    pushes [lit_value]), global references, references to variables of the current frame (parameters, the rest
    parameter, internal defines) and to free variables in the current lambda's fv list, set! of such variables (boxed:
    they are in their owner's sv list, [SV] = the program's table of assigned variables), set! / define of GLOBALS
    anywhere ([SetV x Global e]: at top level, inside procedure bodies, nested in expressions), if, begin, the inlined opcodes
    except eq?, lambda expressions with an optional rest parameter (which may be assigned or captured), internal defines
    and any fetchable fv list, applications in non-tail and tail position through all three argument protocols of
    make_call (exact arity, rest list consed, UNUSED_REST) -- the language of named let, letrec, do loops, internal
    defines, counters, variadic procedures.  The frame context records the LIVE rest [live_of id r body] ([] when the
    compiler flags UNUSED_REST: the parameter then has no slot); [compile_correct_imperative_plain_fragment] below
    shows that this bookkeeping excludes nothing (by theorem rest_unused_sound).  Boxes are shared between frames and
    closure vectors and mutated, so the simulation relation is indexed by a WORLD W = (heap, SPEC cells, partial
    injection location -> box): [vrelW] relates values, [WINV] says every box holds a value representing the content of
    its location, [env_okA] relates the current frame / closure vector, [globrel SV W sg gl] says every SPEC global of
    sg has a VM global in gl representing it (globals are looked up by name at run time on both sides), [wext] is world
    extension (only box contents and boxed locations change, new cells are fresh).  Whenever the SPEC yields (v, st'),
    the code runs to the instruction after it with v' pushed on the unchanged stack (or, in tail position after a
    TAIL-CALL, to the return point of the current frame), in a world W' that extends W, has the cells of st',
    satisfies the invariant, relates v' to v, and with VM globals gl' that represent the SPEC's globals of st' (they
    differ from the initial ones when a global was assigned on the way, e.g. by a called writer procedure).
    MISSING for the full compile_correct: eq? on pairs; error outcomes beyond the pure fragment
    (compile_correct_pure_error below). *)
Theorem compile_correct_partial_imperative : forall SV fuel e cur env st v st' tl svs s pre post W,
  fragA SV cur e = true ->
  eval fuel e env st = SVal v st' ->
  agrees SV svs ->
  code_of (self s) = pre ++ generate tl svs (lctxA cur) e ++ post -> ip s = length pre ->
  wh W = heap s -> wc W = cells st -> WINV SV W ->
  env_okA SV cur env W s -> globrel SV W (sglobals st) (globals s) ->
  exists W' v' gl', wext W W' /\ wc W' = cells st' /\ WINV SV W' /\ vrelW SV W' v' v /\
    globrel SV W' (sglobals st') gl' /\
    ((exists n, nsteps n s = Some (mkst (v' :: stk s) (fp s) (self s)
                                        (length pre + length (generate tl svs (lctxA cur) e)) (wh W') gl'))
     \/ (tl = true /\ forall j rip rself rfp, frame_info s = Some (j, rip, rself, rfp) -> j <= fp s ->
           exists n, nsteps n s = Some (mkst (v' :: below (fp s - j) (stk s)) rfp rself rip (wh W') gl'))).
Proof. exact SimFull.compile_correct_imperative_fragment. Qed.
Print Assumptions compile_correct_partial_imperative.

(** end to end for one top-level expression of [fragA]: the thunk runs to completion with a value representing the
    SPEC's value, in a world that extends the initial one and satisfies the invariant; the final VM globals represent
    the SPEC's final globals *)
Theorem compile_correct_partial_toplevel_expr_imperative : forall SV fuel e st v st' svs W gl,
  fragA SV None e = true ->
  eval fuel e [] st = SVal v st' ->
  agrees SV svs -> wc W = cells st -> WINV SV W ->
  globrel SV W (sglobals st) gl ->
  exists s0 n v' s' W',
    init_state (generate true svs None e ++ [IRet]) (wh W) gl = Next s0 /\
    run n s0 = Done v' s' /\ wext W W' /\ heap s' = wh W' /\ wc W' = cells st' /\ WINV SV W' /\
    vrelW SV W' v' v /\ globrel SV W' (sglobals st') (globals s').
Proof. exact SimFull.compile_correct_toplevel_expr_imperative. Qed.
Print Assumptions compile_correct_partial_toplevel_expr_imperative.

(** the plain reading of the fragment ([fragP]: the rest parameter is always resolvable) is contained in [fragA] for
    annotated terms: the live-rest bookkeeping excludes nothing *)
Theorem compile_correct_imperative_plain_fragment : forall SV e,
  fragP SV None e = true -> annot_ok e = true -> fragA SV None e = true.
Proof. exact SimFull.fragP_fragA. Qed.
Print Assumptions compile_correct_imperative_plain_fragment.

(** WHOLE PROGRAMS (C03/SimProg.v): a list of top-level forms, each compiled by [compile_toplevel] and run by
    [run_program] (heap and globals threaded), against [eval_program] (store threaded), with top-level define /
    re-define / set! of globals between the forms and inside procedure bodies ([SetV x Global e] is an expression of
    the fragment).  [form_ok SV e] = the form is annotated ([annotate e = e]), well-scoped ([wf_program e]) and an
    expression of the imperative fragment ([formA SV e] = [fragA SV None e]).  Partial: whatever [fragA] excludes
    (eq?, error outcomes). *)
Theorem compile_correct_partial_toplevel_form : forall SV fuel e st v st' W gl,
  annotate e = e -> wf_program e = true -> formA SV e = true ->
  eval fuel e [] st = SVal v st' ->
  wc W = cells st -> WINV SV W -> globrel SV W (sglobals st) gl ->
  exists s0 n v' s' W',
    init_state (compile_toplevel e) (wh W) gl = Next s0 /\
    run n s0 = Done v' s' /\ wext W W' /\ heap s' = wh W' /\ wc W' = cells st' /\ WINV SV W' /\
    vrelW SV W' v' v /\ globrel SV W' (sglobals st') (globals s').
Proof. exact SimProg.compile_correct_toplevel_form. Qed.
Print Assumptions compile_correct_partial_toplevel_form.

Theorem compile_correct_partial_program : forall SV forms fuel st v st' W gl,
  Forall (form_ok SV) forms ->
  eval_program fuel forms st = SVal v st' ->
  wc W = cells st -> WINV SV W ->
  (forall g w, glob_lookup g (sglobals st) = Some w -> exists v0, assoc_nat g gl = Some v0 /\ vrelW SV W v0 w) ->
  exists n v' s' W',
    run_program n forms (wh W) gl = Done v' s' /\
    wext W W' /\ heap s' = wh W' /\ wc W' = cells st' /\ WINV SV W' /\
    vrelW SV W' v' v /\
    (forall g w, glob_lookup g (sglobals st') = Some w ->
       exists v0, assoc_nat g (globals s') = Some v0 /\ vrelW SV W' v0 w).
Proof. exact SimProg.compile_correct_program_partial. Qed.
Print Assumptions compile_correct_partial_program.

(** from the empty heap / store / globals; a program whose SPEC value is an atom runs to exactly that atom *)
Theorem compile_correct_partial_program_atom : forall SV forms fuel l st',
  Forall (form_ok SV) forms ->
  eval_program fuel forms (mkstore [] []) = SVal (SLit l) st' ->
  exists n s', run_program n forms [] [] = Done (VLit l) s'.
Proof. exact SimProg.compile_correct_program_partial_atom. Qed.
Print Assumptions compile_correct_partial_program_atom.

(** the code of a well-scoped form does not depend on the sv table it is generated with (every lambda installs its
    own sv on the way down), so [compile_toplevel]'s empty table is as good as the program's *)
Theorem generate_independent_of_initial_sv : forall e sc tl svs svs2 cur,
  wf sc e = true -> sv_eq_on sc svs svs2 -> generate tl svs cur e = generate tl svs2 cur e.
Proof. exact SimProg.generate_sv_indep. Qed.
Print Assumptions generate_independent_of_initial_sv.

(** fuel monotonicity of the model VM *)
Theorem run_program_fuel_monotone : forall forms n k h g v s',
  run_program n forms h g = Done v s' -> run_program (n + k) forms h g = Done v s'.
Proof. exact SimProg.run_program_mono. Qed.
Print Assumptions run_program_fuel_monotone.

(** ERROR OUTCOMES of the pure call-free fragment (coq/C03/SimErr.v): a primitive type error (car / cdr of a non-pair,
    arithmetic or comparison on a non-number) or an unbound global in the SPEC makes the VM reach a failing state of the
    SAME error class, for every continuation [post]; needs [globals_complete] (the VM binds no global the SPEC does not) *)
Theorem compile_correct_pure_error : forall c svs fuel e env st er tl s pre post,
  Simulation.pure (l_id c) (svs (l_id c)) e = true ->
  eval fuel e env st = SErr er -> er <> EStuck ->
  code_of (self s) = pre ++ generate tl svs (Some c) e ++ post -> ip s = length pre ->
  Simulation.env_ok c svs env st s -> SimErr.globals_complete st s ->
  exists n s1, Simulation.nsteps n s = Some s1 /\ step s1 = Fail er.
Proof. exact SimErr.compile_correct_pure_error. Qed.
Print Assumptions compile_correct_pure_error.

(** totality: with fuel >= nesting depth and bound frame variables the SPEC answers a value (store unchanged) or a type /
    unbound-global error on the fragment -- never out of fuel, never stuck *)
Theorem compile_correct_pure_total : forall id sv fuel e env st,
  Simulation.pure id sv e = true -> SimErr.depth e <= fuel -> SimErr.binds id env st e ->
  (exists v, eval fuel e env st = SVal v st)
  \/ (exists er, eval fuel e env st = SErr er /\ (er = EType \/ er = EUndefGlobal)).
Proof. exact SimErr.compile_correct_pure_total. Qed.
Print Assumptions compile_correct_pure_total.

(** the equivalence for a complete run (the code is followed by DONE): SPEC error <=> the VM run ends in that error;
    SPEC value <=> the VM run ends with a related value.  (For an arbitrary continuation the <= direction is false:
    SimErr.CounterExample.) *)
Theorem compile_correct_pure_run_iff : forall c svs fuel e env st tl s pre post,
  Simulation.pure (l_id c) (svs (l_id c)) e = true ->
  SimErr.depth e <= fuel -> SimErr.binds (l_id c) env st e ->
  code_of (self s) = pre ++ generate tl svs (Some c) e ++ IDone :: post -> ip s = length pre ->
  Simulation.env_ok c svs env st s -> SimErr.globals_complete st s ->
  (forall er, eval fuel e env st = SErr er <-> exists k, run k s = Error er)
  /\ (forall v, eval fuel e env st = SVal v st <-> exists k v' sf, run k s = Done v' sf /\ Simulation.vrel (heap sf) v' v).
Proof. exact SimErr.compile_correct_pure_run_iff. Qed.
Print Assumptions compile_correct_pure_run_iff.
