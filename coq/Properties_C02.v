(** C02 - GC never reclaims or corrupts reachable data: property theorems only. *)
From ChibiV Require Import C02.Model C02.Spec C02.Proofs C02.Progress Gen.C02_Layout C02.LayoutCheck.
From ChibiV Require C02.VmTop Gen.C02_VmTop C02.VmTopCheck.
From ChibiV Require C02.GcMacros C02.GcMacrosProofs Gen.C02_GcMacros C02.GcMacrosCheck.
From ChibiV Require C02.Preserve C02.PreserveProofs.
Local Open Scope Z_scope.

(** sexp_mark (gc.c:256-302) started on a heap with all marks clear marks exactly the objects
    reachable from the root through reference slots (type table) and registered C locals. *)
Theorem mark_marks_exactly_reachable : forall L h root h',
  all_unmarked h -> mark L h root = Ok h' -> forall a, ismarked h' a <-> reachable L h root a.
Proof. exact mark_exactly_reachable. Qed.
Print Assumptions mark_marks_exactly_reachable.

(** ... and changes nothing but mark bits (0 -> 1): same addresses, tags, words, registered locals. *)
Theorem mark_changes_only_marks : forall L h root h', mark L h root = Ok h' -> mext h h'.
Proof. exact mark_only_marks. Qed.
Print Assumptions mark_changes_only_marks.

(** sexp_sweep keeps every marked object at its address with the same contents, mark cleared;
    every unmarked object is gone. *)
Theorem sweep_preserves_marked : forall h a, hfind (sweep h) a =
  match hfind h a with
  | Some o => if marked o then Some (set_marked o false) else None
  | None => None
  end.
Proof. exact sweep_spec. Qed.
Print Assumptions sweep_preserves_marked.

(** a whole collection: every object reachable from the root is afterwards found at the same
    address, identical (tag, words, registered locals, mark clear). *)
Theorem gc_preserves_reachable : forall L h root h',
  all_unmarked h -> gc L h root = Ok h' ->
  forall a, reachable L h root a -> exists o, hfind h a = Some o /\ hfind h' a = Some o.
Proof. exact gc_keeps_reachable. Qed.
Print Assumptions gc_preserves_reachable.

(** ... the set of reachable objects is the same afterwards, and all marks are clear again, so the
    theorem applies to the next collection, whenever it comes. *)
Theorem gc_preserves_reachability : forall L h root h',
  all_unmarked h -> gc L h root = Ok h' ->
  (forall a, reachable L h root a <-> reachable L h' root a) /\ all_unmarked h'.
Proof. intros L h root h' U H. split; [exact (gc_keeps_reachability L h root h' U H)|exact (gc_all_unmarked L h root h' H)]. Qed.
Print Assumptions gc_preserves_reachability.

(** only unreachable objects are reclaimed *)
Theorem gc_reclaims_unreachable : forall L h root h',
  all_unmarked h -> gc L h root = Ok h' -> forall a, ~ reachable L h root a -> hfind h' a = None.
Proof. exact gc_frees_unreachable. Qed.
Print Assumptions gc_reclaims_unreachable.

(** generated obligations on the type table of the tree under check (Gen/C02_Layout.v, regenerated on
    every run): for every core type the offsets the collector visits (strong slots, then weak slots)
    are exactly the struct fields of C type sexp (minus the enumerated untraced field), and slot
    ranges lie inside the objects. *)
Theorem layout_covers_sexp_fields : forallb covers sexp_fields = true.
Proof. exact layout_covers. Qed.
Print Assumptions layout_covers_sexp_fields.

Theorem layout_slots_inside_object : forallb inside (specs core_layout) = true.
Proof. exact layout_inside. Qed.
Print Assumptions layout_slots_inside_object.

(** fuel suffices / the marker terminates: on a well-formed heap (root, reference slots and
    registered locals are immediates or designate objects; slot ranges lie inside the objects)
    [mark] returns a heap - no OutOfFuel, no wild pointer, no unknown tag, no slot outside an object. *)
Theorem mark_fuel_suffices : forall L h root, wf_heap L h root -> exists h', mark L h root = Ok h'.
Proof. exact mark_succeeds. Qed.
Print Assumptions mark_fuel_suffices.

(** ... and on ANY heap it never stops for lack of fuel (potential: stack length + unmarked objects) *)
Theorem mark_terminates : forall L h root, mark L h root <> Err OutOfFuel.
Proof. exact mark_never_out_of_fuel. Qed.
Print Assumptions mark_terminates.

(** hence: a collection of a well-formed heap with clear marks succeeds and keeps every reachable object *)
Theorem gc_total_and_safe : forall L h root, wf_heap L h root -> all_unmarked h ->
  exists h', (gc L h root = Ok h') /\ (all_unmarked h') /\
    (forall a, reachable L h root a -> exists o, hfind h a = Some o /\ hfind h' a = Some o).
Proof. exact gc_total. Qed.
Print Assumptions gc_total_and_safe.

(** the executable test run on every real heap dump by the correspondence implies the premise above *)
Theorem heap_ok_implies_wf : forall L h root, heap_ok L h = true -> ptr_ok h root = true -> wf_heap L h root.
Proof. exact heap_ok_wf. Qed.
Print Assumptions heap_ok_implies_wf.

(** the trailing-slot skips (gc.c:273-276) drop no unmarked pointer *)
Theorem trailing_skip_sound : forall h ws p len n1 n2,
  skip_marked h ws p len = Ok n1 -> skip_dups ws p n1 = Ok n2 ->
  (n2 <= n1 <= len)%nat /\
  forall i, (n2 < i <= len)%nat -> exists v, nth_error ws (p + i) = Some v /\
    (is_imm v = true \/ ismarked h v \/ nth_error ws (p + n2) = Some v).
Proof. exact trailing_skip. Qed.
Print Assumptions trailing_skip_sound.

(** generated obligation (vm.c opcode switch of the tree under check, Gen/C02_VmTop.v), two-sided since round 3: in every
    opcode, wherever a call that may allocate (= may collect) is reached, (a) the VM's local stack top is at or below the top
    published in the context, so the marker's scan of the stack (the slots below the published top) covers every live
    operand, and no slot into which the opcode has stored a heap value (neither an immediate nor a registered local) lies at
    or above the published top, and every stack slot whose value is handed to the allocating callee lies below the published
    top (no lost root), and (b) the published top is at or below the end of the slots written under the frame protocol,
    so the marker scans no word left behind by an earlier call frame (no stale root: the sexp_raise defect); (c) every exit of
    every opcode re-establishes the condition assumed at the start of every opcode *)
Theorem alloc_ops_publish_top : forallb VmTop.seg_ok C02_VmTop.vm_segments = true.
Proof. exact VmTopCheck.vm_alloc_ops_publish_top. Qed.
Print Assumptions alloc_ops_publish_top.

(** the checker behind it is sound for the WHOLE item language (branches, loops with break / continue, nested switches):
    for every big-step execution of a piece of code on a configuration (local top, published top, written end) described by
    the abstract state, an accepted piece never runs an allocating call with top > published, fresh end > published, an argument slot at or above
    the published top, or published > written end, and
    the computed fall-through / break states describe the resulting configurations; configurations at which the opcode ends
    satisfy the entry condition *)
Theorem vm_top_checker_sound : forall l c o s,
  VmTop.execs l c o -> VmTop.gamma s c -> VmTop.rok (VmTop.run_list l (Some s)) = true ->
  o <> VmTop.OBad /\ VmTop.sound_out (VmTop.run_list l (Some s)) o.
Proof. exact VmTop.vm_top_checker_sound_all. Qed.
Print Assumptions vm_top_checker_sound.

(** both together, about the table regenerated from vm.c: "top <= written end and published <= written end" is an invariant
    of the interpreter loop (every opcode started in it ends in it), and under it no opcode reaches an allocating call with a
    live slot above the published top or with an unwritten slot below it: at every collection started from the opcode switch
    the scanned stack prefix consists exactly of slots written under the frame protocol and contains every live operand *)
Theorem vm_stack_scan_exact : forall name items c o,
  In (name, items) C02_VmTop.vm_segments -> VmTop.entry c -> VmTop.cf c = None -> VmTop.execs items c o ->
  match o with VmTop.OBad => False | VmTop.OFall c' | VmTop.OBreak c' | VmTop.OStop c' => VmTop.entry c' end.
Proof. exact VmTopCheck.vm_opcodes_scan_exactly_written_prefix. Qed.
Print Assumptions vm_stack_scan_exact.

(** round 4: the documented preservation interface itself.  Generated obligation over the table regenerated (cc -E with the
    build's flags) from include/chibi/sexp.h: for every arity K of the sexp_gc_var<K> / sexp_gc_preserve<K> / sexp_gc_release<K>
    families: var<K> declares exactly its K distinct arguments, each initialised to the immediate SEXP_VOID, and K distinct
    records {NULL, NULL}; after preserve<K> the marker's walk over the context's saves list (gc.c:264-267) visits exactly the
    K arguments (last first) and then the caller's list; release<K> leaves exactly the caller's list (all K records popped).
    Must not change: a slip in one arity (seed C10-c1: preserve7 registers its 6th argument twice, never its 7th) unroots a
    variable in every user of that arity. *)
Theorem gc_macros_register_exactly_their_arguments : forall m,
  In m C02_GcMacros.gc_macro_table -> GcMacrosProofs.macro_spec m.
Proof. exact GcMacrosCheck.gc_macros_spec. Qed.
Print Assumptions gc_macros_register_exactly_their_arguments.

(** the table covers arities 1..n with n >= 7, and every entry has the canonical shape
    (one (var, next, saves) store triple per argument, in order; release through the first record) *)
Theorem gc_macro_table_is_canonical :
  (map GcMacros.arity C02_GcMacros.gc_macro_table = seq 1 (List.length C02_GcMacros.gc_macro_table)
   /\ Nat.leb 7 (List.length C02_GcMacros.gc_macro_table) = true)
  /\ forallb GcMacros.macro_canonb C02_GcMacros.gc_macro_table = true.
Proof. exact (conj GcMacrosCheck.gc_macro_table_arities GcMacrosCheck.gc_macro_table_canonical). Qed.
Print Assumptions gc_macro_table_is_canonical.

(** ... and the canonical shape is correct for EVERY arity (induction, not enumeration): for any K, any K distinct record
    names, any K arguments and any state whose saves list is the caller's, the K store triples make the marker's walk visit
    exactly the K arguments, last first, then the caller's list, and the release through the first record restores the
    caller's list. *)
Theorem gc_preserve_registers_exactly : forall ps args s,
  List.length ps = List.length args -> NoDup ps -> GcMacros.saves s = GcMacros.POut ->
  let s' := GcMacros.execs (GcMacros.canon_preserve ps args) s in
  GcMacros.walk (S (List.length ps)) s' (GcMacros.saves s') = Some (map GcMacros.EVar (rev args) ++ [GcMacros.EOut])%list
  /\ GcMacros.saves (GcMacros.execs (GcMacros.canon_release ps) s') = match ps with nil => GcMacros.saves s' | _ => GcMacros.POut end.
Proof. exact GcMacrosProofs.canon_preserve_registers_exactly. Qed.
Print Assumptions gc_preserve_registers_exactly.

(** the other half of the documented interface, sexp_preserve_object / sexp_release_object (gc.c:116-129; the list hangs off
    the context's globals, so what is on it is reachable and kept by theorems 4/5): releasing x removes exactly ONE registration
    of x and nothing else - an object preserved n times stays on the list until it has been released n times, and no other
    object's registration is touched *)
Theorem release_object_removes_exactly_one_registration : forall x y l,
  count_occ Nat.eq_dec (Preserve.release_obj x l) y =
  if Nat.eqb x y then pred (count_occ Nat.eq_dec l y) else count_occ Nat.eq_dec l y.
Proof. exact PreserveProofs.release_count. Qed.
Print Assumptions release_object_removes_exactly_one_registration.

Theorem preserved_object_stays_until_released : forall x y l,
  In y (Preserve.release_obj x l) <-> (if Nat.eqb x y then (2 <= count_occ Nat.eq_dec l y)%nat else In y l).
Proof. exact PreserveProofs.preserved_until_released. Qed.
Print Assumptions preserved_object_stays_until_released.
