(** C06 — continuations, dynamic-wind, parameters, exceptions: property theorems only. *)
From Coq Require Import List Arith.
From ChibiV Require Import C06.Defs C06.WindSpec Gen.C06_Travel C06.WindProofs.
Import ListNotations.

(** the travel-to-point! of lib/init-7.scm (regenerated into Gen/C06_Travel.v on every run) runs exactly the
    R7RS wind script, whatever the extent tree and the two points *)
Theorem travel_runs_wind_script : forall h, wf_heap h -> forall fuel here target s,
  here < length h -> target < length h ->
  travel_to_point h fuel here target = Some s -> s = wind_script h here target.
Proof. exact travel_runs_wind_script_lemma. Qed.
Print Assumptions travel_runs_wind_script.

(** ... and the fuel the machine gives it (depth here + depth target + 1) always suffices *)
Theorem travel_fuel_suffices : forall h, wf_heap h -> forall here target,
  here < length h -> target < length h ->
  travel_to_point h (travel_fuel h here target) here target = Some (wind_script h here target).
Proof. exact travel_total. Qed.
Print Assumptions travel_fuel_suffices.

(** shape of the script: afters of the extents around [here] only (innermost first), then befores of the extents
    around [target] only (outermost first); the split is at the LONGEST common suffix of the two chains, and no
    thunk of a common extent runs *)
Theorem wind_script_minimal : forall h here target, wf_heap h -> here < length h -> target < length h ->
  exists a b common,
    chainp h here = a ++ common /\ chainp h target = b ++ common /\
    (a = [] \/ b = [] \/ hd 0 (rev a) <> hd 0 (rev b)) /\
    wind_script h here target = map WOut a ++ map WIn (rev b) /\
    (forall p, In p common -> ~ In (WOut p) (wind_script h here target) /\ ~ In (WIn p) (wind_script h here target)).
Proof. exact wind_script_minimal_lemma. Qed.
Print Assumptions wind_script_minimal.
