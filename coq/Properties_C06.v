(** C06 — continuations, dynamic-wind, parameters, exceptions: property theorems only. *)
From Coq Require Import List Arith.
From ChibiV Require Import C06.Defs C06.WindSpec Gen.C06_Travel C06.WindProofs.
Import ListNotations.

(** the travel-to-point! of lib/init-7.scm (regenerated into Gen/C06_Travel.v on every run) runs exactly the
    R7RS wind script, whatever the extent tree and the two points *)
Theorem travel_runs_wind_script : forall h, wf_heap h -> forall fuel here target s,
  here < length h -> target < length h ->
  travel_to_point h fuel here target = Some s -> s = wind_script h here target.
Proof. exact travel_runs_wind_script_lemma. Qed.
Print Assumptions travel_runs_wind_script.

(** ... and the fuel the machine gives it (depth here + depth target + 1) always suffices *)
Theorem travel_fuel_suffices : forall h, wf_heap h -> forall here target,
  here < length h -> target < length h ->
  travel_to_point h (travel_fuel h here target) here target = Some (wind_script h here target).
Proof. exact travel_total. Qed.
Print Assumptions travel_fuel_suffices.

(** shape of the script: afters of the extents around [here] only (innermost first), then befores of the extents
    around [target] only (outermost first); the split is at the LONGEST common suffix of the two chains, and no
    thunk of a common extent runs *)
Theorem wind_script_minimal : forall h here target, wf_heap h -> here < length h -> target < length h ->
  exists a b common,
    chainp h here = a ++ common /\ chainp h target = b ++ common /\
    (a = [] \/ b = [] \/ hd 0 (rev a) <> hd 0 (rev b)) /\
    wind_script h here target = map WOut a ++ map WIn (rev b) /\
    (forall p, In p common -> ~ In (WOut p) (wind_script h here target) /\ ~ In (WIn p) (wind_script h here target)).
Proof. exact wind_script_minimal_lemma. Qed.
Print Assumptions wind_script_minimal.

(** ------------------------------------------------------------------------------------------------ the machine *)
From ChibiV Require Import C06.Machine C06.MachineProofs C06.MachineThms.

(** the machine built on the regenerated travel-to-point! IS the machine built on the SPEC wind script (the oracle
    of the trace correspondence with chibi), for every script and every number of steps *)
Theorem machine_impl_eq_spec : forall n e, run_impl n (init e) = run_spec n (init e).
Proof. exact machine_impl_eq_spec_lemma. Qed.
Print Assumptions machine_impl_eq_spec.

(** wind order: invoking a continuation in any reachable state runs exactly the R7RS script between the dynamic-wind
    frames of the current continuation and those of the target continuation; afterwards (%dk) and the parameters
    are the target's *)
Theorem machine_wind_order : forall s idx v kk pt, reachable s -> nth_error (conts s) idx = Some (kk, pt) ->
  let po := run_wevs (hp s) (frames_script (kont s) kk) (params s) (out s) in
  do_throw travel_to_point s idx v =
    mkS (CRet v) kk (kont_point kk) (fst po) (hp s) (conts s) (slots s) (counts s) (snd po) (st s)
  /\ fst po = point_params (hp s) (kont_point kk).
Proof. exact machine_wind_order_lemma. Qed.
Print Assumptions machine_wind_order.

Theorem dk_is_continuation_extent : forall s, reachable s ->
  dk s = kont_point (kont s) /\ chainp (hp s) (dk s) = kont_winds (kont s).
Proof. exact dk_is_continuation_extent_lemma. Qed.
Print Assumptions dk_is_continuation_extent.

Theorem param_value_is_extent_value : forall s p, reachable s ->
  lookup_param p (params s) = lookup_param p (point_params (hp s) (kont_point (kont s))).
Proof. exact param_value_is_extent_value_lemma. Qed.
Print Assumptions param_value_is_extent_value.

Theorem parameterize_binds : forall s p n body k, reachable s -> st s = Running ->
  ctl s = CRet (VNat n) -> kont s = FParamVal p body :: k ->
  let s' := step_impl s in
  ctl s' = CEval body /\ params s' = BParam p n :: params s /\
  point_params (hp s') (kont_point (kont s')) = BParam p n :: params s /\
  kont s' = FWindExit (length (hp s)) (dk s) [ASetParams (params s)] :: k.
Proof. exact parameterize_binds_lemma. Qed.
Print Assumptions parameterize_binds.

Theorem handler_runs_in_outer_handler_context : forall travel s k c v tag e orig,
  lookup_handler (params s) = Some (HC (HUser tag e) orig) ->
  let s' := do_raise travel s k c v in
  ctl s' = CEval e /\ lookup_handler (params s') = orig /\
  (forall p, lookup_param p (params s') = lookup_param p (params s)) /\
  kont s' = FHandlerDone c :: FWindExit (length (hp s)) (dk s) [ASetParams (params s)] :: k /\
  out s' = (6, v) :: (5, tag) :: out s.
Proof. exact handler_runs_in_outer_handler_context_lemma. Qed.
Print Assumptions handler_runs_in_outer_handler_context.

Theorem handler_installed_with_current : forall s tag h body, st s = Running -> ctl s = CEval (WithHandler tag h body) ->
  lookup_handler (params (step_impl s)) = Some (HC (HUser tag h) (lookup_handler (params s))).
Proof. exact handler_installed_with_current_lemma. Qed.
Print Assumptions handler_installed_with_current.

Theorem raise_continuable_returns_to_raise_point : forall travel s k v tag e orig s2 r,
  lookup_handler (params s) = Some (HC (HUser tag e) orig) ->
  let s1 := do_raise travel s k true v in
  st s2 = Running -> ctl s2 = CRet r -> kont s2 = kont s1 ->
  let s4 := step travel (step travel s2) in
  ctl s4 = CRet r /\ kont s4 = k /\ dk s4 = dk s /\ params s4 = params s /\ out s4 = out s2.
Proof. exact raise_continuable_returns_to_raise_point_lemma. Qed.
Print Assumptions raise_continuable_returns_to_raise_point.

Theorem raise_handler_return_is_secondary_error : forall travel s2 k r,
  st s2 = Running -> ctl s2 = CRet r -> kont s2 = FHandlerDone false :: k ->
  step travel s2 = do_raise travel s2 k false ERRV.
Proof. exact raise_handler_return_is_secondary_error_lemma. Qed.
Print Assumptions raise_handler_return_is_secondary_error.

(** ------------------------------------------------------------------------------------------------ the VM stack *)
From ChibiV Require Import C06.StackModel C06.StackProofs.

(** CALLCC then (after anything) RESUMECC: registers and stack contents are the captured ones, the value passed to
    the continuation sits where call/cc's result is expected; premise: the stack need not be grown *)
Theorem callcc_resume_restores : forall m kobj m1 saved m2,
  1 <= StackModel.top m -> StackModel.top m + 4 <= length (stack m) ->
  callcc m kobj = (m1, saved) ->
  StackModel.top m + 4 + 64 < length (stack m2) ->
  exists m3, resumecc m2 saved = Some m3 /\
    StackModel.top m3 = StackModel.top m /\ fp m3 = fp m /\ self m3 = self m /\ ip m3 = ip m /\
    length (stack m3) = length (stack m2) /\
    (forall i, i < StackModel.top m - 1 -> sref (stack m3) i = sref (stack m) i) /\
    sref (stack m3) (StackModel.top m - 1) = sref (stack m2) (fp m2 - 1) /\
    (forall i, StackModel.top m + 4 <= i -> sref (stack m3) i = sref (stack m2) i).
Proof. exact callcc_resume_restores_lemma. Qed.
Print Assumptions callcc_resume_restores.

(** REFUTED (known findings c-callback-escape:...): a procedure called back from C through a nested sexp_apply is NOT
    transparent for escapes — the positive statement [forall n e, run_script_impl n e = run_script_impl n (erase_ccall e)]
    fails; see MachineThms.v for the witness and notes/C06.md for the behaviour of the real binary *)
Theorem c_callback_transparent_refuted : ~ (forall n e, run_script_impl n e = run_script_impl n (erase_ccall e)).
Proof. exact c_callback_transparent_refuted_lemma. Qed.
Print Assumptions c_callback_transparent_refuted.

(** guard: a raise that finds a guard's handler delivers the clause thunk to guard-k in the dynamic environment of the
    guard expression, and records handler-k (inside the handler call at the raise point) for the re-raise *)
Theorem guard_handler_escapes_to_guard_context : forall s0 c v k gk only tag e orig kk pt,
  reachable s0 -> st s0 = Running -> ctl s0 = CRet (VNat v) -> kont s0 = FRaise c :: k ->
  lookup_handler (params s0) = Some (HC (HGuard gk only tag e) orig) ->
  nth_error (conts s0) gk = Some (kk, pt) ->
  let s' := step_impl s0 in
  ctl s' = CRet (VClauseThunk only tag e v (length (conts s0))) /\ kont s' = kk /\ dk s' = kont_point kk /\
  params s' = point_params (hp s') (kont_point kk) /\
  nth_error (conts s') (length (conts s0)) =
    Some (FCallThunk :: FHandlerDone c :: FWindExit (length (hp s0)) (dk s0) [ASetParams (params s0)] :: k, length (hp s0)) /\
  hp s' = hp s0 ++ [mkP (depth (hp s0) (dk s0) + 1) [ASetParams (BHandler orig :: params s0)] [ASetParams (params s0)] (dk s0)] /\
  st s' = Running.
Proof. exact guard_handler_escapes_to_guard_context_lemma. Qed.
Print Assumptions guard_handler_escapes_to_guard_context.

Theorem guard_installs : forall s only tag h body, st s = Running -> ctl s = CEval (Guard only tag h body) ->
  let s' := step_impl s in
  nth_error (conts s') (length (conts s)) = Some (FCallThunk :: kont s, dk s) /\
  lookup_handler (params s') = Some (HC (HGuard (length (conts s)) only tag h) (lookup_handler (params s))) /\
  ctl s' = CEval body.
Proof. exact guard_installs_lemma. Qed.
Print Assumptions guard_installs.

(** guard, no clause matches: the condition is raised again with raise-continuable INSIDE the handler call at the original
    raise point (current handler = the handler outside the guard, parameters of the raise point, raise point's continuation
    underneath) — the winds between the guard and the raise point are re-entered by the throw to handler-k *)
Theorem guard_reraise_in_raise_context : forall s0 c v k gk only tag e orig kg pt,
  reachable s0 -> st s0 = Running -> ctl s0 = CRet (VNat v) -> kont s0 = FRaise c :: k ->
  lookup_handler (params s0) = Some (HC (HGuard gk only tag e) orig) ->
  nth_error (conts s0) gk = Some (FCallThunk :: kg, pt) ->
  clause_test only v = false ->
  let kin := FHandlerDone c :: FWindExit (length (hp s0)) (dk s0) [ASetParams (params s0)] :: k in
  let s2 := step_impl (step_impl s0) in
  ctl s2 = CRet (VReraiseThunk v) /\ kont s2 = FCallThunk :: kin /\ dk s2 = length (hp s0) /\
  params s2 = BHandler orig :: params s0 /\ lookup_handler (params s2) = orig /\
  step_impl s2 = do_raise travel_to_point s2 kin true v.
Proof. exact guard_reraise_in_raise_context_lemma. Qed.
Print Assumptions guard_reraise_in_raise_context.

(** guard, a clause matches: its body runs on the guard form's continuation in the guard form's extent; the only before/after
    thunks run on the way are those of the R7RS script from inside the handler call to guard-k *)
Theorem guard_clause_runs_in_guard_context : forall s0 c v k gk only tag e orig kg pt,
  reachable s0 -> st s0 = Running -> ctl s0 = CRet (VNat v) -> kont s0 = FRaise c :: k ->
  lookup_handler (params s0) = Some (HC (HGuard gk only tag e) orig) ->
  nth_error (conts s0) gk = Some (FCallThunk :: kg, pt) ->
  clause_test only v = true ->
  let s1 := step_impl s0 in let s2 := step_impl s1 in
  ctl s2 = CEval e /\ kont s2 = kg /\ dk s2 = kont_point kg /\
  params s2 = point_params (hp s2) (kont_point kg) /\ out s2 = (6, v) :: (7, tag) :: out s1 /\
  out s1 = snd (run_wevs (hp s1) (frames_script (FCallThunk :: FHandlerDone c :: FWindExit (length (hp s0)) (dk s0) [ASetParams (params s0)] :: k) (FCallThunk :: kg))
                         (BHandler orig :: params s0) (out s0)).
Proof. exact guard_clause_runs_in_guard_context_lemma. Qed.
Print Assumptions guard_clause_runs_in_guard_context.

Theorem dynamic_wind_normal_entry_exit :
  (forall s i body, st s = Running -> ctl s = CEval (DynWind i body) ->
     let s' := step_impl s in
     ctl s' = CEval body /\ out s' = (1, i) :: out s /\ dk s' = length (hp s) /\ params s' = params s /\
     kont s' = FWindExit (length (hp s)) (dk s) [AEmit 2 i] :: kont s /\
     hp s' = hp s ++ [mkP (depth (hp s) (dk s) + 1) [AEmit 1 i] [AEmit 2 i] (dk s)]) /\
  (forall s v np here i k, st s = Running -> ctl s = CRet v -> kont s = FWindExit np here [AEmit 2 i] :: k ->
     let s' := step_impl s in
     ctl s' = CRet v /\ out s' = (2, i) :: out s /\ dk s' = here /\ params s' = params s /\ kont s' = k /\ hp s' = hp s).
Proof. exact dynamic_wind_normal_entry_exit_lemma. Qed.
Print Assumptions dynamic_wind_normal_entry_exit.

(** R7RS: before/after thunks are called in the dynamic environment of the call to dynamic-wind.  For every heap a
    machine run can produce and ANY two of its points: along the wind script, the before thunk of p is run with the
    parameters in force at p's parent, the after thunk with those in force at p, which for a user dynamic-wind are the
    parent's again; [run_wevs_runs_thunks_with_envs] says these alists are the ones the machine runs the thunks with *)
Theorem thunks_run_in_call_environment : forall s here target, reachable s ->
  here < length (hp s) -> target < length (hp s) ->
  Forall (fun we => snd we = match fst we with
                             | WIn p => point_params (hp s) (parent (hp s) p)
                             | WOut p => point_params (hp s) p
                             end)
         (wevs_envs (hp s) (wind_script (hp s) here target) (point_params (hp s) here))
  /\ (forall p, 0 < p -> p < length (hp s) -> silent (pin (hget (hp s) p)) ->
        point_params (hp s) p = point_params (hp s) (parent (hp s) p)).
Proof. exact thunks_run_in_call_environment_reachable. Qed.
Print Assumptions thunks_run_in_call_environment.

Theorem run_wevs_runs_thunks_with_envs : forall h ws pa o,
  snd (run_wevs h ws pa o) =
  fold_left (fun o' we => snd (run_actions (thunk_of h (fst we)) (snd we) o')) (wevs_envs h ws pa) o.
Proof. exact run_wevs_uses_envs. Qed.
Print Assumptions run_wevs_runs_thunks_with_envs.

(** ------------------------------------------------------------------------------------------------ the whole trace *)
From ChibiV Require Import C06.TraceProofs.

(** GLOBAL wind order.  [windf] keeps the before/after-thunk events (kinds 1, 2) of a trace; [move_winds s s'] is the list of
    such events of the R7RS wind script from the extent of the continuation of s to that of s' ([script_winds] of
    [wind_script]); [run_moves] concatenates them over the steps of a run.  For every script and every number of steps, the
    before/after events in the machine's trace are exactly that concatenation: nothing else ever runs a before or after
    thunk, and every change of extent — entering or leaving a dynamic-wind normally, invoking a continuation, a handler or
    a guard escaping or re-entering — runs exactly the script between the two extents. *)
Theorem machine_wind_trace : forall n e,
  windf (out (run_impl n (init e))) = run_moves travel_to_point n (init e).
Proof. exact machine_wind_trace_lemma. Qed.
Print Assumptions machine_wind_trace.

Theorem machine_step_winds : forall s, reachable s ->
  windf (out (step_impl s)) = move_winds s (step_impl s) ++ windf (out s).
Proof. exact machine_step_winds_lemma. Qed.
Print Assumptions machine_step_winds.

From ChibiV Require Import C06.Progress.

(** PROGRESS (C06/Progress.v): for every script and every number of steps the machine built on the regenerated
    travel-to-point! is never stuck, except in the modelled "stale C frame" state (status [Stuck 9], reachable only
    through [CCall], the known findings c-callback-escape): every continuation index it dereferences (k_i slot, guard-k,
    handler-k) is bound, travel-to-point! never runs out of fuel, and no frame ever receives a value of the wrong sort
    (a number where guard's [((call/cc ...))] application expects a thunk, or a thunk where a number is expected). *)
Theorem machine_progress : forall n e c,
  Machine.st (Machine.run_impl n (Machine.init e)) = Machine.Stuck c -> c = Machine.STALE_C_FRAME.
Proof. exact Progress.progress_impl_lemma. Qed.
Print Assumptions machine_progress.

(** the same for one more step from any state a run reaches: a reachable running state is never a dead end *)
Theorem machine_step_never_stuck : forall n e c,
  Machine.st (Machine.step_impl (Machine.run_impl n (Machine.init e))) = Machine.Stuck c -> c = Machine.STALE_C_FRAME.
Proof. exact Progress.step_never_stuck_lemma. Qed.
Print Assumptions machine_step_never_stuck.

(** round 3 — the growth path of RESUMECC (sexp_restore_stack -> sexp_grow_stack allocates a NEW stack object): for the
    opcode as repaired by fixes/C06-resumecc-reload-stack-after-growth.patch the theorem [callcc_resume_restores] holds
    WITHOUT its no-growth premise: whatever the size of the stack the continuation is resumed on (e.g. the fresh
    1024-word stack of another green thread), if the restore does not report out-of-stack the registers and every
    word below the call/cc slot are the captured ones and the passed value sits in the slot *)
Theorem callcc_resume_restores_grown : forall m kobj m1 saved m2 maxs junk m3,
  1 <= StackModel.top m -> StackModel.top m + 4 <= length (stack m) ->
  callcc m kobj = (m1, saved) ->
  StackModel.top m2 + 2 <= length (stack m2) -> length (stack m2) <= maxs ->
  resumecc_g m2 saved maxs junk = Some m3 ->
    StackModel.top m3 = StackModel.top m /\ fp m3 = fp m /\ self m3 = self m /\ ip m3 = ip m /\
    length (stack m2) <= length (stack m3) /\ StackModel.top m + 4 + 64 <= length (stack m3) /\
    (forall i, i < StackModel.top m - 1 -> sref (stack m3) i = sref (stack m) i) /\
    sref (stack m3) (StackModel.top m - 1) = sref (stack m2) (fp m2 - 1).
Proof. exact callcc_resume_restores_grown_lemma. Qed.
Print Assumptions callcc_resume_restores_grown.

(** REFUTED for the opcode as pinned (vm.c:1320-1333 before the repair: the C local `stack` is not re-read after the
    growth, fp/self/ip are taken from the OLD stack object): witness = a continuation captured at top 74 resumed on a
    70-word stack.  Real binary: SIGSEGV at vm.c:1328 for a raw %call/cc continuation of a 3000-deep recursion invoked
    from another green thread (notes/C06.md round 3) *)
Theorem resumecc_stale_stack_refuted :
  ~ (forall m kobj m1 saved m2 maxs junk m3,
       1 <= StackModel.top m -> StackModel.top m + 4 <= length (stack m) -> callcc m kobj = (m1, saved) ->
       StackModel.top m2 + 2 <= length (stack m2) -> length (stack m2) <= maxs ->
       resumecc_stale m2 saved maxs junk = Some m3 ->
       fp m3 = fp m /\ self m3 = self m /\ ip m3 = ip m).
Proof. exact resumecc_stale_stack_refuted_lemma. Qed.
Print Assumptions resumecc_stale_stack_refuted.

(** round 3 — multiple values (lib/init-7.scm:756-770 %values / values / call-with-values, and continuation->procedure's
    [(cont (%values res))]).  Premise [single_ordinary]: a SINGLE value passed is an ordinary object (not itself a
    multiple-values object — chibi splices that one, theorem [values_single_tagged_spliced]; R7RS leaves it undefined) *)
From ChibiV Require C06.ValuesModel C06.ValuesProofs.

(** (call-with-values (lambda () (values v ...)) consumer) applies consumer to exactly v ... (zero, one or many) *)
Theorem values_reach_consumer : forall ls,
  ValuesProofs.single_ordinary ls -> ValuesModel.cwv_args (ValuesModel.values ls) = ls.
Proof. exact ValuesProofs.values_reach_consumer_lemma. Qed.
Print Assumptions values_reach_consumer.

(** (call-with-values (lambda () (call/cc (lambda (k) ...))) consumer): calling the continuation procedure with the
    arguments v ..., at once or on a later re-entry, applies consumer to exactly v ... *)
Theorem values_through_continuation : forall res,
  ValuesProofs.single_ordinary res -> ValuesModel.cwv_args (ValuesModel.cont_deliver res) = res.
Proof. exact ValuesProofs.values_through_continuation_lemma. Qed.
Print Assumptions values_through_continuation.

Theorem values_single_tagged_spliced :
  ValuesModel.cwv_args (ValuesModel.values [ValuesModel.MTagged [ValuesModel.MObj 1; ValuesModel.MObj 2]])
  = [ValuesModel.MObj 1; ValuesModel.MObj 2].
Proof. exact ValuesProofs.values_single_tagged_spliced_lemma. Qed.
Print Assumptions values_single_tagged_spliced.

(** the multiple-values print mode of the trace correspondence is meaning-preserving under this model of values: a
    call/cc receiver [(call-with-values (lambda () (call/cc ..)) (lambda vs (apply + vs)))] computes the sum of whatever
    numbers a continuation procedure is called with — so a throw that passes numbers with sum v delivers the model's v *)
Theorem mv_encoding_sound : forall vs : list nat,
  ValuesProofs.sum_consumer (ValuesModel.cwv_args (ValuesModel.cont_deliver (map ValuesModel.MObj vs))) = list_sum vs.
Proof. exact ValuesProofs.mv_encoding_sound_lemma. Qed.
Print Assumptions mv_encoding_sound.

(** ------------------------------------------------------------------------------------------------ wind algebra *)
From ChibiV Require Import C06.WindAlgebra.

(** escape and re-entry are mirror images: going back runs the befores of exactly the extents whose afters ran (and
    vice versa), in the opposite order *)
Theorem wind_script_reverse : forall h here target,
  wind_script h target here = rev (map flip_wev (wind_script h here target)).
Proof. exact wind_script_reverse_lemma. Qed.
Print Assumptions wind_script_reverse.

(** the regenerated travel-to-point! runs no thunk when a continuation is invoked from inside its own extent *)
Theorem travel_self_noop : forall h fuel p, travel_to_point h (S fuel) p p = Some [].
Proof. exact travel_self_noop_lemma. Qed.
Print Assumptions travel_self_noop.

(** round trip of the regenerated travel-to-point!: both directions terminate, and the way back is the mirror script *)
Theorem travel_round_trip : forall h, wf_heap h -> forall a b, a < length h -> b < length h ->
  exists s, travel_to_point h (travel_fuel h a b) a b = Some s /\
            travel_to_point h (travel_fuel h b a) b a = Some (rev (map flip_wev s)).
Proof. exact travel_round_trip_lemma. Qed.
Print Assumptions travel_round_trip.

(** the net number of extents entered by a wind script equals the depth difference of the two points (the bookkeeping
    (%dk point) relies on) *)
Theorem wind_script_depth_balance : forall h here target,
  wf_heap h -> here < length h -> target < length h ->
  let s := wind_script h here target in
  depth h here + length (filter is_in s) = depth h target + length (filter (fun w => negb (is_in w)) s).
Proof. exact wind_script_depth_balance_lemma. Qed.
Print Assumptions wind_script_depth_balance.

From ChibiV Require Import C06.ParamEnc.
(** one parameterize form with several bindings, printed from nested DSL bindings whose value expression reads the other parameter: the value is the one OUTSIDE the form (R7RS 4.2.6), i.e. the print-level encoding of simultaneous binding is sound *)
Theorem parameterize_simultaneous : forall s a b c body k,
  st s = Running -> ctl s = CEval (Parameterize a (PRef b) (Parameterize b (Const c) body)) -> kont s = k ->
  let old := lookup_param b (params s) in
  let s4 := iter_step 6 s in
  ctl s4 = CEval body /\ st s4 = Running /\
  params s4 = BParam b c :: BParam a old :: params s /\
  out s4 = (10 + b, old) :: out s /\
  kont s4 = FWindExit (S (length (hp s))) (length (hp s)) [ASetParams (BParam a old :: params s)]
              :: FWindExit (length (hp s)) (dk s) [ASetParams (params s)] :: k /\
  (a <> b -> lookup_param a (params s4) = old /\ lookup_param b (params s4) = c).
Proof. exact parameterize_simultaneous_lemma. Qed.
Print Assumptions parameterize_simultaneous.

From ChibiV Require Import C06.ThrowAlgebra.
(** jumping back between two continuations runs the mirror script: the afters/befores of the same dynamic-wind frames, flipped and in reverse order *)
Theorem frames_script_reverse : forall k1 k2,
  frames_script k2 k1 = rev (map flip_wev (frames_script k1 k2)).
Proof. exact frames_script_reverse_lemma. Qed.
Print Assumptions frames_script_reverse.

(** two continuations with the same dynamic-wind frames are in the same dynamic extent: the wind script between them is empty *)
Theorem frames_script_same_extent : forall k1 k2,
  kont_winds k1 = kont_winds k2 -> frames_script k1 k2 = [].
Proof. exact frames_script_same_extent_lemma. Qed.
Print Assumptions frames_script_same_extent.

(** invoking a continuation that lies in the same dynamic extent as the current one (plain escape with no dynamic-wind in between, generator re-entry inside one extent) runs NO before/after thunk and leaves the parameters and the trace alone *)
Theorem machine_throw_same_extent_silent : forall s idx v kk pt,
  reachable s -> nth_error (conts s) idx = Some (kk, pt) ->
  kont_winds kk = kont_winds (kont s) ->
  do_throw travel_to_point s idx v =
    mkS (CRet v) kk (kont_point kk) (params s) (hp s) (conts s) (slots s) (counts s) (out s) (st s).
Proof. exact machine_throw_same_extent_silent_lemma. Qed.
Print Assumptions machine_throw_same_extent_silent.
