(** C09 — optimisation passes and numeric build variants preserve meaning: property theorems only.
    (A) the struct-based 128-bit helpers of include/chibi/bignum.h (SEXP_USE_CUSTOM_LONG_LONGS=1), as
    re-translated from the checked tree into Gen/C09_Luint.v on every run, compute Z modulo 2^128 on
    {hi, lo} pairs:  luval (hi, lo) = hi * 2^64 + lo. *)
From ChibiV Require Import C09.CSem C09.LuintLemmas Gen.C09_Luint C09.LuintProofs.
Local Open Scope Z_scope.

Theorem luint_add_Z : forall a b, lu_ok a -> lu_ok b ->
  lu_ok (luint_add a b) /\ luval (luint_add a b) = (luval a + luval b) mod M128.
Proof. exact LuintProofs.luint_add_Z. Qed.
Print Assumptions luint_add_Z.

Theorem luint_add_uint_Z : forall a b, lu_ok a -> u64 b ->
  lu_ok (luint_add_uint a b) /\ luval (luint_add_uint a b) = (luval a + b) mod M128.
Proof. exact LuintProofs.luint_add_uint_Z. Qed.
Print Assumptions luint_add_uint_Z.

Theorem luint_sub_Z : forall a b, lu_ok a -> lu_ok b ->
  lu_ok (luint_sub a b) /\ luval (luint_sub a b) = (luval a - luval b) mod M128.
Proof. exact LuintProofs.luint_sub_Z. Qed.
Print Assumptions luint_sub_Z.

Theorem lsint_negate_Z : forall v, ls_ok v ->
  ls_ok (lsint_negate v) /\ luval (lsint_negate v) = smod128 (- luval v).
Proof. exact LuintProofs.lsint_negate_Z. Qed.
Print Assumptions lsint_negate_Z.

Theorem luint_shl_Z : forall v s, lu_ok v -> 0 <= s < 128 ->
  lu_ok (luint_shl v s) /\ luval (luint_shl v s) = (luval v * 2 ^ s) mod M128.
Proof. exact LuintProofs.luint_shl_Z. Qed.
Print Assumptions luint_shl_Z.

Theorem luint_shr_Z : forall v s, lu_ok v -> 0 <= s < 128 ->
  lu_ok (luint_shr v s) /\ luval (luint_shr v s) = luval v / 2 ^ s.
Proof. exact LuintProofs.luint_shr_Z. Qed.
Print Assumptions luint_shr_Z.

Theorem luint_eq_Z : forall a b, lu_ok a -> lu_ok b ->
  (luint_eq a b = 1 <-> luval a = luval b) /\ (luint_eq a b = 0 \/ luint_eq a b = 1).
Proof. exact LuintProofs.luint_eq_Z. Qed.
Print Assumptions luint_eq_Z.

Theorem luint_lt_Z : forall a b, lu_ok a -> lu_ok b ->
  (luint_lt a b = 1 <-> luval a < luval b) /\ (luint_lt a b = 0 \/ luint_lt a b = 1).
Proof. exact LuintProofs.luint_lt_Z. Qed.
Print Assumptions luint_lt_Z.

Theorem luint_and_Z : forall a b, lu_ok a -> lu_ok b ->
  lu_ok (luint_and a b) /\ luval (luint_and a b) = Z.land (luval a) (luval b).
Proof. exact LuintProofs.luint_and_Z. Qed.
Print Assumptions luint_and_Z.

Theorem lsint_is_fixnum_Z : forall x, ls_ok x ->
  lsint_is_fixnum x = if (- 4611686018427387904 <=? luval x) && (luval x <=? 4611686018427387903) then 1 else 0.
Proof. exact LuintProofs.lsint_is_fixnum_Z. Qed.
Print Assumptions lsint_is_fixnum_Z.

Theorem luint_is_fixnum_Z : forall x, lu_ok x ->
  luint_is_fixnum x = if luval x <=? 4611686018427387903 then 1 else 0.
Proof. exact LuintProofs.luint_is_fixnum_Z. Qed.
Print Assumptions luint_is_fixnum_Z.

Theorem luint_mul_uint_Z : forall a b, lu_ok a -> u64 b ->
  lu_ok (luint_mul_uint a b) /\ luval (luint_mul_uint a b) = (luval a * b) mod M128 /\ luint_mul_uint_safe a b = true.
Proof. exact LuintProofs.luint_mul_uint_Z. Qed.
Print Assumptions luint_mul_uint_Z.

(** the generated [_safe] functions: on these argument ranges the C code meets no undefined behaviour
    (shift counts inside the operand width, no signed overflow) *)
Theorem luint_shl_defined : forall v s, 0 <= s < 128 -> luint_shl_safe v s = true.
Proof. exact LuintProofs.luint_shl_defined. Qed.
Print Assumptions luint_shl_defined.

Theorem luint_shr_defined : forall v s, 0 <= s < 128 -> luint_shr_safe v s = true.
Proof. exact LuintProofs.luint_shr_defined. Qed.
Print Assumptions luint_shr_defined.

Theorem carry_helpers_defined : forall a b w v,
  luint_add_safe a b = true /\ luint_add_uint_safe a w = true /\ luint_sub_safe a b = true /\ lsint_negate_safe v = true
  /\ luint_eq_safe a b = true /\ luint_lt_safe a b = true /\ luint_and_safe a b = true
  /\ lsint_is_fixnum_safe v = true /\ luint_is_fixnum_safe a = true.
Proof. exact LuintProofs.carry_helpers_defined. Qed.
Print Assumptions carry_helpers_defined.

(** (B) simplify.c:11-158 on the analysed core AST (coq/C09/Ast.v); SPEC = the interpreter [eval] of coq/C09/Simplify.v
    (let-fragment: constants, lexical references, set!, if, begin, arithmetic opcodes, literal-lambda applications, output).
    PARTIAL — the full statement is
      forall e rho sigma r, Sem.eval f e rho sigma = r -> defined r -> Sem.eval f (simplify e) rho sigma = r
    for the whole core language; what is missing here: first-class closures, recursion and rest parameters are outside
    the interpreter (a lambda in value position has no defined result), so the theorem speaks about let-fragment
    programs only; the richer programs are covered by the four-build differential run. *)
From ChibiV Require Import C09.Ast C09.Simplify C09.SimplifyProofs.

Theorem simplify_sound_let_fragment : forall e r o v r1 o1,
  wf e = true -> eval e (r, o) = (Some v, (r1, o1)) ->
  exists r1', eval (simplify e [] true) (r, o) = (Some v, (r1', o1)) /\ forall x l, lookup x l r1 = lookup x l r1'.
Proof. exact SimplifyProofs.simplify_sound_body. Qed.
Print Assumptions simplify_sound_let_fragment.

(** with any substitution list in force: the deleted parameters hold their constants ([agree]) *)
Theorem subst_sound : forall e S r r' o v r1 o1,
  wf e = true -> C1 S e -> C2 S e -> ~ In 0 (sdom S) -> agree S r r' ->
  eval e (r, o) = (Some v, (r1, o1)) ->
  exists r1', eval (simplify e S true) (r', o) = (Some v, (r1', o1)) /\ agree S r1 r1'.
Proof. exact SimplifyProofs.simplify_sound_gen. Qed.
Print Assumptions subst_sound.

Theorem fold_only_when_value : forall o args S il c,
  simplify (App (Op o) args) S il = Lit c ->
  exists cs, all_simple (map (fun a => simplify a S il) args) = Some cs /\ prim_eval o cs = Some c /\ is_arith o = true.
Proof. exact SimplifyProofs.fold_only_when_value. Qed.
Print Assumptions fold_only_when_value.

Theorem dead_branch_sound : forall c a b S il,
  simplify (Cnd (Lit c) a b) S il = if const_false c then simplify b S il else simplify a S il.
Proof. exact SimplifyProofs.dead_branch_sound. Qed.
Print Assumptions dead_branch_sound.

Theorem seq_drop_sound : forall es, Forall sound es -> forall S r r' o v r1 o1,
  forallb wf es = true -> Forall (C1 S) es -> Forall (C2 S) es -> ~ In 0 (sdom S) -> agree S r r' ->
  eval_seq es (r, o) = (Some v, (r1, o1)) ->
  exists r1', eval_seq (seq_filter (map (fun a => simplify a S true) es)) (r', o) = (Some v, (r1', o1)) /\ agree S r1 r1'.
Proof. exact SimplifyProofs.seq_sound. Qed.
Print Assumptions seq_drop_sound.

(** (A) continued: signed product and the 128-step division *)
From ChibiV Require Import C09.LuintProofs2.

Theorem lsint_mul_sint_Z : forall a b, ls_ok a -> s64 b -> b <> - 9223372036854775808 ->
  ls_ok (lsint_mul_sint a b) /\ luval (lsint_mul_sint a b) = smod128 (luval a * b) /\ lsint_mul_sint_safe a b = true.
Proof. exact LuintProofs2.lsint_mul_sint_Z. Qed.
Print Assumptions lsint_mul_sint_Z.

Theorem luint_div_Z : forall a b, lu_ok a -> lu_ok b -> luval b <> 0 ->
  lu_ok (luint_div a b) /\ luval (luint_div a b) = luval a / luval b /\ luint_div_safe a b = true.
Proof. exact LuintProofs2.luint_div_Z. Qed.
Print Assumptions luint_div_Z.

Theorem luint_div_uint_Z : forall a w, lu_ok a -> u64 w -> w <> 0 ->
  lu_ok (luint_div_uint a w) /\ luval (luint_div_uint a w) = luval a / w.
Proof. exact LuintProofs2.luint_div_uint_Z. Qed.
Print Assumptions luint_div_uint_Z.

(** the conversion and range-test helpers (bignum.h:65-126) *)
Theorem conversions_Z :
  (forall a, ls_ok a -> lsint_lt_0 a = if luval a <? 0 then 1 else 0) /\
  (forall x, ls_ok x -> sexp_lsint_fits_sint x = if (- 9223372036854775808 <=? luval x) && (luval x <? 9223372036854775808) then 1 else 0) /\
  (forall x, lu_ok x -> sexp_luint_fits_uint x = if luval x <? M64 then 1 else 0) /\
  (forall v, s64 v -> ls_ok (lsint_from_sint v) /\ luval (lsint_from_sint v) = v) /\
  (forall v, u64 v -> lu_ok (luint_from_uint v) /\ luval (luint_from_uint v) = v) /\
  (forall v, ls_ok v -> s64 (lsint_to_sint v) /\ lsint_to_sint v mod M64 = luval v mod M64 /\ lsint_to_sint_hi v = luval v / M64) /\
  (forall v, lu_ok v -> luint_to_uint v = luval v mod M64 /\ luint_to_uint_hi v = luval v / M64) /\
  (forall v, ls_ok v -> lu_ok (luint_from_lsint v) /\ luval (luint_from_lsint v) = luval v mod M128) /\
  (forall v, lu_ok v -> ls_ok (lsint_from_luint v) /\ luval (lsint_from_luint v) = smod128 (luval v)).
Proof. exact LuintProofs2.conversions_Z. Qed.
Print Assumptions conversions_Z.

(** the entry point sexp_simplify (simplify.c:156-158: empty substitution list, no enclosing lambda): result, output and
    the whole final state are preserved exactly (no precondition: outside a lambda no parameter is ever deleted) *)
Theorem sexp_simplify_sound : forall e s v s1, eval e s = (Some v, s1) -> eval (sexp_simplify e) s = (Some v, s1).
Proof. exact SimplifyProofs.sexp_simplify_sound. Qed.
Print Assumptions sexp_simplify_sound.

(** hence the three places that use the emulation (fxmul / fxdiv loop bodies, fixnum*fixnum) take exactly the step on Z
    that the native 128-bit type takes (these three snippets are mirrored by hand in C09/LuintProofs2.v, not regenerated) *)
Theorem custom_long_longs_refines_native :
  (forall x b carry, u64 x -> u64 b -> u64 carry ->
     fxmul_step x b carry = ((x * b + carry) mod M64, (x * b + carry) / M64)) /\
  (forall r d b, u64 r -> u64 d -> u64 b -> r < b ->
     fxdiv_step r d b = ((r * M64 + d) / b, (r * M64 + d) mod b)) /\
  (forall a b, - 4611686018427387904 <= a <= 4611686018427387903 -> - 4611686018427387904 <= b <= 4611686018427387903 ->
     fixmul a b = if (- 4611686018427387904 <=? a * b) && (a * b <=? 4611686018427387903) then Some (a * b) else None).
Proof. exact LuintProofs2.custom_long_longs_refines_native. Qed.
Print Assumptions custom_long_longs_refines_native.

(** (B) with first-class closures, recursion and assignment: SPEC = C09/Sem2.v [eval2] (fuel-bounded definitional
    interpreter with a store; assigned variables boxed, the others bound directly; operands right to left).
    PARTIAL with respect to the full statement (Sem for the whole core language): rest parameters (their values are
    lists), data structures other than constants, call/cc and dynamic-wind are outside the interpreter — a lambda with a
    rest parameter has no defined result in it.  The values are related by [vrel] (equal constants; closures whose bodies
    are the simplified bodies under the substitution in force and whose environments are related), stores pointwise. *)
From ChibiV Require Import C09.Sem2 C09.Sem2Proofs.

Theorem simplify_sound_partial : forall fuel e S r r' s s' o v s1 o1,
  wf e = true -> C1 S e -> C2 S e -> ~ In 0 (sdom S) -> envrel S r r' -> storerel s s' ->
  eval2 fuel e r s o = Some (v, s1, o1) ->
  exists v' s1', eval2 fuel (simplify e S true) r' s' o = Some (v', s1', o1) /\ vrel v v' /\ storerel s1 s1'.
Proof. exact Sem2Proofs.simplify_sound_closures. Qed.
Print Assumptions simplify_sound_partial.

(** whole programs: the observable result (a constant, or "some procedure") and the output are unchanged *)
Theorem simplify_sound_program : forall fuel e res o,
  wf e = true -> run2 fuel e = Some (res, o) -> run2 fuel (simplify e [] true) = Some (res, o).
Proof. exact Sem2Proofs.simplify_sound_program. Qed.
Print Assumptions simplify_sound_program.

(** ROUND 2 — (B) kind-exact model C09/Kinded.v [ksimplify]: immediates (KImm), SEXP_LIT nodes (KLit: quoted data and fold
    results) and self-evaluating heap data (KObj) are kept apart exactly as analyze (eval.c:1102-1244) produces them and
    as simplify.c tests them; this is the model whose output is compared token for token with the implementation's AST.
    It refines the proved model through [erase] (which identifies KImm and KLit), for every expression, substitution
    list and dynamic state — so the soundness theorems above speak about it. *)
From ChibiV Require Import C09.Kinded C09.KindedProofs.

Theorem ksimplify_refines_simplify : forall e d S il,
  erase (ksimplify d e S il) = simplify (erase e) (map erase_subst S) il.
Proof. exact KindedProofs.erase_ksimplify. Qed.
Print Assumptions ksimplify_refines_simplify.

Theorem ksimplify_sound_program : forall d fuel e res o,
  kwf e = true -> run2 fuel (erase e) = Some (res, o) -> run2 fuel (erase (ksimplify d e [] true)) = Some (res, o).
Proof. exact KindedProofs.ksimplify_sound_program. Qed.
Print Assumptions ksimplify_sound_program.

Theorem ksexp_simplify_sound : forall d e s v s1,
  eval (erase e) s = (Some v, s1) -> eval (erase (ksexp_simplify d e)) s = (Some v, s1).
Proof. exact KindedProofs.ksexp_simplify_sound. Qed.
Print Assumptions ksexp_simplify_sound.

(** a constant test is decided by its VALUE, whether it is an immediate or sits inside a lit node (simplify.c:112
    `sexp_litp(tmp) ? sexp_lit_value(tmp) : tmp`): (if '#f a b) = (if #f a b) = b *)
Theorem quoted_test_unwrapped : forall d c a b S il,
  ksimplify d (KCnd (KLit c) a b) S il = ksimplify d (KCnd (KImm c) a b) S il /\
  ksimplify d (KCnd (KLit c) a b) S il = (if const_false c then ksimplify d b S il else ksimplify d a S il).
Proof. exact KindedProofs.quoted_test_unwrapped. Qed.
Print Assumptions quoted_test_unwrapped.

(** (A) folding is unobservable.  The fold RUNS the application in the VM (simplify.c:46-58).  Refinement obligation on
    the C, made explicit by [Kinded.fold_eval] = [apply_no_err_handler] (vm.c:2474-2494): the run happens with NO
    exception handler and NO parameter bindings of the compiling program, an exception is discarded, and handler cell and
    parameter list are restored — so it yields exactly [prim_eval], no event, and the unchanged dynamic state [d].
    (A plain sexp_apply, [vm_apply], does emit an event under an installed handler: KindedProofs.vm_apply_observable.)
    Tied by the K-inner stream that runs (optimize ast) inside with-exception-handler + parameterize and compares the
    recorded handler calls / parameter value with this model (always none / unchanged). *)
Theorem fold_eval_unobservable : forall d o cs, fold_eval d o cs = (prim_eval o cs, [], d).
Proof. exact KindedProofs.fold_eval_unobservable. Qed.
Print Assumptions fold_eval_unobservable.

Theorem ksimplify_dyn_independent : forall e d d' S il, ksimplify d e S il = ksimplify d' e S il.
Proof. exact KindedProofs.ksimplify_dyn_independent. Qed.
Print Assumptions ksimplify_dyn_independent.

Theorem kfold_only_when_value : forall d o args S il e,
  ksimplify d (KApp (KOp o) args) S il = e -> e <> KApp (KOp o) (map (fun a => ksimplify d a S il) args) ->
  exists cs r, kall_simple (map (fun a => ksimplify d a S il) args) = Some cs /\ prim_eval o cs = Some r /\ is_arith o = true
               /\ e = KLit r /\ snd (fst (fold_eval d o cs)) = [] /\ snd (fold_eval d o cs) = d.
Proof. exact KindedProofs.kfold_only_when_value. Qed.
Print Assumptions kfold_only_when_value.

(** ROUND 2 — the callers of the helpers (digit loops of sexp_bignum_fxmul / sexp_bignum_fxdiv, the fixnum*fixnum case of
    sexp_mul and of the VM's SEXP_OP_MUL) as RE-TRANSLATED from bignum.c / vm.c of the checked tree into
    Gen/C09_Callers.v on every run (gen/c09_callers.py; round 1 mirrored them by hand): same statement as
    custom_long_longs_refines_native, now about the regenerated text. *)
From ChibiV Require Import Gen.C09_Callers C09.CallersProofs.

Theorem regenerated_callers_refine_native :
  (forall x b carry, u64 x -> u64 b -> u64 carry ->
     C09_Callers.fxmul_step x b carry = ((x * b + carry) mod M64, (x * b + carry) / M64)) /\
  (forall r d b, u64 r -> u64 d -> u64 b -> r < b ->
     C09_Callers.fxdiv_step r d b = ((r * M64 + d) / b, (r * M64 + d) mod b)) /\
  (forall a b, - 4611686018427387904 <= a <= 4611686018427387903 -> - 4611686018427387904 <= b <= 4611686018427387903 ->
     C09_Callers.fixmul a b = (if (- 4611686018427387904 <=? a * b) && (a * b <=? 4611686018427387903) then Some (a * b) else None) /\
     C09_Callers.fixmul_vm a b = C09_Callers.fixmul a b).
Proof. exact CallersProofs.regenerated_callers_refine_native. Qed.
Print Assumptions regenerated_callers_refine_native.

(** the digit loop of sexp_bignum_fxrem (regenerated; round 2): invariant "running remainder < divisor" is kept and the
    step computes (n * 2^64 + d) mod b0 on Z — what the native 128-bit arm computes *)
Theorem fxrem_step_Z : forall n d b, lu_ok n -> u64 d -> u64 b -> luval n < b ->
  lu_ok (C09_Callers.fxrem_step n d b) /\ luval (C09_Callers.fxrem_step n d b) = (luval n * M64 + d) mod b.
Proof. exact CallersProofs.fxrem_step_Z. Qed.
Print Assumptions fxrem_step_Z.

(** ROUND 3 — the INTERACTION of the pass with the unused-rest-parameter analysis (simplify.c:160-205 usedp /
    sexp_rest_unused_p; the analysis itself is C03's).  The analysis runs at code generation, on the SIMPLIFIED lambda
    (vm.c:719), while the set-vars list that decides what the procedure prologue boxes (vm.c:699-707) was computed by
    analyze BEFORE the pass.  C09/Rest.v: [usedp], [rest_unused] (the analysis as repaired by
    fixes/C09-unused-rest-stale-set-vars.patch: a rest parameter listed in the set-vars is never flagged), and
    [rest_unused_old] (the pinned code: looks at the body only). *)
From ChibiV Require Import C09.Sem3 C09.Rest C09.RestProofs.

(** the pass never INTRODUCES a use of a variable: parameter deletion, propagation (literals only), folding, branch
    selection and statement dropping only remove references — a rest parameter unused before the pass is unused after it *)
Theorem usedp_simplify : forall e x l S il, usedp x l (simplify e S il) = true -> usedp x l e = true.
Proof. exact RestProofs.usedp_simplify. Qed.
Print Assumptions usedp_simplify.

(** a variable that no code uses is irrelevant for evaluation (SPEC = Sem3.eval3): the two environments may differ
    arbitrarily at that key — bound on one side, absent on the other — result, output and store correspond ([vsame]:
    equal data; closures over code not using the key whose environments correspond away from the key) *)
Theorem unused_irrelevant : forall x l fuel e r r' s s' o v s1 o1,
  usedp x l e = false -> envsame x l r r' -> storesame x l s s' ->
  eval3 fuel e r s o = Some (v, s1, o1) ->
  exists v' s1', eval3 fuel e r' s' o = Some (v', s1', o1) /\ vsame x l v v' /\ storesame x l s1 s1'.
Proof. exact RestProofs.unused_irrelevant. Qed.
Print Assumptions unused_irrelevant.

(** hence what the VM does for a procedure flagged SEXP_PROC_UNUSED_REST — it does not build the rest list and the
    frame has no slot for it — is sound for every lambda the REPAIRED analysis flags (after whatever the pass did to its
    body): not binding the rest parameter at all gives the same result, output and store, with no box allocated for it *)
Theorem unused_rest_elided : forall id fixed rp sv body fuel ws ws' w rc rc' s s' o v s1 o1,
  rest_unused (Lam id (fixed ++ [rp]) true sv body) = true -> length ws = length fixed ->
  Forall2 (vsame rp id) ws ws' -> envsame rp id rc rc' -> storesame rp id s s' ->
  (let '(r3, s3) := bind3 id sv (fixed ++ [rp]) (ws ++ [w]) rc s in eval3 fuel body r3 s3 o) = Some (v, s1, o1) ->
  exists v' s1', (let '(r3, s3) := bind3 id sv fixed ws' rc' s' in eval3 fuel body r3 s3 o) = Some (v', s1', o1)
                 /\ vsame rp id v v' /\ storesame rp id s1 s1'.
Proof. exact RestProofs.unused_rest_elided. Qed.
Print Assumptions unused_rest_elided.

(** the defect of the pinned analysis (repaired by the patch): the pass removes the only assignment to a rest parameter
    (dead branch), the old analysis then flags the lambda although its set-vars still list the parameter — the prologue
    boxes a slot that the elided frame does not have (store layouts differ); the repaired analysis does not flag it *)
Theorem stale_set_vars_defect_refuted :
  wf L_defect = true /\ rest_unused_old (simplify L_defect [] true) = true /\ memZ 11 [11] = true /\
  snd (bind3 1 [11] [10; 11] [V3C (CInt 1); V3C NIL] [] []) <> snd (bind3 1 [11] [10] [V3C (CInt 1)] [] []) /\
  rest_unused (simplify L_defect [] true) = false.
Proof. exact (conj RestProofs.defect_wf (conj RestProofs.defect_old_flags (conj RestProofs.defect_still_boxed (conj RestProofs.defect_frames_differ RestProofs.defect_repaired)))). Qed.
Print Assumptions stale_set_vars_defect_refuted.

(** ROUND 3 — (B) rest parameters, non-constant data and multiple call arities INSIDE the SPEC: C09/Sem3.v [eval3] =
    Sem2 + rest parameters (a lambda with the rest flag takes at least its fixed parameters, the surplus arguments are
    collected into a fresh list bound — boxed when assigned — to the last parameter; EVERY lambda is a first-class
    closure, callable with any argument count it accepts), immutable pairs and vectors as values (cons car cdr pair?
    null? vector-ref vector-length as never-folded opcodes, list / vector / length / the output procedure as global
    procedures), output of any closure-free datum.  What the theorem says about the pass's parameter deletion
    (simplify.c:68 `sexp_length(params) == sexp_length(args)`, the rest parameter not counted): with exactly as many
    arguments as FIXED parameters the constant-bound fixed parameters are deleted and the rest parameter stays and
    receives the empty list on both sides; with any other count nothing is deleted.  Values are related by [vrel3]
    (equal constants, pairs and vectors componentwise, closures whose bodies are the simplified bodies under the
    substitution in force), stores pointwise.  Still `_partial` in name only for the older statement above; this one
    leaves outside: mutation of pairs/vectors/strings, call/cc, dynamic-wind, multiple values. *)
From ChibiV Require Import C09.Sem3Proofs.

Theorem simplify_sound_data : forall fuel e S r r' s s' o v s1 o1,
  wf e = true -> C1 S e -> C2 S e -> ~ In 0 (sdom S) -> envrel3 S r r' -> storerel3 s s' ->
  eval3 fuel e r s o = Some (v, s1, o1) ->
  exists v' s1', eval3 fuel (simplify e S true) r' s' o = Some (v', s1', o1) /\ vrel3 v v' /\ storerel3 s1 s1'.
Proof. exact Sem3Proofs.simplify_sound_data. Qed.
Print Assumptions simplify_sound_data.

(** whole programs: the observable result (a closure-free datum, or "holds a procedure") and the output are unchanged *)
Theorem simplify_sound_program3 : forall fuel e res o,
  wf e = true -> run3 fuel e = Some (res, o) -> run3 fuel (simplify e [] true) = Some (res, o).
Proof. exact Sem3Proofs.simplify_sound_program3. Qed.
Print Assumptions simplify_sound_program3.

(** related values print alike (closures: not printable on either side) *)
Theorem vrel3_data : forall v v', vrel3 v v' -> data_of v = data_of v'.
Proof. exact Sem3Proofs.vrel3_data. Qed.
Print Assumptions vrel3_data.

(** ROUND 3 — the pass ORDER of the code for an operator that only BECOMES a lambda by simplification (simplify.c:27-28
    simplifies a non-lambda operator, the let test at line 61 then looks at the SIMPLIFIED operator: ((if #t (lambda (x) B)
    F) 1), ((begin 'a (lambda (x) B)) 1) get the parameter deletion and their body is simplified a SECOND time).
    C09/Simplify2.v [simpN n] / C09/Kinded2.v [ksimpN n] mirror exactly that ([n] bounds the nesting of second passes;
    level 0 is the structurally recursive model of the theorems above).  The implementation's optimised AST is compared
    token for token with [ksexp_simplifyN] on every generated program. *)
From ChibiV Require Import C09.Simplify2 C09.Kinded2 C09.Simplify2Proofs.

(** the kind-exact exact-order model refines the plain one, for every level *)
Theorem ksimpN_refines_simpN : forall n e d S il, erase (ksimpN n d e S il) = simpN n (erase e) (map erase_subst S) il.
Proof. exact Simplify2Proofs.erase_ksimpN. Qed.
Print Assumptions ksimpN_refines_simpN.

Theorem ksimpN_dyn_independent : forall n e d d' S il, ksimpN n d e S il = ksimpN n d' e S il.
Proof. exact Simplify2Proofs.ksimpN_dyn_independent. Qed.
Print Assumptions ksimpN_dyn_independent.

(** where no application has an `if` or a `begin` in operator position — the only shapes that can simplify to a lambda —
    the exact-order pass IS the proved model, at every level: all soundness theorems above speak about the code's pass.
    PARTIAL for the remaining programs (second pass really taken): their soundness is not proved (the value relation of
    simplify_sound_data is not transitive, so two passes over one body do not compose); every generated program of that
    kind is validated individually (SPEC result and output before = after, third interpreter) on each run. *)
Theorem simpN_is_simplify_without_operator_towers_partial : forall n e S il, no_tower e = true -> simpN n e S il = simplify e S il.
Proof. exact Simplify2Proofs.simpN_no_tower. Qed.
Print Assumptions simpN_is_simplify_without_operator_towers_partial.

(** non-vacuity: the second pass happens, changes the result of the level-0 model, and one level suffices here *)
Theorem second_pass_example :
  simpN 1 ex_tower [] false = Lam 1 [] false [] (App (Lam 2 [11] false [] (App (Op 0) [Lit (CInt 5); Ref 11 2; Lit (CInt 1)])) [Ref 12 0]) /\
  simpN 1 ex_tower [] false <> simplify ex_tower [] false /\ simpN 1 ex_tower [] false = simpN 2 ex_tower [] false.
Proof. exact (conj Simplify2Proofs.ex_tower_simpN1 (conj Simplify2Proofs.ex_tower_differs Simplify2Proofs.ex_tower_stable)). Qed.
Print Assumptions second_pass_example.
