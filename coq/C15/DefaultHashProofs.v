(** C15 — the default hash chosen by the hash-table constructors respects the equivalence (round 3). *)
From Coq Require Import List ZArith Bool Lia.
From ChibiV Require Import Common.Words Gen.C15_Consts C15.Obj C15.ObjProofs C15.ObjEqual C15.DefaultHash Gen.C15_OptHash.
Import ListNotations.
Local Open Scope Z_scope.

Definition wfl (x : lobj) : Prop := wf (ob x) /\ inb (ob x).
(** a heap is a function: one address holds one object *)
Definition consistent (x y : lobj) : Prop := addr x = addr y -> ob x = ob y.

Lemma heap_eq_same x y : consistent x y -> heap_eq x y = true -> ob x = ob y.
Proof.
  unfold heap_eq, consistent. intros Hc H.
  destruct (ob x) eqn:Ex, (ob y) eqn:Ey; try discriminate;
    try (apply Z.eqb_eq in H; try (rewrite H; reflexivity); apply Hc; exact H).
Qed.

Theorem coherent_sound e h : coherent_b e h = true ->
  forall x y n, wfl x -> wfl y -> consistent x y -> sem_eq e x y = true -> sem_hash h x n = sem_hash h y n.
Proof.
  intros Hc x y n [Wx Ix] [Wy Iy] Hcons He.
  destruct e, h; try discriminate Hc; cbn [sem_eq sem_hash] in *.
  - (* eq?, hash-by-identity *)
    unfold heap_eq in He. destruct (ob x) eqn:Ex, (ob y) eqn:Ey; try discriminate;
      apply Z.eqb_eq in He; rewrite He; reflexivity.
  - (* eq?, hash *) rewrite (heap_eq_same x y Hcons He). reflexivity.
  - (* eqv?, hash *) apply orb_true_iff in He. destruct He as [He|He].
    + rewrite (heap_eq_same x y Hcons He). reflexivity.
    + apply andb_true_iff in He. apply hash_respects_equal; tauto.
  - (* equal?, hash *) apply hash_respects_equal; assumption.
  - (* string=?, hash *)
    destruct (ob x) eqn:Ex, (ob y) eqn:Ey; try discriminate.
    apply hash_respects_abstract_value; [assumption | assumption |]. cbn [absv]. apply list_eqb_eq in He. rewrite He. reflexivity.
  - (* string=?, string-hash *)
    destruct (ob x) eqn:Ex, (ob y) eqn:Ey; try discriminate.
    unfold string_hash. apply list_eqb_eq in He. rewrite He. reflexivity.
Qed.

(** every default choice regenerated from the source is coherent *)
Lemma regenerated_choices_coherent :
  forallb (fun e => coherent_b e (opt_hash_125 e) && coherent_b e (opt_hash_69 e)) standard_eqs = true /\
  forallb (fun p => coherent_b (fst p) (snd p)) comparators_128 = true.
Proof. split; vm_compute; reflexivity. Qed.

Theorem default_hash_respects_equivalence : forall e, In e standard_eqs ->
  forall x y n, wfl x -> wfl y -> consistent x y -> sem_eq e x y = true ->
    sem_hash (opt_hash_125 e) x n = sem_hash (opt_hash_125 e) y n /\
    sem_hash (opt_hash_69 e) x n = sem_hash (opt_hash_69 e) y n.
Proof.
  intros e Hin x y n Wx Wy Hc He.
  destruct regenerated_choices_coherent as [H _]. rewrite forallb_forall in H. specialize (H e Hin).
  apply andb_true_iff in H. destruct H as [H1 H2].
  split; [apply (coherent_sound e _ H1) | apply (coherent_sound e _ H2)]; assumption.
Qed.

Theorem comparator_hash_respects_equality : forall e h, In (e, h) comparators_128 ->
  forall x y n, wfl x -> wfl y -> consistent x y -> sem_eq e x y = true -> sem_hash h x n = sem_hash h y n.
Proof.
  intros e h Hin. destruct regenerated_choices_coherent as [_ H]. rewrite forallb_forall in H.
  specialize (H (e, h) Hin). cbn [fst snd] in H. apply (coherent_sound e h H).
Qed.

(** hash-by-identity respects ONLY eq?: two eqv? bignums at different addresses (the breaking change "eqv? is basically eq?") *)
Theorem identity_hash_does_not_respect_eqv :
  exists x y n, wfl x /\ wfl y /\ consistent x y /\ sem_eq EqEqv x y = true /\ sem_hash HIdentity x n <> sem_hash HIdentity y n.
Proof.
  assert (wf (Big 1 [0; 1])) as W.
  { cbn [wf]. unfold wf_big. split; [left; reflexivity|]. split.
    - apply Forall_forall. intros x Hx. unfold isword. destruct Hx as [<-|[<-|[]]]; vm_compute; split; congruence.
    - split; [discriminate | vm_compute; discriminate]. }
  assert (inb (Big 1 [0; 1])) as I1 by (unfold inb, within; split; vm_compute; discriminate).
  exists {| addr := 4096; ob := Big 1 [0; 1] |}, {| addr := 4128; ob := Big 1 [0; 1] |}, 23.
  unfold wfl, consistent. cbn [addr ob].
  split; [split; assumption|]. split; [split; assumption|]. split; [intros _; reflexivity|].
  split; [vm_compute; reflexivity | vm_compute; discriminate].
Qed.
