(** C15 — proofs about the REGENERATED cycle-safe equal? (Gen/C15_Equiv.v, from lib/chibi/equiv.scm):
    it decides bisimilarity of two rooted finite graphs (cyclic or not) and terminates within the fuel
    |g|^2 + 1; composition with the bounded C pass. *)
From Coq Require Import List ZArith Bool Arith Lia Relations.
From ChibiV Require Import C15.Graph Gen.C15_Equiv.
Import ListNotations.

(** ------------------------------------------------------------------ tables *)
Definition inR (s : st) (x y : nat) : Prop := tab_mem s x y = true.
Definition mono (s s' : st) : Prop := forall x y, inR s x y -> inR s' x y.

Lemma mono_refl : forall s, mono s s.
Proof. intros s x y H; exact H. Qed.
Lemma mono_trans : forall s1 s2 s3, mono s1 s2 -> mono s2 s3 -> mono s1 s3.
Proof. intros s1 s2 s3 H1 H2 x y H. apply H2, H1, H. Qed.

Lemma memb_In : forall k ks, memb k ks = true <-> In k ks.
Proof.
  induction ks as [|y r IH]; cbn [memb In].
  - split; [discriminate | tauto].
  - rewrite orb_true_iff, Nat.eqb_eq, IH. tauto.
Qed.

Lemma row_add_other : forall t k s x, x <> t -> row (row_add t k s) x = row s x.
Proof.
  induction s as [|[y ks] r IH]; intros x Hx; cbn [row_add row].
  - destruct (Nat.eqb t x) eqn:E; [apply Nat.eqb_eq in E; congruence | reflexivity].
  - destruct (Nat.eqb y t) eqn:E; cbn [row].
    + destruct (Nat.eqb y x) eqn:E2; [|reflexivity].
      apply Nat.eqb_eq in E, E2. congruence.
    + destruct (Nat.eqb y x); [reflexivity | apply IH, Hx].
Qed.

Lemma row_add_same : forall t k s, exists ks', row (row_add t k s) t = Some ks' /\
  forall y, In y ks' <-> (y = k \/ match row s t with Some ks => In y ks | None => False end).
Proof.
  induction s as [|[z ks] r IH]; cbn [row_add row].
  - rewrite Nat.eqb_refl. exists [k]. split; [reflexivity|]. intros y. cbn [In]. intuition.
  - destruct (Nat.eqb z t) eqn:E; cbn [row]; rewrite E.
    + destruct (memb k ks) eqn:Mk.
      * exists ks. split; [reflexivity|]. intros y. apply memb_In in Mk. intuition; subst; assumption.
      * exists (k :: ks). split; [reflexivity|]. intros y. cbn [In]. intuition.
    + exact IH.
Qed.

Lemma inR_row_add : forall t k s x y, inR (row_add t k s) x y <-> (inR s x y \/ (x = t /\ y = k)).
Proof.
  intros t k s x y. unfold inR, tab_mem.
  destruct (Nat.eq_dec x t) as [->|Hx].
  - destruct (row_add_same t k s) as [ks' [-> Hks]]. rewrite memb_In, Hks.
    destruct (row s t) as [ks|]; [rewrite memb_In|]; intuition; discriminate.
  - rewrite (row_add_other t k s x Hx). intuition.
Qed.

Lemma inR_fold_add : forall t ks s x y,
  inR (fold_left (fun s' k => row_add t k s') ks s) x y <-> (inR s x y \/ (x = t /\ In y ks)).
Proof.
  induction ks as [|k r IH]; intros s x y; cbn [fold_left In].
  - tauto.
  - rewrite IH, inR_row_add. intuition.
Qed.

Lemma inR_merge : forall a b s x y,
  inR (merge a b s) x y <-> (inR s x y \/ (x = a /\ (y = b \/ inR s b y))).
Proof.
  intros a b s x y. unfold merge.
  assert (Hrow : forall z, match row (row_add a b s) b with Some ks => In z ks | None => False end <-> inR (row_add a b s) b z).
  { intros z. unfold inR, tab_mem. destruct (row (row_add a b s) b); [rewrite memb_In; tauto | split; [tauto | discriminate]]. }
  destruct (row (row_add a b s) b) as [ks|] eqn:E.
  - rewrite inR_fold_add, inR_row_add. specialize (Hrow y). cbn beta iota in Hrow. rewrite Hrow, inR_row_add. intuition; subst; auto.
  - rewrite inR_row_add. split; [intuition|]. intros [H|[-> [->|H]]]; auto.
    exfalso. specialize (Hrow y). cbn beta iota in Hrow. apply Hrow. apply inR_row_add. left. exact H.
Qed.

Lemma inR_get_equivs : forall a s x y, inR (snd (get_equivs a s)) x y <-> inR s x y.
Proof.
  intros a s x y. unfold get_equivs. destruct (row s a) eqn:E; cbn [snd]; [tauto|].
  unfold inR, tab_mem. cbn [row]. destruct (Nat.eqb a x) eqn:Ex; [|tauto].
  apply Nat.eqb_eq in Ex. subst x. rewrite E. cbn [memb]. tauto.
Qed.
Lemma fst_get_equivs : forall a s, fst (get_equivs a s) = a.
Proof. intros a s. unfold get_equivs. destruct (row s a); reflexivity. Qed.

Section Proofs.
Context {L : Type}.
Variable leq : L -> L -> bool.
Variable g : list (node L).

Notation nd := (nd g).
Notation equiv := (equiv leq g).
Notation N := (length g).

(** ------------------------------------------------------------------ one step of the generated function,
    as equations (the only place where the generated text is unfolded) *)
Fixpoint vloop (E : nat -> nat -> M) (sa sb : list nat) (da db : nat) (k : nat) : M :=
  match k with
  | O => ret true
  | S i => m_and (E (nth i sa da) (nth i sb db)) (vloop E sa sb da db i)
  end.

Lemma equiv_0 : forall a b s, equiv 0 a b s = (None, s).
Proof. reflexivity. Qed.

Lemma equiv_S_eq : forall f a s, equiv (S f) a a s = (Some true, s).
Proof. intros. cbn [C15_Equiv.equiv]. unfold m_or, ret. rewrite Nat.eqb_refl. reflexivity. Qed.

Lemma equiv_S_pair : forall f a b s x y, a <> b -> nd a = Some (NPair x y) ->
  equiv (S f) a b s =
  match nd b with
  | Some (NPair x' y') =>
      let s0 := snd (get_equivs a s) in
      if tab_mem s0 a b then (Some true, s0) else m_and (equiv f x x') (equiv f y y') (merge a b s0)
  | _ => (Some false, s)
  end.
Proof.
  intros f a b s x y Hab Ha. cbn [C15_Equiv.equiv]. unfold m_or, m_ite, m_and, ret, m_let, m_tabref, m_seq.
  apply Nat.eqb_neq in Hab. rewrite Hab. unfold is_pair, ncar, ncdr. rewrite Ha.
  destruct (nd b) as [[x' y'|sl|l]|]; try reflexivity.
  pose proof (fst_get_equivs a s) as Hf. destruct (get_equivs a s) as [t s0]. cbn [fst snd] in *. subst t.
  reflexivity.
Qed.

Lemma equiv_S_leaf : forall f a b s l, a <> b -> nd a = Some (NLeaf l) ->
  equiv (S f) a b s = (Some (leaf_equal leq g a b), s).
Proof.
  intros f a b s l Hab Ha. cbn [C15_Equiv.equiv]. unfold m_or, m_ite, m_and, ret.
  apply Nat.eqb_neq in Hab. rewrite Hab. unfold is_pair, is_vector. rewrite Ha. reflexivity.
Qed.

Lemma equiv_S_none : forall f a b s, a <> b -> nd a = None ->
  equiv (S f) a b s = (Some false, s).
Proof.
  intros f a b s Hab Ha. cbn [C15_Equiv.equiv]. unfold m_or, m_ite, m_and, ret.
  apply Nat.eqb_neq in Hab. rewrite Hab. unfold is_pair, is_vector, leaf_equal. rewrite Ha. reflexivity.
Qed.

Lemma equiv_S_vec : forall f a b s sa, a <> b -> nd a = Some (NVec sa) ->
  equiv (S f) a b s =
  match nd b with
  | Some (NVec sb) =>
      if Nat.eqb (length sa) (length sb) then
        let s0 := snd (get_equivs a s) in
        if tab_mem s0 a b then (Some true, s0) else vloop (equiv f) sa sb a b (length sa) (merge a b s0)
      else (Some false, s)
  | _ => (Some false, s)
  end.
Proof.
  intros f a b s sa Hab Ha. cbn [C15_Equiv.equiv]. unfold m_or at 1. unfold m_ite, ret.
  apply Nat.eqb_neq in Hab. rewrite Hab. unfold is_pair, is_vector. rewrite Ha.
  unfold m_and at 1. destruct (nd b) as [[x' y'|sb|l]|] eqn:Hb; try reflexivity.
  unfold m_and at 1. unfold vlen, slots_of. rewrite Ha, Hb.
  destruct (Nat.eqb (length sa) (length sb)) eqn:El.
  2:{ apply Nat.eqb_neq in El. destruct (Z.eqb_spec (Z.of_nat (length sa)) (Z.of_nat (length sb))) as [E|E]; [lia | reflexivity]. }
  apply Nat.eqb_eq in El. rewrite El, Z.eqb_refl.
  unfold m_let, m_tabref, m_seq.
  pose proof (fst_get_equivs a s) as Hf. destruct (get_equivs a s) as [t s0]. cbn [fst snd] in *. subst t.
  destruct (tab_mem s0 a b); [reflexivity|].
  generalize (merge a b s0). rewrite <- El.
  (* the generated index loop against the reference loop *)
  match goal with |- forall s1, ?F (loop_fuel g a) _ s1 = _ => set (lp := F) end.
  assert (Hun : forall lf i, lp (S lf) i = m_or (fun s2 : st => (Some (i <? 0)%Z, s2))
                 (m_and (equiv f (vref g a i) (vref g b i)) (lp lf (i - 1)%Z))) by (intros; reflexivity).
  assert (Hlp : forall k lf s1, (k < lf)%nat -> (k <= length sa)%nat ->
            lp lf (Z.of_nat k - 1)%Z s1 = vloop (equiv f) sa sb a b k s1).
  { induction k as [|k IH]; intros lf s1 Hlf Hk.
    - destruct lf as [|lf]; [lia|]. rewrite Hun. reflexivity.
    - destruct lf as [|lf]; [lia|]. rewrite Hun. unfold m_or at 1.
      destruct (Z.ltb_spec (Z.of_nat (S k) - 1) 0) as [Hlt|Hge]; [lia|].
      cbn [vloop]. unfold m_and.
      unfold vref, slots_of. rewrite Ha, Hb.
      replace (Z.to_nat (Z.of_nat (S k) - 1)) with k by lia.
      replace (Z.of_nat (S k) - 1 - 1)%Z with (Z.of_nat k - 1)%Z by lia.
      destruct (equiv f (nth k sa a) (nth k sb b) s1) as [[[|]|] s2]; try reflexivity.
      apply IH; lia. }
  intros s1. apply Hlp; unfold loop_fuel, slots_of; rewrite ?Ha; lia.
Qed.

(** ------------------------------------------------------------------ the state only grows *)
Lemma vloop_mono : forall (E : nat -> nat -> M) sa sb da db,
  (forall x y s r s', E x y s = (r, s') -> mono s s') ->
  forall k s r s', vloop E sa sb da db k s = (r, s') -> mono s s'.
Proof.
  intros E sa sb da db HE. induction k as [|k IH]; intros s r s' H; cbn [vloop] in H.
  - unfold ret in H. inversion H; subst. apply mono_refl.
  - unfold m_and in H. destruct (E (nth k sa da) (nth k sb db) s) as [[[|]|] s2] eqn:E1.
    + eapply mono_trans; [eapply HE, E1 | eapply IH, H].
    + inversion H; subst. eapply HE, E1.
    + inversion H; subst. eapply HE, E1.
Qed.

Lemma mono_get_merge : forall a b s, mono s (merge a b (snd (get_equivs a s))).
Proof. intros a b s x y H. apply inR_merge. left. apply inR_get_equivs. exact H. Qed.
Lemma mono_get : forall a s, mono s (snd (get_equivs a s)).
Proof. intros a s x y H. apply inR_get_equivs. exact H. Qed.

Lemma equiv_mono : forall f a b s r s', equiv f a b s = (r, s') -> mono s s'.
Proof.
  induction f as [|f IH]; intros a b s r s' H.
  - rewrite equiv_0 in H. inversion H; subst. apply mono_refl.
  - destruct (Nat.eq_dec a b) as [->|Hab].
    { rewrite equiv_S_eq in H. inversion H; subst. apply mono_refl. }
    destruct (nd a) as [[x y|sa|l]|] eqn:Ha.
    + rewrite (equiv_S_pair f a b s x y Hab Ha) in H.
      destruct (nd b) as [[x' y'|sb|l']|]; try (inversion H; subst; apply mono_refl).
      cbn zeta in H. destruct (tab_mem (snd (get_equivs a s)) a b).
      * inversion H; subst. apply mono_get.
      * eapply mono_trans; [apply (mono_get_merge a b s)|].
        unfold m_and in H. destruct (equiv f x x' (merge a b (snd (get_equivs a s)))) as [[[|]|] s2] eqn:E1.
        -- eapply mono_trans; [eapply IH, E1 | eapply IH, H].
        -- inversion H; subst. eapply IH, E1.
        -- inversion H; subst. eapply IH, E1.
    + rewrite (equiv_S_vec f a b s sa Hab Ha) in H.
      destruct (nd b) as [[x' y'|sb|l']|]; try (inversion H; subst; apply mono_refl).
      destruct (Nat.eqb (length sa) (length sb)); [|inversion H; subst; apply mono_refl].
      cbn zeta in H. destruct (tab_mem (snd (get_equivs a s)) a b).
      * inversion H; subst. apply mono_get.
      * eapply mono_trans; [apply (mono_get_merge a b s)|].
        eapply vloop_mono; [|exact H]. intros; eapply IH; eassumption.
    + rewrite (equiv_S_leaf f a b s l Hab Ha) in H. inversion H; subst. apply mono_refl.
    + rewrite (equiv_S_none f a b s Hab Ha) in H. inversion H; subst. apply mono_refl.
Qed.

(** ------------------------------------------------------------------ SPEC facts *)
Lemma Forall2_mono : forall (R R' : nat -> nat -> Prop) l l', (forall x y, R x y -> R' x y) -> Forall2 R l l' -> Forall2 R' l l'.
Proof. intros R R' l l' H F. induction F; constructor; auto. Qed.

Lemma step_mono : forall (R R' : nat -> nat -> Prop) x y, (forall u v, R u v -> R' u v) -> step leq g R x y -> step leq g R' x y.
Proof.
  intros R R' x y H. unfold step. destruct (nd x) as [[a d|s|l]|]; destruct (nd y) as [[a' d'|s'|l']|]; try tauto.
  - intros [H1 H2]. split; auto.
  - apply Forall2_mono, H.
Qed.

Lemma bisim_step : forall x y, bisim leq g x y -> step leq g (bisim leq g) x y.
Proof.
  intros x y [R [HR Hxy]]. eapply step_mono; [|apply HR, Hxy].
  intros u v Huv. exists R. split; assumption.
Qed.

Lemma Forall2_len : forall (R : nat -> nat -> Prop) l l', Forall2 R l l' -> length l = length l'.
Proof. intros R l l' F. induction F; cbn [length]; congruence. Qed.
Lemma Forall2_nth : forall (R : nat -> nat -> Prop) l l' d d' i, Forall2 R l l' -> i < length l -> R (nth i l d) (nth i l' d').
Proof.
  intros R l l' d d' i F. revert i. induction F; intros i Hi; cbn [length] in Hi; [lia|].
  destruct i; cbn [nth]; [assumption | apply IHF; lia].
Qed.
Lemma Forall2_of_nth : forall (R : nat -> nat -> Prop) d d' l l', length l = length l' ->
  (forall i, i < length l -> R (nth i l d) (nth i l' d')) -> Forall2 R l l'.
Proof.
  intros R d d'. induction l as [|x r IH]; intros [|y r'] Hl H; cbn [length] in *; try discriminate; constructor.
  - apply (H 0). lia.
  - apply IH; [lia|]. intros i Hi. apply (H (S i)). lia.
Qed.

(** ------------------------------------------------------------------ completeness: bisimilar data are never answered #f *)
Lemma vloop_complete : forall (E : nat -> nat -> M) sa sb da db,
  (forall i, i < length sa -> forall s r s', E (nth i sa da) (nth i sb db) s = (r, s') -> r <> Some false) ->
  forall k, k <= length sa -> forall s r s', vloop E sa sb da db k s = (r, s') -> r <> Some false.
Proof.
  intros E sa sb da db HE. induction k as [|k IH]; intros Hk s r s' H; cbn [vloop] in H.
  - unfold ret in H. inversion H; subst. discriminate.
  - unfold m_and in H. destruct (E (nth k sa da) (nth k sb db) s) as [[[|]|] s2] eqn:E1.
    + eapply IH; [lia | exact H].
    + exfalso. eapply HE; [|exact E1|reflexivity]. lia.
    + inversion H; subst. discriminate.
Qed.

Lemma equiv_complete_aux : forall f a b s r s', bisim leq g a b -> equiv f a b s = (r, s') -> r <> Some false.
Proof.
  induction f as [|f IH]; intros a b s r s' HB H.
  - rewrite equiv_0 in H. inversion H; subst. discriminate.
  - destruct (Nat.eq_dec a b) as [->|Hab].
    { rewrite equiv_S_eq in H. inversion H; subst. discriminate. }
    pose proof (bisim_step a b HB) as Hs. unfold step in Hs.
    destruct (nd a) as [[x y|sa|l]|] eqn:Ha.
    + rewrite (equiv_S_pair f a b s x y Hab Ha) in H.
      destruct (nd b) as [[x' y'|sb|l']|]; try tauto. destruct Hs as [Hx Hy].
      cbn zeta in H. destruct (tab_mem (snd (get_equivs a s)) a b).
      * inversion H; subst. discriminate.
      * unfold m_and in H. destruct (equiv f x x' (merge a b (snd (get_equivs a s)))) as [[[|]|] s2] eqn:E1.
        -- eapply IH; [exact Hy | exact H].
        -- exfalso. eapply IH; [exact Hx | exact E1 | reflexivity].
        -- inversion H; subst. discriminate.
    + rewrite (equiv_S_vec f a b s sa Hab Ha) in H.
      destruct (nd b) as [[x' y'|sb|l']|]; try tauto.
      rewrite (proj2 (Nat.eqb_eq _ _) (Forall2_len _ _ _ Hs)) in H.
      cbn zeta in H. destruct (tab_mem (snd (get_equivs a s)) a b).
      * inversion H; subst. discriminate.
      * eapply vloop_complete; [| |exact H]; [|lia].
        intros i Hi s1 r1 s1' E1. eapply IH; [|exact E1]. apply Forall2_nth; assumption.
    + rewrite (equiv_S_leaf f a b s l Hab Ha) in H. inversion H; subst.
      unfold leaf_equal. rewrite Ha. destruct (nd b) as [[x' y'|sb|l']|]; try tauto. rewrite Hs. discriminate.
    + tauto.
Qed.

(** ------------------------------------------------------------------ soundness: an answer #t exhibits a bisimulation.
    base R: a pair assumed/visited (R), an identical pair (eq?), or two equal leaves; T R its transitive closure.
    [prog R x y]: x and y agree in one step, their successors being related by T R. *)
Definition base (R : nat -> nat -> Prop) (x y : nat) : Prop :=
  R x y \/ (x = y /\ x < N) \/ leaf_equal leq g x y = true.
Definition T (R : nat -> nat -> Prop) : nat -> nat -> Prop := clos_trans nat (base R).
Definition prog (R : nat -> nat -> Prop) (x y : nat) : Prop := step leq g (T R) x y.

Definition leaf_in (l : L) : Prop := In (NLeaf l) g.
Hypothesis leq_refl : forall l, leaf_in l -> leq l l = true.
Hypothesis leq_trans : forall l1 l2 l3, leaf_in l1 -> leaf_in l2 -> leaf_in l3 -> leq l1 l2 = true -> leq l2 l3 = true -> leq l1 l3 = true.
Hypothesis Hwf : wfg g.

Lemma nd_in : forall x n, nd x = Some n -> In n g.
Proof. intros x n H. eapply nth_error_In, H. Qed.
Lemma nd_lt : forall x n, nd x = Some n -> x < N.
Proof. intros x n H. apply nth_error_Some. unfold Graph.nd in H. congruence. Qed.
Lemma nd_closed : forall x n, nd x = Some n -> node_closed g n.
Proof. intros x n H. unfold wfg in Hwf. rewrite Forall_forall in Hwf. apply Hwf. eapply nd_in, H. Qed.

Lemma base_mono : forall (R R' : nat -> nat -> Prop) x y, (forall u v, R u v -> R' u v) -> base R x y -> base R' x y.
Proof. intros R R' x y H [H1|H1]; [left; auto | right; exact H1]. Qed.
Lemma T_mono : forall (R R' : nat -> nat -> Prop) x y, (forall u v, R u v -> R' u v) -> T R x y -> T R' x y.
Proof.
  intros R R' x y H HT. induction HT as [x y Hb | x y z _ IH1 _ IH2].
  - apply t_step. eapply base_mono; eassumption.
  - eapply t_trans; eassumption.
Qed.
Lemma base_T : forall (R : nat -> nat -> Prop) x y, base R x y -> T R x y.
Proof. intros. apply t_step. assumption. Qed.

Lemma Forall2_trans : forall (R : nat -> nat -> Prop) l1 l2 l3,
  (forall x y z, R x y -> R y z -> R x z) -> Forall2 R l1 l2 -> Forall2 R l2 l3 -> Forall2 R l1 l3.
Proof.
  intros R l1 l2 l3 HR F. revert l3. induction F; intros l3 F3; inversion F3; subst; constructor; eauto.
Qed.

Lemma prog_trans : forall (R : nat -> nat -> Prop) x y z, prog R x y -> prog R y z -> prog R x z.
Proof.
  intros R x y z. unfold prog, step.
  destruct (nd x) as [[a d|s|l]|] eqn:Hx; destruct (nd y) as [[a' d'|s'|l']|] eqn:Hy; try tauto;
    destruct (nd z) as [[a'' d''|s''|l'']|] eqn:Hz; try tauto.
  - intros [H1 H2] [H3 H4]. split; eapply t_trans; eassumption.
  - apply Forall2_trans. intros u v w. apply t_trans.
  - apply leq_trans; eapply nd_in; eassumption.
Qed.

Lemma prog_refl : forall (R : nat -> nat -> Prop) x, x < N -> prog R x x.
Proof.
  intros R x Hx. unfold prog, step. destruct (nd x) as [[a d|s|l]|] eqn:Hn.
  - pose proof (nd_closed x _ Hn) as [Ha Hd]. split; apply base_T; right; left; auto.
  - pose proof (nd_closed x _ Hn) as Hc. cbn [node_closed] in Hc. clear Hn.
    induction Hc as [|i r Hi Hr IHr]; constructor; [|exact IHr].
    apply base_T. right. left. auto.
  - apply leq_refl. eapply nd_in, Hn.
  - apply nth_error_None in Hn. lia.
Qed.

Lemma prog_leaf : forall (R : nat -> nat -> Prop) x y, leaf_equal leq g x y = true -> prog R x y.
Proof.
  intros R x y H. unfold prog, step. unfold leaf_equal in H.
  destruct (nd x) as [[a d|s|l]|]; try discriminate. destruct (nd y) as [[a' d'|s'|l']|]; try discriminate. exact H.
Qed.

(** if every assumed pair progresses, the closure is a bisimulation *)
Lemma T_bisimulation : forall (R : nat -> nat -> Prop), (forall x y, R x y -> prog R x y) -> bisimulation leq g (T R).
Proof.
  intros R HR x y HT. change (prog R x y). induction HT as [x y [Hb|[[-> Hlt]|Hb]] | x y z _ IH1 _ IH2].
  - apply HR, Hb.
  - apply prog_refl, Hlt.
  - apply prog_leaf, Hb.
  - eapply prog_trans; eassumption.
Qed.

Definition sound_post (a b : nat) (s s' : st) : Prop :=
  base (inR s') a b /\
  forall Rf : nat -> nat -> Prop, (forall x y, inR s' x y -> Rf x y) ->
    (forall x y, inR s x y -> prog Rf x y) -> (forall x y, inR s' x y -> prog Rf x y).

Lemma vloop_sound : forall (E : nat -> nat -> M) sa sb da db,
  (forall x y s r s', E x y s = (r, s') -> mono s s') ->
  (forall i, i < length sa -> forall s s', E (nth i sa da) (nth i sb db) s = (Some true, s') -> sound_post (nth i sa da) (nth i sb db) s s') ->
  forall k, k <= length sa -> forall s s', vloop E sa sb da db k s = (Some true, s') ->
    (forall i, i < k -> base (inR s') (nth i sa da) (nth i sb db)) /\
    forall Rf : nat -> nat -> Prop, (forall x y, inR s' x y -> Rf x y) ->
      (forall x y, inR s x y -> prog Rf x y) -> (forall x y, inR s' x y -> prog Rf x y).
Proof.
  intros E sa sb da db Hm HE. induction k as [|k IH]; intros Hk s s' H; cbn [vloop] in H.
  - unfold ret in H. inversion H; subst. split; [intros i Hi; lia | auto].
  - unfold m_and in H. destruct (E (nth k sa da) (nth k sb db) s) as [[[|]|] s2] eqn:E1; try discriminate.
    destruct (HE k ltac:(lia) s s2 E1) as [Hb1 Hp1].
    destruct (IH ltac:(lia) s2 s' H) as [Hb2 Hp2].
    pose proof (vloop_mono E sa sb da db Hm k s2 _ s' H) as Hm2.
    split.
    + intros i Hi. destruct (Nat.eq_dec i k) as [->|Hne].
      * eapply base_mono; [apply Hm2 | exact Hb1].
      * apply Hb2. lia.
    + intros Rf Hsub Hold. apply Hp2; [exact Hsub|]. apply Hp1; [|exact Hold].
      intros x y Hxy. apply Hsub, Hm2, Hxy.
Qed.

Lemma equiv_sound_aux : forall f a b s s', a < N -> b < N -> equiv f a b s = (Some true, s') -> sound_post a b s s'.
Proof.
  induction f as [|f IH]; intros a b s s' HaN HbN H.
  - rewrite equiv_0 in H. discriminate.
  - destruct (Nat.eq_dec a b) as [->|Hab].
    { rewrite equiv_S_eq in H. inversion H; subst. split; [right; left; auto | auto]. }
    destruct (nd a) as [[x y|sa|l]|] eqn:Ha.
    + rewrite (equiv_S_pair f a b s x y Hab Ha) in H.
      destruct (nd b) as [[x' y'|sb|l']|] eqn:Hb; try discriminate.
      cbn zeta in H. set (s0 := snd (get_equivs a s)) in *.
      destruct (tab_mem s0 a b) eqn:Hmem.
      * inversion H; subst s'. split; [left; exact Hmem|].
        intros Rf Hsub Hold u v Huv. apply Hold. apply inR_get_equivs in Huv. exact Huv.
      * unfold m_and in H. set (s1 := merge a b s0) in *.
        destruct (equiv f x x' s1) as [[[|]|] s2] eqn:E1; try discriminate.
        pose proof (nd_closed a _ Ha) as [Hx Hy]. pose proof (nd_closed b _ Hb) as [Hx' Hy'].
        destruct (IH x x' s1 s2 Hx Hx' E1) as [Hb1 Hp1].
        destruct (IH y y' s2 s' Hy Hy' H) as [Hb2 Hp2].
        pose proof (equiv_mono f y y' s2 _ s' H) as Hm2.
        pose proof (equiv_mono f x x' s1 _ s2 E1) as Hm1.
        split.
        -- left. apply Hm2, Hm1. apply inR_merge. right. auto.
        -- intros Rf Hsub Hold. apply Hp2; [exact Hsub|]. apply Hp1; [intros u v Huv; apply Hsub, Hm2, Huv|].
           assert (Hab_prog : prog Rf a b).
           { unfold prog, step. rewrite Ha, Hb. split.
             - apply base_T. eapply base_mono; [|exact Hb1]. intros u v Huv. apply Hsub, Hm2, Huv.
             - apply base_T. eapply base_mono; [|exact Hb2]. exact Hsub. }
           intros u v Huv. apply inR_merge in Huv. destruct Huv as [Huv|[-> [->|Hbv]]].
           ++ apply Hold. apply inR_get_equivs in Huv. exact Huv.
           ++ exact Hab_prog.
           ++ eapply prog_trans; [exact Hab_prog|]. apply Hold. apply inR_get_equivs in Hbv. exact Hbv.
    + rewrite (equiv_S_vec f a b s sa Hab Ha) in H.
      destruct (nd b) as [[x' y'|sb|l']|] eqn:Hb; try discriminate.
      destruct (Nat.eqb (length sa) (length sb)) eqn:El; [|discriminate]. apply Nat.eqb_eq in El.
      cbn zeta in H. set (s0 := snd (get_equivs a s)) in *.
      destruct (tab_mem s0 a b) eqn:Hmem.
      * inversion H; subst s'. split; [left; exact Hmem|].
        intros Rf Hsub Hold u v Huv. apply Hold. apply inR_get_equivs in Huv. exact Huv.
      * set (s1 := merge a b s0) in *.
        pose proof (nd_closed a _ Ha) as Hca. pose proof (nd_closed b _ Hb) as Hcb. cbn [node_closed] in Hca, Hcb.
        rewrite Forall_forall in Hca, Hcb.
        assert (HE : forall i, i < length sa -> forall t t', equiv f (nth i sa a) (nth i sb b) t = (Some true, t') ->
                      sound_post (nth i sa a) (nth i sb b) t t').
        { intros i Hi t t' E1. apply IH; [apply Hca, nth_In; lia | apply Hcb, nth_In; lia | exact E1]. }
        destruct (vloop_sound (equiv f) sa sb a b (fun x y t r t' => equiv_mono f x y t r t') HE (length sa) (le_n _) s1 s' H) as [Hbs Hps].
        pose proof (vloop_mono (equiv f) sa sb a b (fun x y t r t' => equiv_mono f x y t r t') (length sa) s1 _ s' H) as Hm1.
        split.
        -- left. apply Hm1. apply inR_merge. right. auto.
        -- intros Rf Hsub Hold. apply Hps; [exact Hsub|].
           assert (Hab_prog : prog Rf a b).
           { unfold prog, step. rewrite Ha, Hb. apply (Forall2_of_nth _ a b); [exact El|].
             intros i Hi. apply base_T. eapply base_mono; [|apply Hbs, Hi]. exact Hsub. }
           intros u v Huv. apply inR_merge in Huv. destruct Huv as [Huv|[-> [->|Hbv]]].
           ++ apply Hold. apply inR_get_equivs in Huv. exact Huv.
           ++ exact Hab_prog.
           ++ eapply prog_trans; [exact Hab_prog|]. apply Hold. apply inR_get_equivs in Hbv. exact Hbv.
    + rewrite (equiv_S_leaf f a b s l Hab Ha) in H. inversion H; subst. split; [right; right; assumption | auto].
    + rewrite (equiv_S_none f a b s Hab Ha) in H. discriminate.
Qed.

Theorem equiv_sound : forall f a b s', a < N -> b < N -> equiv f a b [] = (Some true, s') -> bisim leq g a b.
Proof.
  intros f a b s' Ha Hb H. destruct (equiv_sound_aux f a b [] s' Ha Hb H) as [Hbase Hp].
  exists (T (inR s')). split.
  - apply T_bisimulation. apply Hp; [auto|]. intros x y Hxy. discriminate Hxy.
  - apply base_T, Hbase.
Qed.

(** ------------------------------------------------------------------ termination: the number of pairs of nodes not yet
    in a table bounds the nesting depth of calls *)
Definition gcnt (s : st) : nat := length (filter (fun p => negb (tab_mem s (fst p) (snd p))) (all_pairs g)).

Lemma filter_len_le : forall (A : Type) (f f' : A -> bool) l, (forall p, f' p = true -> f p = true) ->
  length (filter f' l) <= length (filter f l).
Proof.
  intros A f f' l H. induction l as [|p r IH]; cbn [filter]; [lia|].
  destruct (f' p) eqn:E'; [rewrite (H p E'); cbn [length]; lia|]. destruct (f p); cbn [length]; lia.
Qed.
Lemma filter_len_lt : forall (A : Type) (f f' : A -> bool) l q, (forall p, f' p = true -> f p = true) ->
  In q l -> f q = true -> f' q = false -> length (filter f' l) < length (filter f l).
Proof.
  intros A f f' l q H. induction l as [|p r IH]; cbn [filter In]; [tauto|]. intros [->|Hin] Hf Hf'.
  - rewrite Hf, Hf'. cbn [length]. pose proof (filter_len_le A f f' r H). lia.
  - specialize (IH Hin Hf Hf'). destruct (f' p) eqn:E'; [rewrite (H p E'); cbn [length]; lia|]. destruct (f p); cbn [length]; lia.
Qed.

Lemma filter_len_all : forall (A : Type) (f : A -> bool) l, length (filter f l) <= length l.
Proof. intros A f l. induction l as [|p r IH]; cbn [filter length]; [lia|]. destruct (f p); cbn [length]; lia. Qed.

Lemma cnt_mono : forall s s', mono s s' -> gcnt s' <= gcnt s.
Proof.
  intros s s' Hm. apply filter_len_le. intros p Hp. apply negb_true_iff in Hp. apply negb_true_iff.
  destruct (tab_mem s (fst p) (snd p)) eqn:E; [|reflexivity]. rewrite (Hm _ _ E) in Hp. discriminate.
Qed.
Lemma cnt_lt : forall s s' a b, mono s s' -> a < N -> b < N -> tab_mem s a b = false -> tab_mem s' a b = true -> gcnt s' < gcnt s.
Proof.
  intros s s' a b Hm Ha Hb H0 H1. apply (filter_len_lt _ (fun p => negb (tab_mem s (fst p) (snd p))) (fun p => negb (tab_mem s' (fst p) (snd p))) _ (a, b)).
  - intros p Hp. apply negb_true_iff in Hp. apply negb_true_iff.
    destruct (tab_mem s (fst p) (snd p)) eqn:E; [|reflexivity]. rewrite (Hm _ _ E) in Hp. discriminate.
  - unfold all_pairs. apply in_prod; apply in_seq; lia.
  - cbn [fst snd]. rewrite H0. reflexivity.
  - cbn [fst snd]. rewrite H1. reflexivity.
Qed.

Lemma vloop_term : forall (E : nat -> nat -> M) sa sb da db f,
  (forall x y s r s', E x y s = (r, s') -> mono s s') ->
  (forall x y s r s', gcnt s < f -> E x y s = (r, s') -> r <> None) ->
  forall k s r s', gcnt s < f -> vloop E sa sb da db k s = (r, s') -> r <> None.
Proof.
  intros E sa sb da db f Hm HE. induction k as [|k IH]; intros s r s' Hc H; cbn [vloop] in H.
  - unfold ret in H. inversion H; subst. discriminate.
  - unfold m_and in H. destruct (E (nth k sa da) (nth k sb db) s) as [[[|]|] s2] eqn:E1.
    + eapply IH; [|exact H]. pose proof (cnt_mono s s2 (Hm _ _ _ _ _ E1)). lia.
    + inversion H; subst. discriminate.
    + exfalso. eapply HE; [exact Hc | exact E1 | reflexivity].
Qed.

Lemma merge_new : forall a b s, tab_mem (snd (get_equivs a s)) a b = false ->
  a < N -> b < N -> gcnt (merge a b (snd (get_equivs a s))) < gcnt s.
Proof.
  intros a b s Hmem Ha Hb. apply (cnt_lt s _ a b (mono_get_merge a b s) Ha Hb).
  - destruct (tab_mem s a b) eqn:E; [|reflexivity]. apply (mono_get a s) in E. unfold inR in E. congruence.
  - apply inR_merge. right. auto.
Qed.

Lemma equiv_term_aux : forall f a b s r s', gcnt s < f -> equiv f a b s = (r, s') -> r <> None.
Proof.
  induction f as [|f IH]; intros a b s r s' Hc H; [lia|].
  destruct (Nat.eq_dec a b) as [->|Hab].
  { rewrite equiv_S_eq in H. inversion H; subst. discriminate. }
  destruct (nd a) as [[x y|sa|l]|] eqn:Ha.
  - rewrite (equiv_S_pair f a b s x y Hab Ha) in H.
    destruct (nd b) as [[x' y'|sb|l']|] eqn:Hb; try (inversion H; subst; discriminate).
    cbn zeta in H. destruct (tab_mem (snd (get_equivs a s)) a b) eqn:Hmem; [inversion H; subst; discriminate|].
    pose proof (merge_new a b s Hmem (nd_lt a _ Ha) (nd_lt b _ Hb)) as Hlt.
    unfold m_and in H. destruct (equiv f x x' (merge a b (snd (get_equivs a s)))) as [[[|]|] s2] eqn:E1.
    + eapply IH; [|exact H]. pose proof (cnt_mono _ _ (equiv_mono f x x' _ _ _ E1)). lia.
    + inversion H; subst. discriminate.
    + exfalso. eapply IH; [|exact E1|reflexivity]. lia.
  - rewrite (equiv_S_vec f a b s sa Hab Ha) in H.
    destruct (nd b) as [[x' y'|sb|l']|] eqn:Hb; try (inversion H; subst; discriminate).
    destruct (Nat.eqb (length sa) (length sb)); [|inversion H; subst; discriminate].
    cbn zeta in H. destruct (tab_mem (snd (get_equivs a s)) a b) eqn:Hmem; [inversion H; subst; discriminate|].
    pose proof (merge_new a b s Hmem (nd_lt a _ Ha) (nd_lt b _ Hb)) as Hlt.
    eapply (vloop_term (equiv f) sa sb a b f); [| | |exact H].
    + intros; eapply equiv_mono; eassumption.
    + intros; eapply IH; eassumption.
    + lia.
  - rewrite (equiv_S_leaf f a b s l Hab Ha) in H. inversion H; subst. discriminate.
  - rewrite (equiv_S_none f a b s Hab Ha) in H. inversion H; subst. discriminate.
Qed.

Theorem equiv_terminates_aux : forall a b, fst (equiv (equiv_fuel g) a b []) <> None.
Proof.
  intros a b. destruct (equiv (equiv_fuel g) a b []) as [r s'] eqn:E. cbn [fst].
  eapply equiv_term_aux; [|exact E]. unfold gcnt, equiv_fuel.
  eapply Nat.le_lt_trans; [apply filter_len_all|]. unfold all_pairs. rewrite prod_length, seq_length. lia.
Qed.

End Proofs.

(** ================================================================== the theorems *)
Section Theorems.
Context {L : Type}.
Variable leq : L -> L -> bool.
Variable g : list (node L).

(** the leaves of g are compared by an equivalence-like relation: reflexive and transitive on the leaves of g *)
Definition leaves_ok : Prop :=
  (forall l, In (NLeaf l) g -> leq l l = true) /\
  (forall l1 l2 l3, In (NLeaf l1) g -> In (NLeaf l2) g -> In (NLeaf l3) g -> leq l1 l2 = true -> leq l2 l3 = true -> leq l1 l3 = true).

(** the slow path of equal? as run by equiv.scm: empty tables *)
Definition equiv_run (a b : nat) : option bool := fst (equiv leq g (equiv_fuel g) a b []).

Theorem equiv_terminates : forall a b, equiv_run a b <> None.
Proof. intros a b. apply equiv_terminates_aux. Qed.

Theorem equiv_sound_thm : forall a b, wfg g -> leaves_ok -> a < length g -> b < length g ->
  equiv_run a b = Some true -> bisim leq g a b.
Proof.
  intros a b Hwf [Hr Ht] Ha Hb H. unfold equiv_run in H.
  destruct (equiv leq g (equiv_fuel g) a b []) as [r s'] eqn:E. cbn [fst] in H. subst r.
  eapply (equiv_sound leq g Hr Ht Hwf); eassumption.
Qed.

Theorem equiv_complete_thm : forall a b, bisim leq g a b -> equiv_run a b = Some true.
Proof.
  intros a b HB. unfold equiv_run. pose proof (equiv_terminates a b) as HT. unfold equiv_run in HT.
  destruct (equiv leq g (equiv_fuel g) a b []) as [r s'] eqn:E. cbn [fst] in *.
  pose proof (equiv_complete_aux leq g _ a b [] r s' HB E) as HC.
  destruct r as [[|]|]; congruence.
Qed.

Theorem equiv_decides : forall a b, wfg g -> leaves_ok -> a < length g -> b < length g ->
  (equiv_run a b = Some true <-> bisim leq g a b) /\ (equiv_run a b = Some false <-> ~ bisim leq g a b).
Proof.
  intros a b Hwf Hl Ha Hb. split; split.
  - apply equiv_sound_thm; assumption.
  - apply equiv_complete_thm.
  - intros H HB. rewrite (equiv_complete_thm a b HB) in H. discriminate.
  - intros HN. pose proof (equiv_terminates a b) as HT.
    destruct (equiv_run a b) as [[|]|] eqn:E; try congruence.
    exfalso. apply HN. apply equiv_sound_thm; assumption.
Qed.

(** the whole (scheme base) equal?: given ANY answer of the bounded C pass that is sound in its two definite
    cases (#f only for different data, a positive remaining bound only for equal data; `res <= 0' = gave up),
    the result decides bisimilarity *)
Definition bounded_sound (res : option Z) (a b : nat) : Prop :=
  (res = None -> ~ bisim leq g a b) /\ (forall r, res = Some r -> (r > 0)%Z -> bisim leq g a b).

Theorem equal_total_correct : forall res a b, wfg g -> leaves_ok -> a < length g -> b < length g ->
  bounded_sound res a b ->
  (equal_top leq g res a b = Some true <-> bisim leq g a b) /\
  (equal_top leq g res a b = Some false <-> ~ bisim leq g a b) /\
  equal_top leq g res a b <> None.
Proof.
  intros res a b Hwf Hl Ha Hb [H1 H2]. unfold equal_top.
  destruct (equiv_decides a b Hwf Hl Ha Hb) as [Ht Hf]. fold (equiv_run a b).
  destruct res as [r|].
  - destruct (Z.gtb_spec r 0) as [Hpos|Hle].
    + specialize (H2 r eq_refl ltac:(lia)). repeat split; intros; try discriminate; try assumption; try reflexivity; tauto.
    + repeat split; try apply Ht; try apply Hf. apply equiv_terminates.
  - specialize (H1 eq_refl). repeat split; intros; try discriminate; try reflexivity; tauto.
Qed.

End Theorems.

(** non-vacuity: #0=(5 . #0#) against the two-pair circular list #1=(5 5 . #1#), and against #2=(5 6 . #2#);
    a self-containing vector differing from another one only in its LAST slot *)
Definition ex_g : list (node nat) :=
  [NPair 1 0; NLeaf 5; NPair 3 4; NLeaf 5; NPair 3 2; NPair 3 7; NLeaf 6; NPair 6 5;
   NVec [8; 1]; NVec [9; 6]].
Example ex_wf : wfg ex_g.
Proof. unfold wfg, ex_g. repeat constructor. Qed.
Example ex_leaves : leaves_ok Nat.eqb ex_g.
Proof.
  split.
  - intros l _. apply Nat.eqb_refl.
  - intros l1 l2 l3 _ _ _ H1 H2. apply Nat.eqb_eq in H1, H2. apply Nat.eqb_eq. congruence.
Qed.
Example ex_equal : equiv_run Nat.eqb ex_g 0 2 = Some true /\ equiv_run Nat.eqb ex_g 0 5 = Some false /\
                   equiv_run Nat.eqb ex_g 8 9 = Some false /\ bisim_dec Nat.eqb ex_g 0 2 = true /\ bisim_dec Nat.eqb ex_g 8 9 = false.
Proof. vm_compute. repeat split; reflexivity. Qed.
Example ex_bisim : bisim Nat.eqb ex_g 0 2 /\ ~ bisim Nat.eqb ex_g 8 9.
Proof.
  split.
  - apply (equiv_sound_thm Nat.eqb ex_g 0 2 ex_wf ex_leaves); [cbn; lia | cbn; lia | apply ex_equal].
  - apply (equiv_decides Nat.eqb ex_g 8 9 ex_wf ex_leaves); [cbn; lia | cbn; lia | apply ex_equal].
Qed.
