(** C15 — proofs about the object model (Obj.v): the abstract value of an object, bignum comparison
    is comparison of values whatever the allocated length, and the (repaired) hash_one depends on
    the abstract value only. *)
From Coq Require Import List ZArith Bool Arith Lia.
From ChibiV Require Import Common.Words Gen.C15_Consts C15.Obj.
Import ListNotations.
Local Open Scope Z_scope.

(** SPEC: what an object denotes.  Integers by value, flonums by bit pattern, strings / bytevectors
    / symbols by their own bytes, pairs and vectors structurally. *)
Inductive aval : Type :=
| AImm (w : Z) | AFlo (bits : Z) | AInt (z : Z) | ABytes (l : list Z) | AStr (l : list Z) | ASym (l : list Z)
| APair (a d : aval) | AVec (l : list aval).

Fixpoint absv (o : obj) : aval :=
  match o with
  | Imm w => AImm w
  | Flo b => AFlo b
  | Big s ws => AInt (s * val ws)
  | Byt bs => ABytes bs
  | Str st off len => AStr (str_data st off len)
  | Sym n => ASym n
  | Pair a d => APair (absv a) (absv d)
  | Vec xs => AVec (map absv xs)
  end.

(** well-formed representations: a bignum has sign 1/-1, at least one word, words < 2^64, value <> 0;
    a string's offset + size lies inside its byte store *)
Definition wf_big (s : Z) (ws : list Z) : Prop := (s = 1 \/ s = -1) /\ words ws /\ ws <> [] /\ val ws <> 0.
Fixpoint wf (o : obj) : Prop :=
  match o with
  | Big s ws => wf_big s ws
  | Str st off len => (off + len <= length st)%nat
  | Pair a d => wf a /\ wf d
  | Vec xs => fold_right (fun x P => wf x /\ P) True xs
  | _ => True
  end.

Lemma wf_vec_forall xs : wf (Vec xs) <-> Forall wf xs.
Proof.
  cbn [wf]. induction xs as [|x xs IH]; cbn [fold_right].
  - split; auto.
  - rewrite IH. split; [intros [H1 H2]; constructor; assumption | intros H; inversion H; auto].
Qed.

(* ------------------------------------------------------------------ bignums *)
Lemma val_inj_len : forall a b, words a -> words b -> length a = length b -> val a = val b -> a = b.
Proof.
  induction a as [|x a IH]; intros [|y b] Ha Hb Hl Hv; cbn [length] in Hl; try discriminate; [reflexivity|].
  inversion Ha as [|? ? Hx Ha']; inversion Hb as [|? ? Hy Hb']; subst.
  cbn [val] in Hv. unfold isword in Hx, Hy. pose proof B_pos as HB.
  assert (val a = val b) as Hv' by nia.
  assert (x = y) as -> by nia.
  f_equal. apply IH; auto.
Qed.

Lemma hi_eq_of_val a b : words a -> words b -> val a = val b -> hi a = hi b.
Proof.
  intros Ha Hb Hv.
  assert (forall x y, words x -> words y -> val x = val y -> (hi x < hi y)%nat -> False) as H.
  { intros x y Hx Hy Hxy Hlt.
    pose proof (val_lt_pow_hi x Hx) as H1.
    pose proof (val_ge_pow_hi y Hy ltac:(pose proof (hi_ge1 x); lia)) as H2.
    assert (B ^ Z.of_nat (hi x) <= B ^ Z.of_nat (hi y - 1)) as H3
      by (apply Z.pow_le_mono_r; [apply B_pos | lia]).
    lia. }
  destruct (Nat.lt_trichotomy (hi a) (hi b)) as [Hl|[He|Hl]]; [exfalso; exact (H a b Ha Hb Hv Hl) | exact He | exfalso; exact (H b a Hb Ha (eq_sym Hv) Hl)].
Qed.

Definition sig (ws : list Z) : list Z := firstn (hi ws) ws.

Lemma sig_length ws : ws <> [] -> length (sig ws) = hi ws.
Proof. intros H. unfold sig. apply firstn_length_le. apply hi_le_length. exact H. Qed.

Lemma sig_canonical a b : words a -> words b -> a <> [] -> b <> [] -> (sig a = sig b <-> val a = val b).
Proof.
  intros Ha Hb Na Nb. split.
  - intros H. rewrite <- (firstn_strip_val a Ha), <- (firstn_strip_val b Hb). unfold sig in H. rewrite H. reflexivity.
  - intros Hv. apply val_inj_len.
    + apply words_firstn. exact Ha.
    + apply words_firstn. exact Hb.
    + rewrite !sig_length by assumption. apply hi_eq_of_val; assumption.
    + unfold sig. rewrite (firstn_strip_val a Ha), (firstn_strip_val b Hb). exact Hv.
Qed.

Lemma cmp_top_zero : forall ra rb, length ra = length rb -> (cmp_top ra rb = 0 <-> ra = rb).
Proof.
  induction ra as [|x ra IH]; intros [|y rb] Hl; cbn [length] in Hl; try discriminate; cbn [cmp_top]; [tauto|].
  destruct (Z.gtb_spec x y) as [Hg|Hg].
  - split; [discriminate | intros [= -> _]; lia].
  - destruct (Z.ltb_spec x y) as [Hlt|Hlt].
    + split; [discriminate | intros [= -> _]; lia].
    + assert (x = y) as -> by lia. rewrite IH by lia. split; [intros ->; reflexivity | intros [= ->]; reflexivity].
Qed.

Lemma compare_abs_zero a b : a <> [] -> b <> [] -> (compare_abs a b = 0 <-> sig a = sig b).
Proof.
  intros Na Nb. unfold compare_abs. destruct (Nat.eqb_spec (hi a) (hi b)) as [E|E]; cbn [negb].
  - fold (sig a). fold (sig b). rewrite cmp_top_zero.
    + split; [intros H; apply (f_equal (@rev Z)) in H; rewrite !rev_involutive in H; exact H | intros ->; reflexivity].
    + rewrite !rev_length, !sig_length by assumption. exact E.
  - split; [lia|]. intros H. exfalso. apply E. rewrite <- !sig_length by assumption. rewrite H. reflexivity.
Qed.

(** sexp_bignum_compare answers 0 exactly when the two bignums denote the same integer, whatever
    their allocated lengths *)
Theorem bignum_compare_zero sa a sb b : wf_big sa a -> wf_big sb b ->
  (bignum_compare sa a sb b = 0 <-> sa * val a = sb * val b).
Proof.
  intros [Hsa [Wa [Na Za]]] [Hsb [Wb [Nb Zb]]].
  pose proof (val_nonneg a Wa) as Pa. pose proof (val_nonneg b Wb) as Pb.
  unfold bignum_compare. destruct (Z.eqb_spec sa sb) as [E|E]; cbn [negb].
  - subst sb. assert ((if sa <? 0 then - compare_abs a b else compare_abs a b) = 0 <-> compare_abs a b = 0) as ->
      by (destruct (sa <? 0); lia).
    rewrite (compare_abs_zero a b Na Nb), (sig_canonical a b Wa Wb Na Nb). destruct Hsa; subst; lia.
  - split; [destruct Hsa; lia|]. intros H. exfalso. destruct Hsa, Hsb; subst; lia.
Qed.

Lemma big_abs_eq sa a sb b : wf_big sa a -> wf_big sb b -> sa * val a = sb * val b -> sa = sb /\ sig a = sig b.
Proof.
  intros [Hsa [Wa [Na Za]]] [Hsb [Wb [Nb Zb]]] H.
  pose proof (val_nonneg a Wa) as Pa. pose proof (val_nonneg b Wb) as Pb.
  assert (sa = sb) as -> by (destruct Hsa, Hsb; subst; lia).
  split; [reflexivity|]. apply sig_canonical; auto. destruct Hsb; subst; lia.
Qed.

(* ------------------------------------------------------------------ hash depends on the abstract value only *)
Definition R (x y : obj) : Prop := wf x /\ wf y /\ absv x = absv y.

Lemma map_absv_forall2 xs ys : Forall wf xs -> Forall wf ys -> map absv xs = map absv ys -> Forall2 R xs ys.
Proof.
  revert ys. induction xs as [|x xs IH]; intros [|y ys] Hx Hy Hm; cbn [map] in Hm; try discriminate; [constructor|].
  inversion Hx as [|? ? Wx Wxs]; inversion Hy as [|? ? Wy Wys]; subst. injection Hm as Hm1 Hm2.
  constructor; [repeat split; assumption | apply IH; assumption].
Qed.

Lemma forall2_removelast {A} (P : A -> A -> Prop) xs ys : Forall2 P xs ys -> Forall2 P (removelast xs) (removelast ys).
Proof.
  induction 1 as [|x y xs ys Hxy H IH]; cbn [removelast]; [constructor|].
  destruct H; [constructor|]. constructor; [exact Hxy | exact IH].
Qed.

Lemma forall2_last {A} (P : A -> A -> Prop) xs ys d : Forall2 P xs ys -> xs <> [] -> P (last xs d) (last ys d).
Proof.
  induction 1 as [|x y xs ys Hxy H IH]; intros Hne; [congruence|].
  destruct H as [|x' y' xs' ys' Hxy' H']; [exact Hxy|].
  change (P (last (x' :: xs') d) (last (y' :: ys') d)). apply IH. discriminate.
Qed.

Lemma hash_abs : forall d a b, R a b -> forall acc, hash_loop d a acc = hash_loop d b acc.
Proof.
  induction d as [|d IH]; intros a b [Wa [Wb Hab]] acc.
  - destruct a, b; cbn [absv] in Hab; try discriminate; cbn [hash_loop tag]; try reflexivity.
    + injection Hab as ->. reflexivity.
    + injection Hab as ->. reflexivity.
  - destruct a as [w1|f1|s1 w1|b1|st1 o1 l1|n1|a1 d1|xs]; destruct b as [w2|f2|s2 w2|b2|st2 o2 l2|n2|a2 d2|ys];
      cbn [absv] in Hab; try discriminate.
    + injection Hab as ->. reflexivity.
    + injection Hab as ->. reflexivity.
    + injection Hab as Hab. cbn [wf] in Wa, Wb. destruct (big_abs_eq _ _ _ _ Wa Wb Hab) as [-> Hs].
      cbn [hash_loop slots]. unfold sig in Hs. rewrite Hs. reflexivity.
    + injection Hab as ->. reflexivity.
    + injection Hab as Hab. cbn [hash_loop slots]. rewrite Hab. reflexivity.
    + reflexivity.
    + injection Hab as H1 H2. cbn [wf] in Wa, Wb. destruct Wa as [Wa1 Wd1], Wb as [Wa2 Wd2].
      cbn [hash_loop slots removelast last fold_left].
      rewrite (IH a1 a2 (conj Wa1 (conj Wa2 H1))). apply IH. repeat split; assumption.
    + injection Hab as Hm. apply wf_vec_forall in Wa, Wb.
      pose proof (map_absv_forall2 xs ys Wa Wb Hm) as HF.
      cbn [hash_loop slots].
      destruct HF as [|x y xs' ys' Hxy HF']; [reflexivity|].
      assert (Forall2 R (x :: xs') (y :: ys')) as HF by (constructor; assumption).
      pose proof (forall2_removelast R _ _ HF) as HRl.
      pose proof (forall2_last R _ _ (Imm 0) HF ltac:(discriminate)) as HLa.
      set (F := fun (ac : Z) (p : obj) => Z.lxor (w64 (ac * FNV_PRIME)) (hash_loop d p FNV_OFFSET_BASIS)).
      assert (forall l1 l2, Forall2 R l1 l2 -> forall ac, fold_left F l1 ac = fold_left F l2 ac) as Hfold.
      { induction 1 as [|p q l1 l2 Hpq Hl IHl]; intros ac; cbn [fold_left]; [reflexivity|].
        unfold F at 2 4. rewrite (IH p q Hpq). apply IHl. }
      rewrite (Hfold _ _ HRl). apply IH. exact HLa.
Qed.

(** objects with the same abstract value have the same hash, for every bound: spare bignum words,
    string offsets and store sizes do not matter *)
Theorem hash_respects_abstract_value a b bound : wf a -> wf b -> absv a = absv b -> hash_one a bound = hash_one b bound.
Proof.
  intros Wa Wb H. unfold hash_one. rewrite (hash_abs _ a b (conj Wa (conj Wb H))). reflexivity.
Qed.

(** non-vacuity: 2^100 with and without two unused high words *)
Example hash_spare_words :
  let a := Big 1 [0; 68719476736] in let b := Big 1 [0; 68719476736; 0; 0] in
  wf a /\ wf b /\ absv a = absv b /\ hash_one a 4611686018427387903 = hash_one b 4611686018427387903.
Proof.
  cbv zeta. assert (forall s ws, (s = 1 \/ s = -1) -> forallb (fun x => (0 <=? x) && (x <? B)) ws = true -> ws <> [] -> val ws <> 0 -> wf_big s ws) as H.
  { intros s ws Hs Hw Hn Hv. repeat split; auto. apply Forall_forall. intros x Hx.
    rewrite forallb_forall in Hw. specialize (Hw x Hx). unfold isword. lia. }
  split; [apply H; [auto | reflexivity | discriminate | vm_compute; discriminate]|].
  split; [apply H; [auto | reflexivity | discriminate | vm_compute; discriminate]|].
  split; vm_compute; reflexivity.
Qed.
