(** C15 — the executable history functions of Run.v (the ones the correspondence runs against the
    implementation) ARE the generic two-table steps of Table2.v (round 4). *)
From Coq Require Import List ZArith Bool Arith.
From ChibiV Require Import C15.Table C15.Table2 C15.Run.
Import ListNotations.
Local Open Scope Z_scope.

Definition hop2 (o : hop) : @op2 nat Z :=
  match o with
  | HSet k v => PSet k v | HDel k => PDel k | HCopy => PCopy
  | HUpd k d => PUpd k Z.succ d | HKeep => PKeep | HSwap => PSwap | HNop => PNop | HUpdP k => PUpdP k Z.succ
  end.

Lemma ostep_is_tstep2 kind keys tt o :
  ostep kind keys tt o = tstep2 (hf kind keys) (ef kind keys) tt (hop2 o).
Proof. destruct tt as [t u]; destruct o; reflexivity. Qed.

Lemma mstep'_is_mstep2 cls mm o : mstep' cls mm o = mstep2 (cf cls) mm (hop2 o).
Proof. destruct mm as [m u]; destruct o; reflexivity. Qed.
