(** C15 — proofs about the pointer-level chain model of Chain.v *)
From Coq Require Import List Arith Lia Permutation Bool.
From ChibiV Require Import C15.Table C15.Chain.
Import ListNotations.

Section ChainProofs.
Context {K V : Type}.
Variable hashf : K -> nat -> nat.
Variable eqf : K -> K -> bool.

Local Notation hp := (@heap K V).

Lemma set_cdr_scar (h : hp) a p x : scar (set_cdr h a p x) = scar (h x).
Proof. unfold set_cdr, hupd. destruct (Nat.eqb_spec x a); subst; reflexivity. Qed.

Lemma set_cdr_other (h : hp) a p x : x <> a -> set_cdr h a p x = h x.
Proof. intros Hne. unfold set_cdr, hupd. destruct (Nat.eqb_spec x a); [contradiction|reflexivity]. Qed.

Lemma set_cdr_same (h : hp) a p : scdr (set_cdr h a p a) = p.
Proof. unfold set_cdr, hupd. rewrite Nat.eqb_refl. reflexivity. Qed.

Lemma is_chain_ext (h h' : hp) l : forall p, (forall a, In a l -> h' a = h a) -> is_chain h p l -> is_chain h' p l.
Proof.
  induction l as [|a r IH]; simpl; intros p Hf Hc; auto.
  destruct Hc as [-> Hc]. split; auto. rewrite Hf by auto. apply IH; auto.
Qed.

Lemma cells_ext (h h' : hp) l : (forall a, scar (h' a) = scar (h a)) -> cells h' l = cells h l.
Proof. intros Hs. unfold cells. apply map_ext. intros a; apply Hs. Qed.

Lemma F2_chain_ext (h h' : hp) l l' :
  Forall2 (is_chain h) l l' -> (forall a, In a (concat l') -> h' a = h a) -> Forall2 (is_chain h') l l'.
Proof.
  induction 1 as [|x y l l' Hxy HF IH]; intros Hf; constructor.
  - apply is_chain_ext with (h:=h); auto. intros a Ha. apply Hf. simpl. apply in_or_app; auto.
  - apply IH. intros a Ha. apply Hf. simpl. apply in_or_app; auto.
Qed.

Lemma NoDup_app_disj {A} (l1 l2 : list A) x : NoDup (l1 ++ l2) -> In x l1 -> In x l2 -> False.
Proof.
  induction l1 as [|y l1 IH]; simpl; intros Hnd Hin H2; [contradiction|].
  inversion Hnd as [|? ? Hni Hnd']; subst. destruct Hin as [->|Hin].
  - apply Hni, in_or_app; auto.
  - eauto.
Qed.

Lemma NoDup_app_rm_r {A} (l l' : list A) : NoDup (l ++ l') -> NoDup l.
Proof.
  induction l as [|x l IH]; simpl; intros H; [constructor|].
  apply NoDup_cons_iff in H. destruct H as [Hni H]. constructor; auto.
  intro; apply Hni, in_or_app; auto.
Qed.

Lemma NoDup_app_rm_l {A} (l l' : list A) : NoDup (l ++ l') -> NoDup l'.
Proof.
  induction l as [|x l IH]; simpl; intros H; auto.
  apply NoDup_cons_iff in H. destruct H as [_ H]. auto.
Qed.

Lemma F2_length {A B} (R : A -> B -> Prop) l l' : Forall2 R l l' -> length l = length l'.
Proof. induction 1; simpl; auto. Qed.

Lemma length_upd_nth {A} (f : A -> A) : forall l j, length (upd_nth j f l) = length l.
Proof. induction l as [|x l IH]; intros [|j]; simpl; auto. Qed.

Lemma step_F2 (h : hp) a nv nass : Forall2 (is_chain h) nv nass -> ~ In a (concat nass) ->
  forall j, Forall2 (is_chain (set_cdr h a (nth j nv None))) (upd_nth j (fun _ => Some a) nv) (upd_nth j (cons a) nass).
Proof.
  induction 1 as [|x y l l' Hxy HF IH]; intros Hni j.
  - destruct j; simpl; constructor.
  - simpl in Hni. assert (Hy : ~ In a y) by (intro; apply Hni, in_or_app; auto).
    assert (Hl : ~ In a (concat l')) by (intro; apply Hni, in_or_app; auto).
    destruct j as [|j]; simpl.
    + constructor.
      * simpl. split; [reflexivity|]. rewrite set_cdr_same. apply is_chain_ext with (h:=h); auto.
        intros b Hb. apply set_cdr_other. intro; subst; auto.
      * apply F2_chain_ext with (h:=h); auto. intros b Hb. apply set_cdr_other. intro; subst; auto.
    + constructor.
      * apply is_chain_ext with (h:=h); auto. intros b Hb. apply set_cdr_other. intro; subst; auto.
      * apply IH; auto.
Qed.

Lemma perm_upd_nth (a : nat) : forall (l : list (list nat)) j, j < length l ->
  Permutation (a :: concat l) (concat (upd_nth j (cons a) l)).
Proof.
  induction l as [|x l IH]; intros j Hj; simpl in Hj; [lia|]. destruct j as [|j]; simpl.
  - reflexivity.
  - transitivity (x ++ a :: concat l); [apply Permutation_middle | apply Permutation_app_head, IH; lia].
Qed.

Lemma map_cells_upd (h : hp) a : forall l j,
  map (cells h) (upd_nth j (cons a) l) = upd_nth j (cons (scar (h a))) (map (cells h) l).
Proof. induction l as [|x l IH]; intros [|j]; simpl; try reflexivity. rewrite IH; reflexivity. Qed.

Lemma get_bucket_lt n (k : K) : 0 < n -> get_bucket hashf n k < n.
Proof. intros Hn. unfold get_bucket. destruct (Nat.ltb_spec (hashf k n) n); lia. Qed.

(** T1, one chain *)
Lemma relink_chain_refines_fill (n : nat) : forall (as_ : list nat) fuel (h : hp) nv nass ls,
  0 < n -> length nass = n ->
  is_chain h ls as_ -> length as_ <= fuel -> Forall2 (is_chain h) nv nass -> NoDup (as_ ++ concat nass) ->
  exists h' nv' nass', relink_chain hashf fuel n (h,nv) ls = Some (h', nv') /\
    Forall2 (is_chain h') nv' nass' /\ length nass' = n /\
    map (cells h') nass' = fill hashf n (map (cells h) nass) (cells h as_) /\
    Permutation (as_ ++ concat nass) (concat nass') /\
    (forall a, scar (h' a) = scar (h a)) /\
    (forall a, ~ In a as_ -> h' a = h a).
Proof.
  induction as_ as [|a r IH]; intros fuel h nv nass ls Hn Hlen Hc Hfuel HF HND.
  - simpl in Hc; subst ls. exists h, nv, nass. split; [destruct fuel; reflexivity|]. simpl. repeat split; auto.
  - destruct Hc as [-> Hc]. destruct fuel as [|fuel]; [simpl in Hfuel; lia|]. simpl in Hfuel.
    simpl in HND. apply NoDup_cons_iff in HND. destruct HND as [Hnotin HND'].
    assert (Har : ~ In a r) by (intro; apply Hnotin, in_or_app; auto).
    assert (Han : ~ In a (concat nass)) by (intro; apply Hnotin, in_or_app; auto).
    set (j := get_bucket hashf n (fst (scar (h a)))).
    assert (Hj : j < length nass) by (rewrite Hlen; apply get_bucket_lt; auto).
    set (h1 := set_cdr h a (nth j nv None)).
    assert (Hfr1 : forall b, b <> a -> h1 b = h b) by (intros; apply set_cdr_other; auto).
    assert (Hs1 : forall b, scar (h1 b) = scar (h b)) by (intros; apply set_cdr_scar).
    assert (P1 : Permutation (a :: r ++ concat nass) (r ++ concat (upd_nth j (cons a) nass))).
    { transitivity (r ++ a :: concat nass); [apply Permutation_middle|apply Permutation_app_head, perm_upd_nth; auto]. }
    assert (A1 : length (upd_nth j (cons a) nass) = n) by (rewrite length_upd_nth; auto).
    assert (A2 : is_chain h1 (scdr (h a)) r).
    { apply is_chain_ext with (h:=h); auto. intros b Hb. apply Hfr1. intro; subst; auto. }
    assert (A3 : length r <= fuel) by lia.
    assert (A4 : Forall2 (is_chain h1) (upd_nth j (fun _ => Some a) nv) (upd_nth j (cons a) nass))
      by (apply step_F2; auto).
    assert (A5 : NoDup (r ++ concat (upd_nth j (cons a) nass))).
    { apply Permutation_NoDup with (l := a :: r ++ concat nass); auto. constructor; auto. }
    destruct (IH fuel h1 _ _ _ Hn A1 A2 A3 A4 A5)
      as (h' & nv' & nass' & Hrun & HF' & Hlen' & Hcells & Hperm & Hscar & Hframe).
    exists h', nv', nass'. split; [simpl; exact Hrun|].
    split; [auto|]. split; [auto|]. split.
    + rewrite Hcells. change (cells h (a :: r)) with (scar (h a) :: cells h r).
      unfold fill. simpl fold_left.
      rewrite map_cells_upd, (cells_ext h h1 r Hs1), Hs1.
      rewrite (map_ext (cells h1) (cells h)) by (intros; apply cells_ext; auto).
      reflexivity.
    + split.
      * simpl. transitivity (r ++ concat (upd_nth j (cons a) nass)); auto.
      * split.
        -- intros b. rewrite Hscar. apply Hs1.
        -- intros b Hb. rewrite Hframe.
           ++ apply Hfr1. intro; subst; apply Hb; left; auto.
           ++ intro; apply Hb; right; auto.
Qed.

Lemma relink_all_refines (n : nat) : forall (ass : list (list nat)) fuel (h : hp) ov nv nass,
  0 < n -> length nass = n ->
  Forall2 (is_chain h) ov ass -> (forall as_, In as_ ass -> length as_ <= fuel) ->
  Forall2 (is_chain h) nv nass -> NoDup (concat ass ++ concat nass) ->
  exists h' nv' nass', relink_all hashf fuel n (h,nv) ov = Some (h',nv') /\
    Forall2 (is_chain h') nv' nass' /\ length nass' = n /\
    map (cells h') nass' = fold_left (fill hashf n) (map (cells h) ass) (map (cells h) nass) /\
    Permutation (concat ass ++ concat nass) (concat nass') /\
    (forall a, scar (h' a) = scar (h a)) /\
    (forall a, ~ In a (concat ass) -> h' a = h a).
Proof.
  induction ass as [|as_ rest IH]; intros fuel h ov nv nass Hn Hlen HFo Hfuel HF HND.
  - destruct ov as [|p ov']; [|inversion HFo]. exists h, nv, nass. simpl. repeat split; auto.
  - destruct ov as [|p ov']; [inversion HFo|].
    assert (Hp : is_chain h p as_) by (inversion HFo; auto).
    assert (HFo' : Forall2 (is_chain h) ov' rest) by (inversion HFo; auto).
    simpl in HND.
    assert (P0 : Permutation ((as_ ++ concat rest) ++ concat nass) (concat rest ++ as_ ++ concat nass)).
    { rewrite <- app_assoc. apply Permutation_app_swap_app. }
    assert (HND0 : NoDup (concat rest ++ as_ ++ concat nass)) by (apply Permutation_NoDup with (1:=P0); auto).
    assert (HND1 : NoDup (as_ ++ concat nass)) by (apply NoDup_app_rm_l with (l := concat rest); auto).
    assert (HNDa : NoDup (as_ ++ concat rest)) by (apply NoDup_app_rm_r with (l' := concat nass); auto).
    destruct (relink_chain_refines_fill n as_ fuel h nv nass p Hn Hlen Hp (Hfuel as_ (or_introl eq_refl)) HF HND1)
      as (h1 & nv1 & nass1 & Hrun1 & HF1 & Hlen1 & Hcells1 & Hperm1 & Hscar1 & Hframe1).
    assert (HND2 : NoDup (concat rest ++ concat nass1)).
    { apply Permutation_NoDup with (l := concat rest ++ as_ ++ concat nass); auto.
      apply Permutation_app_head; auto. }
    assert (HFo1 : Forall2 (is_chain h1) ov' rest).
    { apply F2_chain_ext with (h:=h); auto. intros b Hb. apply Hframe1. intro Hin.
      exact (NoDup_app_disj _ _ b HNDa Hin Hb). }
    destruct (IH fuel h1 ov' nv1 nass1 Hn Hlen1 HFo1 (fun x Hx => Hfuel x (or_intror Hx)) HF1 HND2)
      as (h' & nv' & nass' & Hrun & HF' & Hlen' & Hcells & Hperm & Hscar & Hframe).
    exists h', nv', nass'. split; [simpl; rewrite Hrun1; exact Hrun|].
    split; [auto|]. split; [auto|]. split.
    + rewrite Hcells, Hcells1. simpl.
      rewrite (map_ext (cells h1) (cells h)) by (intros; apply cells_ext; auto). reflexivity.
    + split.
      * simpl. etransitivity; [exact P0|]. etransitivity; [|exact Hperm]. apply Permutation_app_head; auto.
      * split.
        -- intros b; rewrite Hscar; auto.
        -- intros b Hb. simpl in Hb. rewrite Hframe, Hframe1; auto.
           ++ intro; apply Hb, in_or_app; auto.
           ++ intro; apply Hb, in_or_app; auto.
Qed.

Lemma F2_repeat_nil (h : hp) n : Forall2 (is_chain h) (repeat None n) (repeat [] n).
Proof. induction n; simpl; constructor; simpl; auto. Qed.

Lemma concat_repeat_nil {A} n : concat (repeat (@nil A) n) = [].
Proof. induction n; simpl; auto. Qed.

Lemma map_cells_repeat_nil (h : hp) n : map (cells h) (repeat [] n) = repeat [] n.
Proof. induction n; simpl; auto. rewrite IHn; reflexivity. Qed.

Theorem regrow_relink_refines_regrow (fuel : nat) (h : heap) (ov : list ptr) (ass : list (list nat)) (bs : list (list (K*V))) :
  heap_buckets h ov ass bs ->
  (forall as_, In as_ ass -> (length as_ <= fuel)%nat) ->
  exists h' nv ass',
    regrow_relink hashf fuel h ov = Some (h', nv) /\
    heap_buckets h' nv ass' (regrow hashf bs) /\
    (forall a, In a (concat ass') <-> In a (concat ass)) /\
    (forall a, scar (h' a) = scar (h a)) /\
    (forall a, ~ In a (concat ass) -> h' a = h a).
Proof.
  intros (HF & HND & ->) Hfuel.
  assert (HL : length ov = length ass) by (eapply F2_length; eauto).
  unfold regrow_relink, regrow. rewrite map_length, <- HL.
  remember (2 * length ov) as n eqn:En.
  destruct (Nat.eq_dec (length ov) 0) as [Hz|Hnz].
  - apply length_zero_iff_nil in Hz. subst ov. inversion HF; subst. simpl.
    exists h, [], []. split; [reflexivity|]. split.
    + unfold heap_buckets. simpl. repeat split; constructor.
    + repeat split; auto.
  - assert (Hn : 0 < n) by lia.
    assert (HND' : NoDup (concat ass ++ concat (repeat [] n))).
    { rewrite concat_repeat_nil, app_nil_r; auto. }
    destruct (relink_all_refines n ass fuel h ov (repeat None n) (repeat [] n) Hn (repeat_length _ _) HF Hfuel
                (F2_repeat_nil h n) HND')
      as (h' & nv' & nass' & Hrun & HF' & Hlen' & Hcells & Hperm & Hscar & Hframe).
    rewrite concat_repeat_nil, app_nil_r in Hperm.
    rewrite map_cells_repeat_nil in Hcells.
    exists h', nv', nass'. split; [exact Hrun|]. split.
    + unfold heap_buckets. split; [auto|]. split; [|symmetry; exact Hcells].
      apply Permutation_NoDup with (1:=Hperm); auto.
    + split; [|split; auto].
      intros a. split; intro Hin.
      * apply Permutation_in with (1 := Permutation_sym Hperm); auto.
      * apply Permutation_in with (1 := Hperm); auto.
Qed.

(** T2 *)
Lemma scan_spec : forall (as_ : list nat) fuel (h : hp) p k, is_chain h p as_ -> length as_ <= fuel ->
  (scan eqf fuel h p k = Some None /\ brem eqf (cells h as_) k = cells h as_) \/
  (exists pre res post, as_ = pre ++ res :: post /\ scan eqf fuel h p k = Some (Some res) /\
     brem eqf (cells h as_) k = cells h (pre ++ post)).
Proof.
  induction as_ as [|a r IH]; intros fuel h p k Hc Hfuel.
  - simpl in Hc; subst p. left. split; [destruct fuel; reflexivity|reflexivity].
  - destruct Hc as [-> Hc]. destruct fuel as [|fuel]; [simpl in Hfuel; lia|]. simpl in Hfuel.
    change (cells h (a :: r)) with (scar (h a) :: cells h r).
    simpl scan. destruct (scar (h a)) as [k0 v0] eqn:E. simpl.
    destruct (eqf k0 k) eqn:Ek.
    + right. exists [], a, r. simpl. repeat split; auto.
    + destruct (IH fuel h (scdr (h a)) k Hc ltac:(lia)) as [[Hs Hb]|(pre & res & post & -> & Hs & Hb)].
      * left. split; auto. rewrite Hb; reflexivity.
      * right. exists (a :: pre), res, post. split; [reflexivity|]. split; auto.
        rewrite Hb. simpl. unfold cells at 2. simpl. rewrite E. reflexivity.
Qed.

Lemma splice_spec : forall (pre : list nat) a0 fuel (h : hp) res post,
  is_chain h (Some a0) ((a0 :: pre) ++ res :: post) -> NoDup ((a0 :: pre) ++ res :: post) ->
  length ((a0 :: pre) ++ res :: post) <= fuel ->
  exists h', splice fuel h a0 res = Some h' /\
    is_chain h' (Some a0) ((a0 :: pre) ++ post) /\
    (forall a, scar (h' a) = scar (h a)) /\
    (forall a, ~ In a (a0 :: pre) -> h' a = h a).
Proof.
  induction pre as [|a1 pre IH]; intros a0 fuel h res post Hc Hnd Hfuel.
  - simpl in *. destruct Hc as (_ & Hres & Hpost).
    destruct fuel as [|fuel]; [lia|]. simpl. rewrite Hres, Nat.eqb_refl.
    inversion Hnd as [|? ? Hni Hnd']; subst.
    exists (set_cdr h a0 (scdr (h res))). split; [reflexivity|]. split.
    + split; [reflexivity|]. rewrite set_cdr_same. apply is_chain_ext with (h:=h); auto.
      intros b Hb. apply set_cdr_other. intro; subst. apply Hni; right; auto.
    + split.
      * intros; apply set_cdr_scar.
      * intros b Hb. apply set_cdr_other. intro; subst; apply Hb; auto.
  - destruct Hc as (_ & Hc). assert (Hc' := Hc). simpl in Hc. destruct Hc as (Ha1 & _).
    destruct fuel as [|fuel]; [simpl in Hfuel; lia|]. simpl in Hfuel.
    inversion Hnd as [|? ? Hni Hnd']; subst.
    assert (Hne : a1 <> res).
    { intro; subst. simpl in Hnd'. inversion Hnd' as [|? ? Hni' _]; subst. apply Hni', in_or_app; right; left; auto. }
    rewrite Ha1 in Hc'. simpl splice. rewrite Ha1. destruct (Nat.eqb_spec a1 res) as [|_]; [contradiction|].
    destruct (IH a1 fuel h res post Hc' Hnd' ltac:(simpl in *; lia)) as (h' & Hrun & Hch & Hscar & Hframe).
    exists h'. split; [exact Hrun|]. split.
    + simpl. split; [reflexivity|]. rewrite Hframe.
      * rewrite Ha1. exact Hch.
      * intro Hin. apply Hni. simpl. simpl in Hin. destruct Hin as [->|Hin]; [left; auto|right; apply in_or_app; auto].
    + split; auto. intros b Hb. apply Hframe. intro Hin; apply Hb; right; auto.
Qed.

Theorem chain_delete_refines_brem (fuel : nat) (h : @heap K V) (head : ptr) (as_ : list nat) (k : K) :
  is_chain h head as_ -> NoDup as_ -> (length as_ <= fuel)%nat ->
  exists h' head' as',
    chain_delete eqf fuel h head k = Some (h', head') /\
    is_chain h' head' as' /\ NoDup as' /\
    cells h' as' = brem eqf (cells h as_) k /\
    (forall a, In a as' -> In a as_) /\
    (forall a, scar (h' a) = scar (h a)) /\
    (forall a, ~ In a as_ -> h' a = h a).
Proof.
  intros Hc Hnd Hfuel. unfold chain_delete.
  destruct (scan_spec as_ fuel h head k Hc Hfuel) as [[Hs Hb]|(pre & res & post & -> & Hs & Hb)]; rewrite Hs.
  - exists h, head, as_. repeat split; auto.
  - destruct pre as [|a0 pre].
    + simpl in *. destruct Hc as (-> & Hc). rewrite Nat.eqb_refl.
      inversion Hnd; subst.
      exists h, (scdr (h res)), post. repeat split; auto.
    + destruct Hc as (-> & Hc).
      assert (Hne : res <> a0).
      { intro; subst. inversion Hnd as [|? ? Hni _]; subst. apply Hni, in_or_app; right; left; auto. }
      destruct (Nat.eqb_spec res a0) as [|_]; [contradiction|].
      destruct (splice_spec pre a0 fuel h res post (conj eq_refl Hc) Hnd Hfuel) as (h' & Hrun & Hch & Hscar & Hframe).
      rewrite Hrun. exists h', (Some a0), ((a0 :: pre) ++ post).
      split; [reflexivity|]. split; [exact Hch|]. split.
      * apply NoDup_remove_1 with (a := res). exact Hnd.
      * split; [rewrite Hb; apply cells_ext; auto|]. split.
        -- intros a Hin. apply in_app_or in Hin. apply in_or_app. destruct Hin; [left; auto|right; right; auto].
        -- split; auto. intros a Ha. apply Hframe. intro Hin. apply Ha, in_or_app; left; auto.
Qed.

End ChainProofs.

(** T3: concrete runs *)
Definition ex_hash (k n : nat) : nat := Nat.modulo k n.
Definition ex_heap : @heap nat nat :=
  fun a => match a with
           | 0 => Sp (1,10) (Some 1)
           | 1 => Sp (47,11) (Some 2)
           | 2 => Sp (93,12) None
           | _ => Sp (0,0) None
           end.
Definition ex_ov : list ptr := None :: Some 0 :: repeat None 21.

Example ex_relink_ok :
  match regrow_relink ex_hash 10 ex_heap ex_ov with
  | Some (h', nv) => (length nv, read 10 h' (nth 1 nv None))
  | None => (0, None)
  end = (46, Some [(93,12);(47,11);(1,10)]).
Proof. vm_compute. reflexivity. Qed.

Example ex_relink_ok_functional :
  nth 1 (regrow ex_hash ([] :: [(1,10);(47,11);(93,12)] :: repeat [] 21)) [] = [(93,12);(47,11);(1,10)].
Proof. vm_compute. reflexivity. Qed.

Example ex_noclear_cycle :
  match relink_chain_noclear ex_hash 10 46 (ex_heap, repeat None 46) (Some 0) with
  | Some (h', nv) => Some (read 100 h' (nth 1 nv None))
  | None => None
  end = Some None.
Proof. vm_compute. reflexivity. Qed.

Example ex_droplast_loses :
  match relink_chain_droplast ex_hash true 10 46 (ex_heap, repeat None 46) (Some 0) with
  | Some (h', nv) => Some (read 100 h' (nth 1 nv None))
  | None => None
  end = Some (Some [(47,11);(1,10)]).
Proof. vm_compute. reflexivity. Qed.

Print Assumptions regrow_relink_refines_regrow.
Print Assumptions chain_delete_refines_brem.
