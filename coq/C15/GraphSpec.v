(** C15 — the decision procedure [bisim_dec] of Graph.v (used as the oracle of the correspondence runs)
    decides the SPEC [bisim] on every finite graph. *)
From Coq Require Import List ZArith Bool Arith Lia.
From ChibiV Require Import C15.Graph.
Import ListNotations.

Section Spec.
Context {L : Type}.
Variable leq : L -> L -> bool.
Variable g : list (node L).
Notation nd := (nd g).

Lemma memp_In : forall p l, memp p l = true <-> In p l.
Proof.
  intros [x y] l. induction l as [|[u v] r IH]; cbn [memp In fst snd].
  - split; [discriminate | tauto].
  - rewrite orb_true_iff, andb_true_iff, !Nat.eqb_eq, IH. split.
    + intros [[-> ->]|H]; auto.
    + intros [H|H]; [inversion H; auto | auto].
Qed.

Lemma all2b_Forall2 : forall (Rb : nat -> nat -> bool) s s', all2b Rb s s' = true <-> Forall2 (fun u v => Rb u v = true) s s'.
Proof.
  induction s as [|x r IH]; intros [|y r']; cbn [all2b]; split; intros H; try discriminate; try constructor; try (inversion H; fail).
  - apply andb_true_iff in H. tauto.
  - apply andb_true_iff in H. apply IH. tauto.
  - inversion H; subst. apply andb_true_iff. split; [assumption | apply IH; assumption].
Qed.

Lemma stepb_step : forall (Rb : nat -> nat -> bool) x y, stepb leq g Rb x y = true <-> step leq g (fun u v => Rb u v = true) x y.
Proof.
  intros Rb x y. unfold stepb, step.
  destruct (nd x) as [[a d|s|l]|]; destruct (nd y) as [[a' d'|s'|l']|]; try (split; [discriminate | tauto]).
  - apply andb_true_iff.
  - apply all2b_Forall2.
  - tauto.
Qed.

Lemma Forall2_mono' : forall (R R' : nat -> nat -> Prop) l l', (forall x y, R x y -> R' x y) -> Forall2 R l l' -> Forall2 R' l l'.
Proof. intros R R' l l' H F. induction F; constructor; auto. Qed.
Lemma step_mono' : forall (R R' : nat -> nat -> Prop) x y, (forall u v, R u v -> R' u v) -> step leq g R x y -> step leq g R' x y.
Proof.
  intros R R' x y H. unfold step. destruct (nd x) as [[a d|s|l]|]; destruct (nd y) as [[a' d'|s'|l']|]; try tauto.
  - intros [H1 H2]. split; auto.
  - apply Forall2_mono', H.
Qed.

Lemma filter_len_lt_or_all : forall (A : Type) (f : A -> bool) l,
  (length (filter f l) = length l /\ forall p, In p l -> f p = true) \/ length (filter f l) < length l.
Proof.
  intros A f l. induction l as [|p r IH]; cbn [filter length In].
  - left. split; [reflexivity | tauto].
  - destruct (f p) eqn:E; cbn [length].
    + destruct IH as [[H1 H2]|H]; [left | right; lia]. split; [lia|]. intros q [->|Hq]; auto.
    + right. destruct IH as [[H1 H2]|H]; lia.
Qed.

(** the result of gfp is stable under one more refinement *)
Lemma gfp_stable : forall n S, length S <= n -> forall p, In p (gfp leq g n S) ->
  stepb leq g (fun u v => memp (u, v) (gfp leq g n S)) (fst p) (snd p) = true.
Proof.
  induction n as [|n IH]; intros S Hn p Hp; cbn [gfp] in *.
  - destruct S; [destruct Hp | cbn [length] in Hn; lia].
  - destruct (Nat.eqb (length (refine leq g S)) (length S)) eqn:E.
    + apply Nat.eqb_eq in E. unfold refine in E.
      destruct (filter_len_lt_or_all _ (fun p => stepb leq g (fun u v => memp (u, v) S) (fst p) (snd p)) S) as [[_ H]|H]; [|lia].
      apply H, Hp.
    + apply Nat.eqb_neq in E. apply IH; [|exact Hp]. unfold refine in *.
      destruct (filter_len_lt_or_all _ (fun p => stepb leq g (fun u v => memp (u, v) S) (fst p) (snd p)) S) as [[H _]|H]; lia.
Qed.

Lemma gfp_keeps : forall (R : nat -> nat -> Prop), bisimulation leq g R ->
  forall n S, (forall x y, R x y -> In (x, y) S) -> forall x y, R x y -> In (x, y) (gfp leq g n S).
Proof.
  intros R HR. induction n as [|n IH]; intros S HS x y Hxy; cbn [gfp]; [auto|].
  destruct (Nat.eqb (length (refine leq g S)) (length S)); [auto|].
  apply IH; [|exact Hxy]. intros u v Huv. unfold refine. apply filter_In. split; [auto|]. cbn [fst snd].
  apply stepb_step. eapply step_mono'; [|apply HR, Huv]. intros u' v' H'. apply memp_In. auto.
Qed.

Theorem bisim_dec_correct : forall x y, bisim_dec leq g x y = true <-> bisim leq g x y.
Proof.
  intros x y. unfold bisim_dec. split.
  - intros H. exists (fun u v => memp (u, v) (gfp leq g (length (all_pairs g)) (all_pairs g)) = true). split; [|exact H].
    intros u v Huv. apply stepb_step. apply memp_In in Huv.
    apply (gfp_stable (length (all_pairs g)) (all_pairs g) (le_n _) (u, v) Huv).
  - intros [R [HR Hxy]]. apply memp_In. apply (gfp_keeps R HR); [|exact Hxy].
    intros u v Huv. unfold all_pairs. apply HR in Huv. unfold step in Huv.
    destruct (nd u) as [nu|] eqn:Eu; [|destruct Huv].
    destruct (nd v) as [nv|] eqn:Ev; [|destruct nu; destruct Huv].
    apply in_prod; apply in_seq; split; try lia; cbn; apply nth_error_Some; unfold Graph.nd in *; congruence.
Qed.
End Spec.
