(** C15 — soundness of the DEFINITE answers of sexp_equalp_bound for ANY depth / bound / fuel (round 3).

    Beyond its limits the bounded pass answers "unknown" by returning the remaining bound.  At the
    depth cut-off (sexp.c `if (bound < 0 || depth < 0) return bound;') that bound may still be
    POSITIVE, which callers read as "equal": for bound > depth the answer is wrong
    ([depth_cutoff_unsound]: the core `equal?' primitive, depth 10000 / bound 10^8).  Whenever
    bound <= depth at the call, the invariant is kept by every recursive call (each nesting level
    costs at least one unit of bound), so depth < 0 implies bound < 0 and:
      #f              only for different abstract values,
      a bound >= 0    only for equal abstract values,
    whatever the size or depth of the data ([equal_bound_sound]).  (scheme base) equal? calls
    (equal?/bounded a b D B) with the regenerated D = B (Properties_C15.slow_path_limits_sound). *)
From Coq Require Import List ZArith Bool Arith Lia.
From ChibiV Require Import Common.Words Gen.C15_Consts C15.Obj C15.ObjProofs C15.ObjEqual.
Import ListNotations.
Local Open Scope Z_scope.

Definition sres (eq : bool) (bd : Z) (r : eres) : Prop :=
  match r with
  | EFalse => eq = false
  | EBound b' => b' <= bd /\ (0 <= b' -> eq = true)
  | EFuel => True
  end.

Definition Hs (eqf : obj -> obj -> Z -> Z -> eres) : Prop :=
  forall x y d bd, wf x -> wf y -> bd <= d -> sres (aeqb x y) bd (eqf x y d bd).

Lemma loop_sound eqf d2 : Hs eqf -> forall ps qs bd,
  Forall wf ps -> Forall wf qs -> length ps = length qs -> bd <= d2 ->
  sres (forall2b aeqb ps qs) bd (slot_loop eqf d2 ps qs bd).
Proof.
  intros HR. induction ps as [|p ps IH]; intros [|q qs] bd Wp Wq Hl Hb; cbn [length] in Hl; try discriminate.
  - cbn. split; [lia | reflexivity].
  - inversion Wp as [|? ? Wp1 Wps]; inversion Wq as [|? ? Wq1 Wqs]; subst.
    cbn [slot_loop forall2b].
    pose proof (HR p q d2 bd Wp1 Wq1 Hb) as H1.
    destruct (eqf p q d2 bd) as [|b1|]; cbn [sres] in *.
    + rewrite H1. reflexivity.
    + destruct H1 as [Hle Heq].
      specialize (IH qs b1 Wps Wqs ltac:(lia) ltac:(lia)).
      destruct (slot_loop eqf d2 ps qs b1) as [|b'|]; cbn [sres] in *.
      * rewrite IH. apply andb_false_r.
      * destruct IH as [Hle' Heq']. split; [lia|]. intros H0. rewrite Heq by lia. rewrite Heq' by lia. reflexivity.
      * exact I.
    + exact I.
Qed.

Lemma slots_cmp_sound eqf sa sb depth bound1 : Hs eqf ->
  Forall wf sa -> Forall wf sb -> length sa = length sb -> bound1 <= depth - 1 ->
  sres (forall2b aeqb sa sb) bound1 (slots_cmp eqf sa sb depth bound1).
Proof.
  intros HR Wa Wb Hl Hb. unfold slots_cmp.
  destruct sa as [|a0 sa0] eqn:Esa.
  { destruct sb; [|discriminate]. cbn. split; [lia | reflexivity]. }
  rewrite <- Esa in *.
  assert (0 < length sa)%nat as Hn by (rewrite Esa; cbn; lia).
  pose proof (tscan_spec sa sb (length sa)) as HT.
  pose proof (forall2b_nth aeqb sa sb Hl) as HN.
  destruct (tscan sa sb (length sa)) as [len|].
  2:{ destruct HT as [i [Hi Hfalse]]. cbn [sres]. apply bool_false_by_contra.
      intros Ht. rewrite (proj1 HN Ht i Hi) in Hfalse. discriminate. }
  destruct HT as [[[H0 _]|Hlen] Hsuf]; [lia|].
  set (P := firstn (len - 1) sa). set (Q := firstn (len - 1) sb).
  set (x := nth (len - 1) sa (Imm 0)). set (y := nth (len - 1) sb (Imm 0)).
  assert (len - 1 < length sa)%nat as Hk by lia.
  assert (Forall wf P) as WP by (apply Forall_forall; intros z Hz; rewrite Forall_forall in Wa; apply Wa; eapply In_firstn_aux; exact Hz).
  assert (Forall wf Q) as WQ by (apply Forall_forall; intros z Hz; rewrite Forall_forall in Wb; apply Wb; eapply In_firstn_aux; exact Hz).
  assert (length P = length Q) as HlPQ by (unfold P, Q; rewrite !firstn_length; lia).
  assert (length P = (len - 1)%nat) as HlP by (unfold P; rewrite firstn_length; lia).
  pose proof (loop_sound eqf (depth - 1) HR P Q bound1 WP WQ HlPQ Hb) as HL.
  assert (forall2b aeqb P Q = true <-> forall i, (i < len - 1)%nat -> aeqb (nth i sa (Imm 0)) (nth i sb (Imm 0)) = true) as HPQ.
  { rewrite (forall2b_nth aeqb P Q HlPQ), HlP. split; intros H i Hi; specialize (H i Hi); unfold P, Q in *;
      rewrite !nth_firstn_lt in * by exact Hi; exact H. }
  destruct (slot_loop eqf (depth - 1) P Q bound1) as [|b1|]; cbn [sres] in HL.
  - cbn [sres]. apply bool_false_by_contra. intros Ht.
    assert (forall2b aeqb P Q = true) as Hc; [|congruence].
    apply HPQ. intros i Hi. apply (proj1 HN Ht). lia.
  - destruct HL as [Hle1 Heq1].
    assert (wf x) as Wx by (rewrite Forall_forall in Wa; apply Wa; apply nth_In; exact Hk).
    assert (wf y) as Wy by (rewrite Forall_forall in Wb; apply Wb; apply nth_In; lia).
    pose proof (HR x y depth b1 Wx Wy ltac:(lia)) as HX.
    destruct (eqf x y depth b1) as [|b'|]; cbn [sres] in *.
    + apply bool_false_by_contra. intros Ht.
      pose proof (proj1 HN Ht (len - 1)%nat Hk) as Hc. fold x y in Hc. congruence.
    + destruct HX as [Hle' Heq']. split; [lia|]. intros H0.
      apply HN. intros i Hi. destruct (Nat.lt_trichotomy i (len - 1)) as [Hlt|[->|Hgt]].
      * apply (proj1 HPQ (Heq1 ltac:(lia))). exact Hlt.
      * apply Heq'. exact H0.
      * apply Hsuf. lia.
    + exact I.
  - exact I.
Qed.

Lemma sres_leaf (e : bool) bd : sres e bd (if e then EBound bd else EFalse).
Proof. destruct e; cbn [sres]; [split; [lia | reflexivity] | reflexivity]. Qed.

Lemma equal_bound_sound_rec : forall fuel, Hs (equal_bound fuel).
Proof.
  induction fuel as [|f IH]; intros x y d bd Wx Wy Hb.
  - exact I.
  - cbn [equal_bound].
    destruct (same_word x y) eqn:Es.
    { rewrite (same_word_aeqb x y Es). cbn [sres]. split; [lia | reflexivity]. }
    destruct (mismatch x y) eqn:Em.
    { rewrite (mismatch_aeqb x y Es Em). reflexivity. }
    pose proof (no_mismatch_same_shape x y Em) as Hshape.
    assert (forall e : bool, ((bd <? 0) || (d <? 0) = true -> sres e bd (EBound bd))) as Hcut.
    { intros e Hlim. cbn [sres]. split; [lia|]. intros H0. exfalso.
      apply orb_true_iff in Hlim. destruct Hlim as [H|H]; apply Z.ltb_lt in H; lia. }
    destruct x as [w1|f1|s1 w1|b1|st1 o1 l1|n1|a1 d1|xs]; destruct y as [w2|f2|s2 w2|b2|st2 o2 l2|n2|a2 d2|ys];
      try (exfalso; exact Hshape); clear Hshape.
    + (* flonums *) cbn [aeqb]. apply sres_leaf.
    + (* bignums *) cbn [aeqb]. cbn [wf] in Wx, Wy.
      pose proof (bignum_compare_zero s1 w1 s2 w2 Wx Wy) as HB.
      assert ((bignum_compare s1 w1 s2 w2 =? 0) = (s1 * val w1 =? s2 * val w2)) as ->.
      { destruct (Z.eqb_spec (bignum_compare s1 w1 s2 w2) 0) as [E|E]; destruct (Z.eqb_spec (s1 * val w1) (s2 * val w2)) as [E'|E'];
          try reflexivity; exfalso; tauto. }
      apply sres_leaf.
    + (* bytevectors *) destruct ((bd <? 0) || (d <? 0)) eqn:Hlim; [apply Hcut; reflexivity|].
      cbn [raw_eq aeqb slots slots_cmp].
      destruct (list_eqb b1 b2); cbn [negb sres]; [split; [lia | reflexivity] | reflexivity].
    + (* strings *) cbn [aeqb]. cbn [wf] in Wx, Wy.
      assert (((l1 =? l2)%nat && list_eqb (str_data st1 o1 l1) (str_data st2 o2 l2)) = list_eqb (str_data st1 o1 l1) (str_data st2 o2 l2)) as ->.
      { destruct (list_eqb (str_data st1 o1 l1) (str_data st2 o2 l2)) eqn:E; [|apply andb_false_r].
        apply list_eqb_eq in E. apply (f_equal (@length Z)) in E. rewrite !str_data_length in E by assumption.
        subst. rewrite Nat.eqb_refl. reflexivity. }
      apply sres_leaf.
    + (* symbols *) destruct ((bd <? 0) || (d <? 0)) eqn:Hlim; [apply Hcut; reflexivity|].
      cbn [raw_eq aeqb slots slots_cmp].
      destruct (list_eqb n1 n2); cbn [negb sres]; [split; [lia | reflexivity] | reflexivity].
    + (* pairs *) destruct ((bd <? 0) || (d <? 0)) eqn:Hlim; [apply Hcut; reflexivity|].
      cbn [raw_eq negb slots]. cbn [wf] in Wx, Wy. destruct Wx as [Wa1 Wd1], Wy as [Wa2 Wd2].
      pose proof (slots_cmp_sound (equal_bound f) [a1; d1] [a2; d2] d (bd - 1) IH
                    ltac:(repeat constructor; assumption) ltac:(repeat constructor; assumption) eq_refl ltac:(lia)) as HS.
      cbn [forall2b aeqb] in *. rewrite andb_true_r in HS.
      destruct (slots_cmp (equal_bound f) [a1; d1] [a2; d2] d (bd - 1)) as [|b'|]; cbn [sres] in *;
        [exact HS | destruct HS as [H1 H2]; split; [lia | exact H2] | exact I].
    + (* vectors *) destruct ((bd <? 0) || (d <? 0)) eqn:Hlim; [apply Hcut; reflexivity|].
      cbn [raw_eq slots aeqb].
      destruct (Nat.eqb_spec (length xs) (length ys)) as [El|El]; cbn [negb].
      2:{ cbn [sres]. apply bool_false_by_contra. intros Ht. apply El. apply forall2b_length in Ht. exact Ht. }
      apply wf_vec_forall in Wx, Wy.
      pose proof (slots_cmp_sound (equal_bound f) xs ys d (bd - 1) IH Wx Wy El ltac:(lia)) as HS.
      destruct (slots_cmp (equal_bound f) xs ys d (bd - 1)) as [|b'|]; cbn [sres] in *;
        [exact HS | destruct HS as [H1 H2]; split; [lia | exact H2] | exact I].
Qed.

(** The definite answers of sexp_equalp_bound are sound for data of ANY size and depth, and for any
    fuel of the model, provided bound <= depth at the call. *)
Theorem equal_bound_sound a b fuel depth bound : wf a -> wf b -> bound <= depth ->
  (equal_bound fuel a b depth bound = EFalse -> absv a <> absv b) /\
  (forall r, equal_bound fuel a b depth bound = EBound r -> 0 <= r -> absv a = absv b).
Proof.
  intros Wa Wb Hb. pose proof (equal_bound_sound_rec fuel a b depth bound Wa Wb Hb) as H.
  split.
  - intros E. rewrite E in H. cbn [sres] in H. intros He. apply aeqb_iff_absv in He. congruence.
  - intros r E H0. rewrite E in H. cbn [sres] in H. apply aeqb_iff_absv. apply H. exact H0.
Qed.

(** ... and NOT when bound > depth: at the depth cut-off the remaining (positive) bound is returned.
    Depth 0, bound 10: ((3 . 1) 1 . 1) against ((5 . 1) 1 . 1) — the cars are compared at depth -1. *)
Theorem depth_cutoff_unsound :
  exists a b depth bound r, wf a /\ wf b /\ depth < bound /\
    equal_bounded a b depth bound = EBound r /\ 0 < r /\ absv a <> absv b.
Proof.
  exists (Pair (Pair (Imm 13) (Imm 5)) (Pair (Imm 5) (Imm 5))), (Pair (Pair (Imm 21) (Imm 5)) (Pair (Imm 5) (Imm 5))), 0, 10, 8.
  repeat split; try (vm_compute; congruence); try lia.
Qed.

(** (scheme base) equal? = (equal?/bounded a b D B) with the D, B REGENERATED from lib/chibi/equiv.scm:
    B <= D, so its definite answers are sound on trees of any size and depth (this is the content
    of the hypothesis `bounded_sound' of GraphProofs.equal_total_correct for unshared data). *)
From ChibiV Require Gen.C15_Equiv.
Theorem slow_path_bounded_pass_sound a b : wf a -> wf b ->
  (equal_bounded a b C15_Equiv.SLOW_DEPTH C15_Equiv.SLOW_BOUND = EFalse -> absv a <> absv b) /\
  (forall r, equal_bounded a b C15_Equiv.SLOW_DEPTH C15_Equiv.SLOW_BOUND = EBound r -> 0 < r -> absv a = absv b).
Proof.
  intros Wa Wb. assert (C15_Equiv.SLOW_BOUND <= C15_Equiv.SLOW_DEPTH) as Hle by (vm_compute; discriminate).
  destruct (equal_bound_sound a b (S (osize a + osize b)) _ _ Wa Wb Hle) as [H1 H2].
  split; [exact H1 | intros r E Hr; apply (H2 r E); lia].
Qed.
