(** C15 — executable glue for the POINTER-LEVEL correspondence of the bucket chains (round 4): the real
    spine pairs of a (srfi 69) table are numbered by identity (bucket by bucket, front to back = [lay]),
    an operation is performed, and the chains are read again; the extracted [chain_delete] /
    [regrow_relink] / [regrow] must predict, address by address, what the C code did.  NO proofs here. *)
From Coq Require Import List ZArith Bool Arith.
From ChibiV Require Import C15.Table C15.Chain C15.Run.
Import ListNotations.
Local Open Scope Z_scope.

Definition heap_of (l : list (@spine nat Z)) : @heap nat Z := fun a => nth a l (Sp (O, 0) None).

Fixpoint lay_chain (base : nat) (cs : list (nat * Z)) : list (@spine nat Z) :=
  match cs with
  | [] => []
  | c :: r => Sp c (match r with [] => None | _ => Some (S base) end) :: lay_chain (S base) r
  end.
Fixpoint lay (base : nat) (bs : list (list (nat * Z))) : list (@spine nat Z) * list ptr :=
  match bs with
  | [] => ([], [])
  | b :: r => let '(sp, hd) := lay (base + length b) r in
              (lay_chain base b ++ sp, (match b with [] => None | _ => Some base end) :: hd)
  end.

(** addresses of a chain, front to back *)
Fixpoint addrs (fuel : nat) (h : @heap nat Z) (p : ptr) : option (list nat) :=
  match p with
  | None => Some []
  | Some a => match fuel with
              | O => None
              | S f => match addrs f h (scdr (h a)) with Some l => Some (a :: l) | None => None end
              end
  end.
Fixpoint all_some {A} (l : list (option A)) : option (list A) :=
  match l with
  | [] => Some []
  | Some x :: r => match all_some r with Some r' => Some (x :: r') | None => None end
  | None :: _ => None
  end.

Definition q_chain_delete (kind : nat) (keys : list Obj.obj) (cs : list (nat * Z)) (k : nat) : option (list nat) :=
  let '(sp, hd) := lay 0 [cs] in
  let fuel := S (length cs) in
  match chain_delete (ef kind keys) fuel (heap_of sp) (nth 0 hd None) k with
  | Some (h', hd') => addrs fuel h' hd'
  | None => None
  end.
Definition q_regrow_relink (kind : nat) (keys : list Obj.obj) (bs : list (list (nat * Z))) : option (list (list nat)) :=
  let '(sp, hd) := lay 0 bs in
  let fuel := S (length sp) in
  match regrow_relink (hf kind keys) fuel (heap_of sp) hd with
  | Some (h', nv) => all_some (map (addrs fuel h') nv)
  | None => None
  end.
Definition q_regrow_cells (kind : nat) (keys : list Obj.obj) (bs : list (list (nat * Z))) : list (list (nat * Z)) :=
  regrow (hf kind keys) bs.
