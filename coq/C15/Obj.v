(** C15 — object model, sexp_equalp_bound (sexp.c:1073-1150, with the repaired string case) and
    hash_one (lib/srfi/69/hash.c:52-107, with the repaired bignum and string cases): executable
    models.  NO proofs in this file (see ObjProofs.v).

    Objects are finite trees (no sharing, no cycles): the pointer-identity shortcut `a == b' of the C
    code is modelled for immediates only, where it is word equality.  For heap objects identity
    implies the structural answer (theorem equal_refl), it only changes how much of `bound' is
    used; the correspondence harness builds unshared objects, for which the model is exact. *)
From Coq Require Import List ZArith Bool Arith.
From ChibiV Require Import Common.Words Gen.C15_Consts.
Import ListNotations.
Local Open Scope Z_scope.

Inductive obj : Type :=
| Imm (w : Z)                          (* any immediate, as its raw machine word (fixnum, char, #t, '(), ...) *)
| Flo (bits : Z)                       (* heap flonum, the 64 bits of the double *)
| Big (sign : Z) (ws : list Z)         (* bignum: sign 1 / -1, ALL allocated words (little endian), incl. unused high zeros *)
| Byt (bs : list Z)                    (* bytevector: data bytes *)
| Str (store : list Z) (off len : nat) (* string: bytes of its store, offset and size in bytes *)
| Sym (name : list Z)                  (* heap (non-immediate) symbol *)
| Pair (a d : obj)
| Vec (xs : list obj).

Definition is_ptr (o : obj) : bool := match o with Imm _ => false | _ => true end.

Definition tag (o : obj) : Z :=
  match o with
  | Imm _ => 0 | Flo _ => TAG_FLONUM | Big _ _ => TAG_BIGNUM | Byt _ => TAG_BYTES
  | Str _ _ _ => TAG_STRING | Sym _ => TAG_SYMBOL | Pair _ _ => TAG_PAIR | Vec _ => TAG_VECTOR
  end.

(** sexp_string_data(x) .. + sexp_string_size(x) *)
Definition str_data (store : list Z) (off len : nat) : list Z := firstn len (skipn off store).

Fixpoint list_eqb (a b : list Z) : bool :=
  match a, b with
  | [], [] => true
  | x :: a', y :: b' => (x =? y) && list_eqb a' b'
  | _, _ => false
  end.

(** sexp_bignum_compare_abs, bignum.c:174-186 ([hi] of Common.Words mirrors sexp_bignum_hi) *)
Fixpoint cmp_top (ra rb : list Z) : Z :=       (* most significant word first *)
  match ra, rb with
  | x :: ra', y :: rb' => if x >? y then 1 else if x <? y then -1 else cmp_top ra' rb'
  | _, _ => 0
  end.
Definition compare_abs (a b : list Z) : Z :=
  let ai := hi a in let bi := hi b in
  if negb (ai =? bi)%nat then Z.of_nat ai - Z.of_nat bi
  else cmp_top (rev (firstn ai a)) (rev (firstn bi b)).
(** sexp_bignum_compare, bignum.c:188-193 *)
Definition bignum_compare (sa : Z) (a : list Z) (sb : Z) (b : list Z) : Z :=
  if negb (sa =? sb) then sa else let c := compare_abs a b in if sa <? 0 then - c else c.

(** the eq-slots of an object (type spec: Pair 2 of 3 slots, Vector length slots, others none) *)
Definition slots (o : obj) : list obj :=
  match o with Pair a d => [a; d] | Vec xs => xs | _ => [] end.

(** the memcmp of the non-slot bytes before and after the slots (sexp.c:1117-1131) for two
    objects of the same type: Vector = the length word before the slots; Byte-Vector / Symbol =
    length word + data + NUL after (sizes must agree first); Pair = nothing *)
Definition raw_eq (a b : obj) : bool :=
  match a, b with
  | Vec xs, Vec ys => (length xs =? length ys)%nat
  | Byt x, Byt y => list_eqb x y
  | Sym x, Sym y => list_eqb x y
  | _, _ => true
  end.

(** `(!a || !sexp_pointerp(a)) || (!b || !sexp_pointerp(b)) || tag(a) != tag(b)' *)
Definition mismatch (x y : obj) : bool := negb (is_ptr x) || negb (is_ptr y) || negb (tag x =? tag y).
(** `a == b' in the tree model: equal immediates; the empty vector is one shared object
    (sexp_make_vector returns the global SEXP_G_EMPTY_VECTOR for length 0) *)
Definition same_word (x y : obj) : bool :=
  match x, y with Imm a, Imm b => a =? b | Vec [], Vec [] => true | _, _ => false end.

(** the backwards scan `for (; len > 1; len--) { a = p[len-1]; b = q[len-1]; if (a != b) {...} }' of
    sexp.c:1133-1141: None = return SEXP_FALSE, Some len = the slot count still to compare *)
Fixpoint tscan (sa sb : list obj) (len : nat) : option nat :=
  match len with
  | O => Some O
  | S len' =>
      match len' with
      | O => Some 1%nat
      | S _ =>
          let x := nth len' sa (Imm 0) in
          let y := nth len' sb (Imm 0) in
          if same_word x y then tscan sa sb len'
          else if mismatch x y then None else Some len
      end
  end.

Inductive eres : Type := EFalse | EBound (b : Z) | EFuel.

(** `for (i=0; i<len-1; i++) { bound = sexp_equalp_bound(p[i], q[i], depth2, bound); if (!bound) return #f; }' *)
Fixpoint slot_loop (eqf : obj -> obj -> Z -> Z -> eres) (depth2 : Z) (ps qs : list obj) (bd : Z) {struct ps} : eres :=
  match ps, qs with
  | p :: ps', q :: qs' =>
      match eqf p q depth2 bd with
      | EBound b' => slot_loop eqf depth2 ps' qs' b'
      | r => r
      end
  | _, _ => EBound bd
  end.

(** the slot part of sexp_equalp_bound (sexp.c:1131-1150): scan, loop, then the tail iteration on
    the last remaining slot at the SAME depth *)
Definition slots_cmp (eqf : obj -> obj -> Z -> Z -> eres) (sa sb : list obj) (depth bound1 : Z) : eres :=
  match sa with
  | [] => EBound bound1
  | _ :: _ =>
      match tscan sa sb (length sa) with
      | None => EFalse
      | Some len =>
          match slot_loop eqf (depth - 1) (firstn (len - 1) sa) (firstn (len - 1) sb) bound1 with
          | EBound b' => eqf (nth (len - 1) sa (Imm 0)) (nth (len - 1) sb (Imm 0)) depth b'
          | r => r
          end
      end
  end.

(** sexp_equalp_bound.  [fuel] bounds the nesting of calls (one unit per call or `goto loop'). *)
Fixpoint equal_bound (fuel : nat) (a b : obj) (depth bound : Z) {struct fuel} : eres :=
  match fuel with
  | O => EFuel
  | S f =>
    if same_word a b then EBound bound
    else if mismatch a b then EFalse
    else match a, b with
    | Big sa wa, Big sb wb => if bignum_compare sa wa sb wb =? 0 then EBound bound else EFalse
    | Flo x, Flo y => if x =? y then EBound bound else EFalse
    | Str s1 o1 l1, Str s2 o2 l2 =>
        if (l1 =? l2)%nat && list_eqb (str_data s1 o1 l1) (str_data s2 o2 l2) then EBound bound else EFalse
    | _, _ =>
      if (bound <? 0) || (depth <? 0) then EBound bound else
      if negb (raw_eq a b) then EFalse else
      slots_cmp (equal_bound f) (slots a) (slots b) depth (bound - 1)
    end
  end.

(** number of nodes: enough fuel for equal_bound *)
Fixpoint osize (o : obj) : nat :=
  match o with
  | Pair a d => S (osize a + osize d)
  | Vec xs => S (fold_right (fun x n => (osize x + n)%nat) O xs)
  | _ => 1%nat
  end.

(** sexp_equalp_op: default depth and bound; the core `equal?' *)
Definition equal_op (a b : obj) : eres := equal_bound (S (osize a + osize b)) a b EQUAL_DEPTH EQUAL_BOUND.
Definition equalb (a b : obj) : bool := match equal_op a b with EFalse => false | _ => true end.
(** (equal?/bounded a b 10000 10000) as used by lib/chibi/equiv.scm *)
Definition equal_bounded (a b : obj) (depth bound : Z) : eres := equal_bound (S (osize a + osize b)) a b depth bound.

(** eqv? of lib/init-7.scm:1370: (if (eq? a b) #t (and (number? a) (equal? a b))) *)
Definition is_number (o : obj) : bool :=
  match o with
  | Imm w => Z.odd w          (* fixnum tag bit *)
  | Flo _ | Big _ _ => true
  | _ => false
  end.
Definition eqvb (a b : obj) : bool := same_word a b || (is_number a && equalb a b).

(* ------------------------------------------------------------------ hash_one *)
Definition w64 (x : Z) : Z := x mod B.
(** `acc ^= p_right[i]' with p_right a (signed) char*: sign extension to the 64-bit word *)
Definition sext8 (b : Z) : Z := if b <? 128 then b else b + (B - 256).
Definition fnv_step (acc byte : Z) : Z := Z.lxor (w64 (acc * FNV_PRIME)) (sext8 byte).
Definition fnv_bytes (acc : Z) (bs : list Z) : Z := fold_left fnv_step bs acc.
Definition le_bytes8 (w : Z) : list Z :=
  map (fun i => (w / 2 ^ (8 * Z.of_nat i)) mod 256) (seq 0 8).

(** (sexp_sint_t) of a double, as x86-64 cvttsd2si computes it: truncation, and the "integer
    indefinite" value -2^63 for NaN, infinities and magnitudes >= 2^63.  Result as a 64-bit word. *)
Definition flo_trunc (bits : Z) : Z :=
  let neg := 2 ^ 63 <=? bits in
  let e := (bits / 2 ^ 52) mod 2048 in
  let m := bits mod 2 ^ 52 in
  if e =? 2047 then 2 ^ 63
  else if e =? 0 then 0
  else
    let mant := 2 ^ 52 + m in
    let mag := if 1075 <=? e then mant * 2 ^ (e - 1075) else mant / 2 ^ (1075 - e) in
    if 2 ^ 63 <=? mag then 2 ^ 63 else if neg then w64 (- mag) else mag.

(** the loop of hash_one from label `loop:' on; [d] = depth (HASH_DEPTH = 5 at the top) *)
Fixpoint hash_loop (d : nat) (o : obj) (acc : Z) {struct d} : Z :=
  match o with
  | Imm w => Z.lxor acc (w64 w)
  | Flo bits => Z.lxor acc (flo_trunc bits)
  | _ =>
    match d with
    | O => Z.lxor acc (tag o)
    | S d' =>
      let acc1 :=
        match o with
        | Byt bs => fnv_bytes acc (le_bytes8 (Z.of_nat (length bs)) ++ bs ++ [0])
        | Big s ws => fnv_bytes (fnv_step acc (if s <? 0 then 255 else 1)) (flat_map le_bytes8 (firstn (hi ws) ws))
        | Str st off len => fnv_bytes acc (str_data st off len)
        | _ => acc
        end in
      match slots o with
      | [] => acc1
      | sl =>
          let acc2 := fold_left (fun ac p => Z.lxor (w64 (ac * FNV_PRIME)) (hash_loop d' p FNV_OFFSET_BASIS))
                                (removelast sl) acc1 in
          hash_loop d' (last sl (Imm 0)) acc2
      end
    end
  end.

(** hash_one(ctx, obj, bound, HASH_DEPTH) *)
Definition hash_one (o : obj) (bound : Z) : Z :=
  let h := hash_loop (Z.to_nat HASH_DEPTH) o FNV_OFFSET_BASIS in
  if bound =? 0 then h else h mod bound.

(** sexp_hash_by_identity on an immediate: the raw word modulo the bound *)
Definition hash_by_identity (o : obj) (bound : Z) : Z :=
  match o with Imm w => (w64 w) mod bound | _ => 0 end.

(** string_hash(data, size, bound), hash.c:20-24 (repaired: by length) *)
Definition string_hash (o : obj) (bound : Z) : Z :=
  match o with Str st off len => (fnv_bytes FNV_OFFSET_BASIS (str_data st off len)) mod bound | _ => 0 end.
