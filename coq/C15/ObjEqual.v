(** C15 — sexp_equalp_bound decides equality of abstract values within its node / depth bounds;
    consequently equal? is an equivalence there, terminates, and equal? objects hash alike. *)
From Coq Require Import List ZArith Bool Arith Lia.
From ChibiV Require Import Common.Words Gen.C15_Consts C15.Obj C15.ObjProofs.
Import ListNotations.
Local Open Scope Z_scope.

Section Forall2b.
Context {A : Type}.
Variable f : A -> A -> bool.
Fixpoint forall2b (xs ys : list A) : bool :=
  match xs, ys with
  | [], [] => true
  | x :: xs', y :: ys' => f x y && forall2b xs' ys'
  | _, _ => false
  end.
End Forall2b.

(** structural equality of abstract values, computed on representations *)
Fixpoint aeqb (a b : obj) : bool :=
  match a, b with
  | Imm x, Imm y => x =? y
  | Flo x, Flo y => x =? y
  | Big s1 w1, Big s2 w2 => s1 * val w1 =? s2 * val w2
  | Byt x, Byt y => list_eqb x y
  | Sym x, Sym y => list_eqb x y
  | Str s1 o1 l1, Str s2 o2 l2 => list_eqb (str_data s1 o1 l1) (str_data s2 o2 l2)
  | Pair a1 d1, Pair a2 d2 => aeqb a1 a2 && aeqb d1 d2
  | Vec xs, Vec ys => forall2b aeqb xs ys
  | _, _ => false
  end.

Lemma list_eqb_eq a b : list_eqb a b = true <-> a = b.
Proof.
  revert b. induction a as [|x a IH]; intros [|y b]; cbn [list_eqb]; try (split; [discriminate|discriminate]); [tauto|].
  rewrite andb_true_iff, Z.eqb_eq, IH. split; [intros [-> ->]; reflexivity | intros [= -> ->]; auto].
Qed.

Lemma obj_ind2 (P : obj -> Prop) :
  (forall w, P (Imm w)) -> (forall b, P (Flo b)) -> (forall s ws, P (Big s ws)) -> (forall bs, P (Byt bs)) ->
  (forall st o l, P (Str st o l)) -> (forall n, P (Sym n)) -> (forall a d, P a -> P d -> P (Pair a d)) ->
  (forall xs, Forall P xs -> P (Vec xs)) -> forall o, P o.
Proof.
  intros HI HF HB HY HS HM HP HV. fix IH 1. intros [w|b|s ws|bs|st o l|n|a d|xs].
  - apply HI.
  - apply HF.
  - apply HB.
  - apply HY.
  - apply HS.
  - apply HM.
  - apply HP; apply IH.
  - apply HV. induction xs as [|x xs IHxs]; constructor; [apply IH | exact IHxs].
Qed.

Theorem aeqb_iff_absv : forall a b, aeqb a b = true <-> absv a = absv b.
Proof.
  induction a as [w|f|s ws|bs|st o l|n|a1 d1 IH1 IH2|xs IHxs] using obj_ind2; intros b; destruct b; cbn [aeqb absv];
    try (split; [discriminate | discriminate]).
  - rewrite Z.eqb_eq. split; [intros ->; reflexivity | intros [= ->]; reflexivity].
  - rewrite Z.eqb_eq. split; [intros ->; reflexivity | intros [= ->]; reflexivity].
  - rewrite Z.eqb_eq. split; [intros ->; reflexivity | intros [= ->]; reflexivity].
  - rewrite list_eqb_eq. split; [intros ->; reflexivity | intros [= ->]; reflexivity].
  - rewrite list_eqb_eq. split; [intros ->; reflexivity | intros [= ->]; reflexivity].
  - rewrite list_eqb_eq. split; [intros ->; reflexivity | intros [= ->]; reflexivity].
  - cbv beta in IH1, IH2. rewrite andb_true_iff. split.
    + intros [H1 H2]. apply IH1 in H1. apply IH2 in H2. rewrite H1, H2. reflexivity.
    + intros [= H1 H2]. split; [apply IH1 | apply IH2]; assumption.
  - rename xs0 into ys. assert (forall2b aeqb xs ys = true <-> map absv xs = map absv ys) as H.
    { revert ys. induction IHxs as [|x xs Hx _ IH]; intros [|y ys]; cbn [forall2b map]; try (split; [discriminate|discriminate]); [tauto|].
      cbv beta in Hx. rewrite andb_true_iff. split.
      + intros [H1 H2]. apply Hx in H1. apply IH in H2. rewrite H1, H2. reflexivity.
      + intros [= H1 H2]. split; [apply Hx | apply IH]; assumption. }
    rewrite H. split; [intros ->; reflexivity | intros [= ->]; reflexivity].
Qed.

(* ------------------------------------------------------------------ measures *)
Section LDepth.
Variable od : obj -> nat.
Fixpoint ldepth_with (l : list obj) : nat :=
  match l with
  | [] => O
  | x :: r => match r with [] => od x | _ :: _ => Nat.max (S (od x)) (ldepth_with r) end
  end.
End LDepth.

(** the depth sexp_equalp_bound needs: the last slot is compared at the same depth (tail iteration),
    every other slot one level deeper — so cdr-chains of any length need no depth *)
Fixpoint odepth (o : obj) : nat :=
  match o with
  | Pair a d => Nat.max (S (odepth a)) (odepth d)
  | Vec xs => ldepth_with odepth xs
  | _ => O
  end.
Definition ldepth := ldepth_with odepth.
Definition lsize (l : list obj) : nat := fold_right (fun x n => (osize x + n)%nat) O l.

Lemma odepth_slots o : odepth o = ldepth (slots o).
Proof. destruct o; reflexivity. Qed.

Lemma osize_slots o : slots o <> [] -> osize o = S (lsize (slots o)).
Proof. destruct o; cbn [slots]; try congruence; intros _; unfold lsize; cbn [osize fold_right]; lia. Qed.

Lemma ldepth_nth l i : (i < length l)%nat ->
  (odepth (nth i l (Imm 0)) <= ldepth l)%nat /\ ((S i < length l)%nat -> (S (odepth (nth i l (Imm 0))) <= ldepth l)%nat).
Proof.
  revert i. induction l as [|x r IH]; intros i Hi; cbn [length] in Hi; [lia|].
  unfold ldepth in *. destruct r as [|y r'].
  - destruct i; [|cbn [length] in Hi; lia]. cbn [nth length ldepth_with]. split; [lia | lia].
  - change (ldepth_with odepth (x :: y :: r')) with (Nat.max (S (odepth x)) (ldepth_with odepth (y :: r'))).
    destruct i as [|i].
    + cbn [nth]. split; [lia | intros _; lia].
    + change (nth (S i) (x :: y :: r') (Imm 0)) with (nth i (y :: r') (Imm 0)).
      assert (i < length (y :: r'))%nat as Hi' by (cbn [length] in *; lia).
      destruct (IH i Hi') as [I1 I2].
      split; [lia|]. intros H. assert (S i < length (y :: r'))%nat as Hi'' by (cbn [length] in *; lia).
      specialize (I2 Hi''). lia.
Qed.

Lemma lsize_firstn_nth l k : (k < length l)%nat -> (lsize (firstn k l) + osize (nth k l (Imm 0)) <= lsize l)%nat.
Proof.
  revert k. induction l as [|x r IH]; intros k Hk; cbn [length] in Hk; [lia|].
  destruct k as [|k]; cbn [firstn nth lsize fold_right]; [lia|].
  specialize (IH k ltac:(lia)). unfold lsize in IH. lia.
Qed.

Lemma In_firstn_aux {A} (l : list A) k z : In z (firstn k l) -> In z l.
Proof. intros H. rewrite <- (firstn_skipn k l). apply in_or_app. left. exact H. Qed.

Lemma nth_firstn_lt {A} (l : list A) k i d : (i < k)%nat -> nth i (firstn k l) d = nth i l d.
Proof.
  revert k i. induction l as [|x r IH]; intros [|k] [|i] H; cbn [firstn nth]; try lia; auto. apply IH. lia.
Qed.

Lemma forall2b_nth (f : obj -> obj -> bool) xs ys : length xs = length ys ->
  (forall2b f xs ys = true <-> forall i, (i < length xs)%nat -> f (nth i xs (Imm 0)) (nth i ys (Imm 0)) = true).
Proof.
  revert ys. induction xs as [|x xs IH]; intros [|y ys] Hl; cbn [length] in Hl; try discriminate.
  - cbn. split; [intros _ i Hi; lia | reflexivity].
  - cbn [forall2b length]. rewrite andb_true_iff, (IH ys ltac:(lia)). split.
    + intros [H0 H] [|i] Hi; cbn [nth]; [exact H0 | apply H; lia].
    + intros H. split; [apply (H O); lia | intros i Hi; apply (H (S i)); lia].
Qed.

Lemma forall2b_length (f : obj -> obj -> bool) xs ys : forall2b f xs ys = true -> length xs = length ys.
Proof.
  revert ys. induction xs as [|x xs IH]; intros [|y ys]; cbn [forall2b length]; try discriminate; auto.
  rewrite andb_true_iff. intros [_ H]. f_equal. apply IH. exact H.
Qed.

(* ------------------------------------------------------------------ pointer tests vs abstract equality *)
Lemma same_word_aeqb x y : same_word x y = true -> aeqb x y = true.
Proof.
  destruct x as [w1| | | | | | |xs]; destruct y as [w2| | | | | | |ys]; cbn [same_word aeqb]; try discriminate; auto;
    try (destruct xs; discriminate).
  destruct xs; destruct ys; try discriminate. reflexivity.
Qed.

Lemma mismatch_aeqb x y : same_word x y = false -> mismatch x y = true -> aeqb x y = false.
Proof.
  unfold mismatch. destruct x, y; cbn [same_word is_ptr tag negb orb aeqb]; intros H1 H2; try reflexivity;
    try (exfalso; revert H2; vm_compute; discriminate).
  exact H1.
Qed.

Lemma no_mismatch_same_shape x y : mismatch x y = false ->
  match x, y with
  | Flo _, Flo _ | Big _ _, Big _ _ | Byt _, Byt _ | Str _ _ _, Str _ _ _ | Sym _, Sym _ | Pair _ _, Pair _ _ | Vec _, Vec _ => True
  | _, _ => False
  end.
Proof.
  unfold mismatch. destruct x, y; cbn [is_ptr tag negb orb]; intros H; try exact I; try discriminate;
    exfalso; revert H; vm_compute; discriminate.
Qed.

(* ------------------------------------------------------------------ the specification of one comparison *)
Definition okres (eq : bool) (sz : nat) (bound : Z) (r : eres) : Prop :=
  if eq then exists b', r = EBound b' /\ bound - Z.of_nat sz <= b' <= bound else r = EFalse.

Definition Hrec (eqf : obj -> obj -> Z -> Z -> eres) (f : nat) : Prop :=
  forall x y d bd, wf x -> wf y -> (osize x <= f)%nat -> Z.of_nat (odepth x) <= d -> Z.of_nat (osize x) <= bd ->
    okres (aeqb x y) (osize x) bd (eqf x y d bd).

Lemma loop_spec eqf f d2 : Hrec eqf f -> forall ps qs bd,
  Forall wf ps -> Forall wf qs -> length ps = length qs ->
  (forall x, In x ps -> (osize x <= f)%nat /\ Z.of_nat (odepth x) <= d2) ->
  Z.of_nat (lsize ps) <= bd ->
  okres (forall2b aeqb ps qs) (lsize ps) bd (slot_loop eqf d2 ps qs bd).
Proof.
  intros HR. induction ps as [|p ps IH]; intros [|q qs] bd Wp Wq Hl Hin Hb; cbn [length] in Hl; try discriminate.
  - cbn. exists bd. split; [reflexivity | lia].
  - inversion Wp as [|? ? Wp1 Wps]; inversion Wq as [|? ? Wq1 Wqs]; subst.
    cbn [slot_loop forall2b lsize fold_right] in *.
    destruct (Hin p (or_introl eq_refl)) as [Hf Hd].
    pose proof (HR p q d2 bd Wp1 Wq1 Hf Hd ltac:(lia)) as H1. unfold okres in H1.
    destruct (aeqb p q); cbn [andb].
    + destruct H1 as [b1 [-> Hb1]].
      specialize (IH qs b1 Wps Wqs ltac:(lia) (fun x Hx => Hin x (or_intror Hx)) ltac:(unfold lsize; lia)).
      unfold okres in *. destruct (forall2b aeqb ps qs).
      * destruct IH as [b' [-> Hb']]. exists b'. split; [reflexivity | unfold lsize in *; lia].
      * exact IH.
    + rewrite H1. reflexivity.
Qed.

Lemma tscan_spec sa sb : forall len,
  match tscan sa sb len with
  | None => exists i, (i < len)%nat /\ aeqb (nth i sa (Imm 0)) (nth i sb (Imm 0)) = false
  | Some l => ((len = 0 /\ l = 0) \/ (1 <= l <= len))%nat /\
              forall i, (l <= i < len)%nat -> aeqb (nth i sa (Imm 0)) (nth i sb (Imm 0)) = true
  end.
Proof.
  induction len as [|len IH]; cbn [tscan].
  - split; [left; auto | intros i Hi; lia].
  - destruct len as [|k].
    + split; [right; lia | intros i Hi; lia].
    + set (x := nth (S k) sa (Imm 0)). set (y := nth (S k) sb (Imm 0)).
      destruct (same_word x y) eqn:Es.
      * destruct (tscan sa sb (S k)) as [l|].
        -- destruct IH as [Hl Hs]. split; [right; lia|].
           intros i Hi. destruct (Nat.eq_dec i (S k)) as [->|Hne]; [apply same_word_aeqb; exact Es | apply Hs; lia].
        -- destruct IH as [i [Hi Hf]]. exists i. split; [lia | exact Hf].
      * destruct (mismatch x y) eqn:Em.
        -- exists (S k). split; [lia | apply mismatch_aeqb; assumption].
        -- split; [right; lia | intros i Hi; lia].
Qed.

Lemma bool_false_by_contra (b : bool) : (b = true -> False) -> b = false.
Proof. destruct b; [intros H; exfalso; apply H; reflexivity | reflexivity]. Qed.

Lemma slots_cmp_spec eqf f sa sb depth bound1 : Hrec eqf f ->
  Forall wf sa -> Forall wf sb -> length sa = length sb -> sa <> [] ->
  (forall x, In x sa -> (osize x <= f)%nat) -> Z.of_nat (ldepth sa) <= depth ->
  Z.of_nat (lsize sa) <= bound1 ->
  okres (forall2b aeqb sa sb) (lsize sa) bound1 (slots_cmp eqf sa sb depth bound1).
Proof.
  intros HR Wa Wb Hl Hne Hf Hd Hb. unfold slots_cmp.
  destruct sa as [|a0 sa0] eqn:Esa; [congruence|]. rewrite <- Esa in *. clear Hne.
  assert (0 < length sa)%nat as Hn by (rewrite Esa; cbn; lia).
  pose proof (tscan_spec sa sb (length sa)) as HT.
  pose proof (forall2b_nth aeqb sa sb Hl) as HN.
  destruct (tscan sa sb (length sa)) as [len|].
  2:{ destruct HT as [i [Hi Hfalse]]. unfold okres. rewrite (bool_false_by_contra (forall2b aeqb sa sb)); [reflexivity|].
      intros Ht. rewrite (proj1 HN Ht i Hi) in Hfalse. discriminate. }
  destruct HT as [[[H0 _]|Hlen] Hsuf]; [lia|].
  set (P := firstn (len - 1) sa). set (Q := firstn (len - 1) sb).
  set (x := nth (len - 1) sa (Imm 0)). set (y := nth (len - 1) sb (Imm 0)).
  assert (len - 1 < length sa)%nat as Hk by lia.
  assert (Forall wf P) as WP by (apply Forall_forall; intros z Hz; rewrite Forall_forall in Wa; apply Wa; eapply In_firstn_aux; exact Hz).
  assert (Forall wf Q) as WQ by (apply Forall_forall; intros z Hz; rewrite Forall_forall in Wb; apply Wb; eapply In_firstn_aux; exact Hz).
  pose proof (lsize_firstn_nth sa (len - 1) Hk) as HS. fold P in HS. fold x in HS.
  assert (length P = length Q) as HlPQ by (unfold P, Q; rewrite !firstn_length; lia).
  assert (length P = (len - 1)%nat) as HlP by (unfold P; rewrite firstn_length; lia).
  assert (forall z, In z P -> (osize z <= f)%nat /\ Z.of_nat (odepth z) <= depth - 1) as HinP.
  { intros z Hz. split; [apply Hf; eapply In_firstn_aux; exact Hz|].
    destruct (In_nth _ _ (Imm 0) Hz) as [i [Hi Hnth]]. rewrite HlP in Hi.
    unfold P in Hnth. rewrite nth_firstn_lt in Hnth by exact Hi. subst z.
    destruct (ldepth_nth sa i ltac:(lia)) as [_ H2]. specialize (H2 ltac:(lia)). lia. }
  pose proof (loop_spec eqf f (depth - 1) HR P Q bound1 WP WQ HlPQ HinP ltac:(lia)) as HL.
  assert (forall2b aeqb P Q = true <-> forall i, (i < len - 1)%nat -> aeqb (nth i sa (Imm 0)) (nth i sb (Imm 0)) = true) as HPQ.
  { rewrite (forall2b_nth aeqb P Q HlPQ), HlP. split; intros H i Hi; specialize (H i Hi); unfold P, Q in *;
      rewrite !nth_firstn_lt in * by exact Hi; exact H. }
  unfold okres in HL. destruct (forall2b aeqb P Q) eqn:EPQ.
  - destruct HL as [b1 [-> Hb1]].
    assert (wf x) as Wx by (rewrite Forall_forall in Wa; apply Wa; apply nth_In; exact Hk).
    assert (wf y) as Wy by (rewrite Forall_forall in Wb; apply Wb; apply nth_In; lia).
    assert (osize x <= f)%nat as Hfx by (apply Hf; apply nth_In; exact Hk).
    destruct (ldepth_nth sa (len - 1) Hk) as [Hdx _]. fold x in Hdx.
    pose proof (HR x y depth b1 Wx Wy Hfx ltac:(lia) ltac:(lia)) as HX. unfold okres in *.
    destruct (aeqb x y) eqn:Exy.
    + destruct HX as [b' [-> Hb']].
      assert (forall2b aeqb sa sb = true) as ->.
      { apply HN. intros i Hi. destruct (Nat.lt_trichotomy i (len - 1)) as [Hlt|[->|Hgt]];
          [apply (proj1 HPQ eq_refl); exact Hlt | exact Exy | apply Hsuf; lia]. }
      exists b'. split; [reflexivity | lia].
    + rewrite HX. rewrite (bool_false_by_contra (forall2b aeqb sa sb)); [reflexivity|].
      intros Ht. pose proof (proj1 HN Ht (len - 1)%nat Hk) as Hc. fold x y in Hc. congruence.
  - rewrite HL. rewrite (bool_false_by_contra (forall2b aeqb sa sb)); [reflexivity|].
    intros Ht. assert (false = true) as Hc; [|discriminate Hc].
    apply HPQ. intros i Hi. apply (proj1 HN Ht). lia.
Qed.

(* ------------------------------------------------------------------ the main induction *)
Lemma osize_pos o : (1 <= osize o)%nat.
Proof. destruct o; cbn [osize]; lia. Qed.

Lemma str_data_length st off len : (off + len <= length st)%nat -> length (str_data st off len) = len.
Proof. intros H. unfold str_data. rewrite firstn_length, skipn_length. lia. Qed.

Lemma okres_leaf (e : bool) bd sz : (1 <= sz)%nat -> okres e sz bd (if e then EBound bd else EFalse).
Proof. intros H. unfold okres. destruct e; [exists bd; split; [reflexivity | lia] | reflexivity]. Qed.

Lemma equal_bound_spec : forall fuel, Hrec (equal_bound fuel) fuel.
Proof.
  induction fuel as [|f IH]; intros x y d bd Wx Wy Hf Hd Hb.
  - pose proof (osize_pos x). lia.
  - pose proof (osize_pos x) as Hpos. cbn [equal_bound].
    destruct (same_word x y) eqn:Es.
    { rewrite (same_word_aeqb x y Es). exists bd. split; [reflexivity | lia]. }
    destruct (mismatch x y) eqn:Em.
    { rewrite (mismatch_aeqb x y Es Em). reflexivity. }
    pose proof (no_mismatch_same_shape x y Em) as Hshape.
    assert ((bd <? 0) || (d <? 0) = false) as Hlim
      by (apply orb_false_iff; split; apply Z.ltb_ge; lia).
    destruct x as [w1|f1|s1 w1|b1|st1 o1 l1|n1|a1 d1|xs]; destruct y as [w2|f2|s2 w2|b2|st2 o2 l2|n2|a2 d2|ys];
      try (exfalso; exact Hshape); clear Hshape.
    + (* flonums *) cbn [aeqb osize]. apply okres_leaf. lia.
    + (* bignums *) cbn [aeqb osize]. cbn [wf] in Wx, Wy.
      pose proof (bignum_compare_zero s1 w1 s2 w2 Wx Wy) as HB.
      assert ((bignum_compare s1 w1 s2 w2 =? 0) = (s1 * val w1 =? s2 * val w2)) as ->.
      { destruct (Z.eqb_spec (bignum_compare s1 w1 s2 w2) 0) as [E|E]; destruct (Z.eqb_spec (s1 * val w1) (s2 * val w2)) as [E'|E'];
          try reflexivity; exfalso; tauto. }
      apply okres_leaf. lia.
    + (* bytevectors *) rewrite Hlim. cbn [raw_eq aeqb slots osize slots_cmp].
      destruct (list_eqb b1 b2); cbn [negb]; [exists (bd - 1); split; [reflexivity | lia] | reflexivity].
    + (* strings *) cbn [aeqb osize]. cbn [wf] in Wx, Wy.
      assert (((l1 =? l2)%nat && list_eqb (str_data st1 o1 l1) (str_data st2 o2 l2)) = list_eqb (str_data st1 o1 l1) (str_data st2 o2 l2)) as ->.
      { destruct (list_eqb (str_data st1 o1 l1) (str_data st2 o2 l2)) eqn:E; [|apply andb_false_r].
        apply list_eqb_eq in E. apply (f_equal (@length Z)) in E. rewrite !str_data_length in E by assumption.
        subst. rewrite Nat.eqb_refl. reflexivity. }
      apply okres_leaf. lia.
    + (* symbols *) rewrite Hlim. cbn [raw_eq aeqb slots osize slots_cmp].
      destruct (list_eqb n1 n2); cbn [negb]; [exists (bd - 1); split; [reflexivity | lia] | reflexivity].
    + (* pairs *) rewrite Hlim. cbn [raw_eq negb slots]. cbn [wf] in Wx, Wy. destruct Wx as [Wa1 Wd1], Wy as [Wa2 Wd2].
      pose proof (slots_cmp_spec (equal_bound f) f [a1; d1] [a2; d2] d (bd - 1) IH) as HS.
      cbn [osize] in Hf, Hb. rewrite (odepth_slots (Pair a1 d1)) in Hd. cbn [slots] in Hd.
      specialize (HS ltac:(repeat constructor; assumption) ltac:(repeat constructor; assumption) eq_refl ltac:(discriminate)).
      specialize (HS ltac:(intros z [<-|[<-|[]]]; lia) Hd ltac:(unfold lsize; cbn [fold_right]; lia)).
      cbn [forall2b aeqb] in *. rewrite andb_true_r in HS. unfold okres in *.
      destruct (aeqb a1 a2 && aeqb d1 d2); [|exact HS].
      destruct HS as [b' [-> Hb']]. exists b'. split; [reflexivity|]. unfold lsize in Hb'. cbn [fold_right osize] in *. lia.
    + (* vectors *) rewrite Hlim. cbn [raw_eq slots aeqb].
      destruct (Nat.eqb_spec (length xs) (length ys)) as [El|El]; cbn [negb].
      2:{ unfold okres. rewrite (bool_false_by_contra (forall2b aeqb xs ys)); [reflexivity|].
          intros Ht. apply El. apply forall2b_length in Ht. exact Ht. }
      destruct xs as [|x0 xs0] eqn:Exs.
      { destruct ys; [cbn in Es; discriminate | cbn in El; discriminate]. }
      rewrite <- Exs in *. apply wf_vec_forall in Wx, Wy.
      pose proof (slots_cmp_spec (equal_bound f) f xs ys d (bd - 1) IH Wx Wy El ltac:(rewrite Exs; discriminate)) as HS.
      assert (osize (Vec xs) = S (lsize xs)) as Hsz by reflexivity.
      rewrite Hsz in *.
      assert (forall z, In z xs -> (osize z <= f)%nat) as Hall.
      { intros z Hz. assert (osize z <= lsize xs)%nat; [|lia].
        clear -Hz. induction xs as [|u xs IHx]; [destruct Hz|]. unfold lsize in *. cbn [fold_right].
        destruct Hz as [<-|Hz]; [lia | specialize (IHx Hz); lia]. }
      rewrite (odepth_slots (Vec xs)) in Hd. cbn [slots] in Hd.
      specialize (HS Hall Hd ltac:(lia)). unfold okres in *.
      destruct (forall2b aeqb xs ys); [|exact HS].
      destruct HS as [b' [-> Hb']]. exists b'. split; [reflexivity | lia].
Qed.

(* ------------------------------------------------------------------ the property theorems *)
Definition within (a : obj) (depth bound : Z) : Prop := Z.of_nat (odepth a) <= depth /\ Z.of_nat (osize a) <= bound.

(** sexp_equalp_bound answers "same abstract value" exactly, and uses at most one unit of bound
    per node, whenever the first argument fits the depth / node limits *)
Theorem equal_iff_same_abstract_value a b fuel depth bound :
  wf a -> wf b -> (osize a <= fuel)%nat -> within a depth bound ->
  (absv a = absv b -> exists b', equal_bound fuel a b depth bound = EBound b' /\ bound - Z.of_nat (osize a) <= b' <= bound) /\
  (absv a <> absv b -> equal_bound fuel a b depth bound = EFalse).
Proof.
  intros Wa Wb Hf [Hd Hb]. pose proof (equal_bound_spec fuel a b depth bound Wa Wb Hf Hd Hb) as H.
  unfold okres in H. pose proof (aeqb_iff_absv a b) as HI. destruct (aeqb a b).
  - split; [intros _; exact H | intros Hn; exfalso; apply Hn; apply HI; reflexivity].
  - split; [intros He; apply HI in He; discriminate | intros _; exact H].
Qed.

(** the default limits of sexp_equalp_op *)
Definition inb (a : obj) : Prop := within a EQUAL_DEPTH EQUAL_BOUND.

Theorem equalb_iff a b : wf a -> wf b -> inb a -> (equalb a b = true <-> absv a = absv b).
Proof.
  intros Wa Wb Hi. unfold equalb, equal_op.
  destruct (equal_iff_same_abstract_value a b (S (osize a + osize b)) EQUAL_DEPTH EQUAL_BOUND Wa Wb ltac:(lia) Hi) as [H1 H2].
  split.
  - intros H. destruct (aeqb a b) eqn:E; [apply aeqb_iff_absv; exact E|].
    rewrite H2 in H; [discriminate|]. intros He. apply aeqb_iff_absv in He. congruence.
  - intros He. destruct (H1 He) as [b' [-> _]]. reflexivity.
Qed.

(** termination: the fuel sexp_equalp_op is given is never exhausted within the limits *)
Theorem equal_terminates a b : wf a -> wf b -> inb a -> equal_op a b <> EFuel.
Proof.
  intros Wa Wb Hi. unfold equal_op.
  pose proof (equal_bound_spec (S (osize a + osize b)) a b EQUAL_DEPTH EQUAL_BOUND Wa Wb ltac:(lia) (proj1 Hi) (proj2 Hi)) as H.
  unfold okres in H. destruct (aeqb a b); [destruct H as [b' [-> _]]; discriminate | rewrite H; discriminate].
Qed.

Theorem equal_refl a : wf a -> inb a -> equalb a a = true.
Proof. intros Wa Hi. apply equalb_iff; auto. Qed.

Theorem equal_sym a b : wf a -> wf b -> inb a -> inb b -> equalb a b = equalb b a.
Proof.
  intros Wa Wb Ha Hb. pose proof (equalb_iff a b Wa Wb Ha) as H1. pose proof (equalb_iff b a Wb Wa Hb) as H2.
  destruct (equalb a b), (equalb b a); try reflexivity.
  - assert (absv b = absv a) as E by (symmetry; apply H1; reflexivity). apply H2 in E. discriminate.
  - assert (absv a = absv b) as E by (symmetry; apply H2; reflexivity). apply H1 in E. discriminate.
Qed.

Theorem equal_trans a b c : wf a -> wf b -> wf c -> inb a -> inb b ->
  equalb a b = true -> equalb b c = true -> equalb a c = true.
Proof.
  intros Wa Wb Wc Ha Hb H1 H2. apply (equalb_iff a b Wa Wb Ha) in H1. apply (equalb_iff b c Wb Wc Hb) in H2.
  apply (equalb_iff a c Wa Wc Ha). congruence.
Qed.

(** equal? objects have the same default hash, for every bound (after the two repairs) *)
Theorem hash_respects_equal a b bound : wf a -> wf b -> inb a -> equalb a b = true -> hash_one a bound = hash_one b bound.
Proof.
  intros Wa Wb Hi H. apply hash_respects_abstract_value; auto. apply (equalb_iff a b Wa Wb Hi). exact H.
Qed.

(** eqv? is finer than equal? and coincides with it on numbers *)
Theorem eqv_implies_equal a b : wf a -> wf b -> inb a -> eqvb a b = true -> equalb a b = true.
Proof.
  intros Wa Wb Hi H. unfold eqvb in H. apply orb_true_iff in H. destruct H as [H|H].
  - apply (equalb_iff a b Wa Wb Hi). apply aeqb_iff_absv. apply same_word_aeqb. exact H.
  - apply andb_true_iff in H. tauto.
Qed.

(** non-vacuity: a list holding 2^100 with two spare words, a string at offset 2 of a larger store
    and the empty vector is equal? to its canonical twin, in both orders, with the same hash *)
Example equal_example :
  let a := Pair (Big 1 [0; 68719476736; 0; 0]) (Pair (Str [80; 80; 99; 100; 101; 7] 2 3) (Pair (Vec []) (Imm 574))) in
  let b := Pair (Big 1 [0; 68719476736]) (Pair (Str [99; 100; 101] 0 3) (Pair (Vec []) (Imm 574))) in
  equalb a b = true /\ equalb b a = true /\ hash_one a 23 = hash_one b 23 /\ absv a = absv b.
Proof. vm_compute. repeat split; reflexivity. Qed.
