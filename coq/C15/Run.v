(** C15 — executable glue for the correspondence runs: the table model instantiated with object
    keys and the modelled hash / equivalence functions, and the SPEC map instantiated with key
    classes.  Keys are indices into a key vector; values are integers.  NO proofs here. *)
From Coq Require Import List ZArith Bool Arith.
From ChibiV Require Import Common.Words Gen.C15_Consts C15.Table C15.Obj C15.Graph Gen.C15_Equiv.
Import ListNotations.
Local Open Scope Z_scope.

(** value of a fixnum immediate given as its unsigned raw word *)
Definition fixval (o : obj) : Z :=
  match o with Imm w => (if w <? 2 ^ 63 then w else w - 2 ^ 64) / 2 | _ => 0 end.

Definition string_eqb (a b : obj) : bool :=
  match a, b with
  | Str s1 o1 l1, Str s2 o2 l2 => list_eqb (str_data s1 o1 l1) (str_data s2 o2 l2)
  | _, _ => false
  end.

(** table kinds: 0 = (make-hash-table eq?) [hash-by-identity, immediates only], 1 = eqv? with `hash',
    2 = equal? with `hash', 3 = string=? with string-hash, 4 = user procedures
    (lambda (a b) (= (modulo a 7) (modulo b 7))) / (lambda (k n) (+ (modulo k 7) 20)) whose hash
    leaves [0,n) for small n (the clamp of sexp_get_bucket), 5 = user procedures with a WEAK hash (round 4):
    (lambda (a b) (= (modulo a 41) (modulo b 41))) / (lambda (k n) (product 5 (modulo (modulo k 41) 3))) [product = the multiplication sign] — up to 41 keys in
    three chains (buckets 0, 5, 10 of every vector), so every regrow 23 -> 46 -> ... -> 736 moves long chains *)
Definition k_eq (kind : nat) (a b : obj) : bool :=
  match kind with
  | 0%nat => same_word a b
  | 1%nat => eqvb a b
  | 2%nat => equalb a b
  | 3%nat => string_eqb a b
  | 4%nat => (fixval a mod 7) =? (fixval b mod 7)
  | _ => (fixval a mod 41) =? (fixval b mod 41)
  end.
Definition k_hash (kind : nat) (a : obj) (n : nat) : nat :=
  match kind with
  | 0%nat => Z.to_nat (hash_by_identity a (Z.of_nat n))
  | 1%nat | 2%nat => Z.to_nat (hash_one a (Z.of_nat n))
  | 3%nat => Z.to_nat (string_hash a (Z.of_nat n))
  | 4%nat => Z.to_nat (fixval a mod 7 + 20)
  | _ => Z.to_nat (5 * ((fixval a mod 41) mod 3))
  end.

(** HCopy: the current table becomes (hash-table-copy current), the previous current table is kept as `the other';
    HKeep: the other := (hash-table-copy current), the current table stays; HSwap: exchange the two.
    Set/Del/Upd act on the current table only; BOTH tables are observed after every operation. *)
Inductive hop : Type := HSet (k : nat) (v : Z) | HDel (k : nat) | HCopy | HUpd (k : nat) (d : Z) | HKeep | HSwap
  | HNop             (* round 4: an update whose procedure raises: the table must not change *)
  | HUpdP (k : nat). (* round 4: hash-table-update! without default: succ on a present key, error and no change otherwise *)

Definition lookup_val (c : option (nat * Z)) : option Z := option_map snd c.

Section ObjTable.
Variable kind : nat.
Variable keys : list obj.
Definition kobj (i : nat) : obj := nth i keys (Imm 0).
Definition hf (i n : nat) : nat := k_hash kind (kobj i) n.
(** the same key object (same index) is pointer-identical: every comparison path starts with eq? / a == b *)
Definition ef (i j : nat) : bool := (i =? j)%nat || k_eq kind (kobj i) (kobj j).

Definition ostep (tt : @table nat Z * option (@table nat Z)) (o : hop) : @table nat Z * option (@table nat Z) :=
  let '(t, u) := tt in
  match o with
  | HSet k v => (tset hf ef t k v, u)
  | HDel k => (tdelete hf ef t k, u)
  | HCopy => (tcopy hf ef t, Some t)
  | HUpd k d => (tupdate hf ef t k Z.succ d, u)
  | HKeep => (t, Some (tcopy hf ef t))
  | HSwap => match u with Some t' => (t', Some t) | None => (t, u) end
  | HNop => (t, u)
  | HUpdP k => (match tref hf ef t k with Some (_, v) => tupdate hf ef t k Z.succ v | None => t end, u)
  end.

(** what is observed after each operation: size slot, number of buckets, hash-table->alist in its
    exact order, and hash-table-ref/default of every key of the universe *)
Definition odump (t : @table nat Z) : Z * nat * list (nat * Z) * list (option Z) :=
  (tsize t, length (buckets t), to_alist t, map (fun i => lookup_val (tref hf ef t i)) (seq 0 (length keys))).

Definition odump2 (tt : @table nat Z * option (@table nat Z)) :=
  odump (fst tt) :: match snd tt with Some u => [odump u] | None => [] end.
Fixpoint orun (t : @table nat Z * option (@table nat Z)) (ops : list hop) : list (list (Z * nat * list (nat * Z) * list (option Z))) :=
  match ops with
  | [] => []
  | o :: r => let t' := ostep t o in odump2 t' :: orun t' r
  end.
Definition obj_hist (ops : list hop) := orun (tempty, None) ops.
End ObjTable.

Section ClassMap.
Variable cls : list Z.         (* class id of each key of the universe under the table's equivalence *)
Definition cf (i j : nat) : bool := nth i cls (-1) =? nth j cls (-2).

(** the SPEC side: two independent association maps; a copy is the same map *)
Definition mstep' (mm : @amap nat Z * option (@amap nat Z)) (o : hop) : @amap nat Z * option (@amap nat Z) :=
  let '(m, u) := mm in
  match o with
  | HSet k v => (mset cf m k v, u)
  | HDel k => (mdel cf m k, u)
  | HCopy => (m, Some m)
  | HUpd k d => (mset cf m k (Z.succ (match mref cf m k with Some (_, v) => v | None => d end)), u)
  | HKeep => (m, Some m)
  | HSwap => match u with Some m' => (m', Some m) | None => (m, u) end
  | HNop => (m, u)
  | HUpdP k => (match mref cf m k with Some (_, v) => mset cf m k (Z.succ v) | None => m end, u)
  end.
Definition mdump (m : @amap nat Z) : Z * list (nat * Z) * list (option Z) :=
  (Z.of_nat (length m), m, map (fun i => lookup_val (mref cf m i)) (seq 0 (length cls))).
Definition mdump2 (mm : @amap nat Z * option (@amap nat Z)) :=
  mdump (fst mm) :: match snd mm with Some u => [mdump u] | None => [] end.
Fixpoint mrun (m : @amap nat Z * option (@amap nat Z)) (ops : list hop) : list (list (Z * list (nat * Z) * list (option Z))) :=
  match ops with
  | [] => []
  | o :: r => let m' := mstep' m o in mdump2 m' :: mrun m' r
  end.
Definition map_hist (ops : list hop) := mrun ([], None) ops.
End ClassMap.

(** single-object entry points for the function-level correspondence *)
Definition q_equal_bound (a b : obj) (depth bound : Z) : eres := equal_bounded a b depth bound.
Definition q_equal (a b : obj) : bool := equalb a b.
Definition q_eqv (a b : obj) : bool := eqvb a b.
Definition q_hash (a : obj) (bound : Z) : Z := hash_one a bound.
Definition q_string_hash (a : obj) (bound : Z) : Z := string_hash a bound.

(** data with sharing / cycles: a graph whose leaves are atoms of Obj.v compared by the model of the core equal?.
    q_geq = (the regenerated equiv? of lib/chibi/equiv.scm, the SPEC decision bisim_dec);
    q_gtop = the whole (scheme base) equal? given the answer of the bounded C pass *)
Definition q_geq (g : list (node obj)) (a b : nat) : option bool * bool :=
  (fst (equiv equalb g (equiv_fuel g) a b []), bisim_dec equalb g a b).
Definition q_gmodel (g : list (node obj)) (a b : nat) : option bool := fst (equiv equalb g (equiv_fuel g) a b []).
Definition q_gtop (g : list (node obj)) (res : option Z) (a b : nat) : option bool := equal_top equalb g res a b.
