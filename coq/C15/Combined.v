(** C15 — the two halves together: tables keyed by objects, hashed by `hash' and compared by equal?. *)
From Coq Require Import List ZArith Bool.
From ChibiV Require Import Common.Words Gen.C15_Consts C15.Table C15.TableProofs C15.Obj C15.ObjProofs C15.ObjEqual.
Import ListNotations.
Local Open Scope Z_scope.

(** keys: well-formed objects inside the default limits of sexp_equalp_op *)
Definition okey : Type := { o : obj | wf o /\ inb o }.
Definition okey_eq (a b : okey) : bool := equalb (proj1_sig a) (proj1_sig b).
Definition okey_hash (a : okey) (n : nat) : nat := Z.to_nat (hash_one (proj1_sig a) (Z.of_nat n)).

Theorem object_tables_are_maps : forall (V : Type) (ops : list (@op okey V)) (k : okey),
  tref okey_hash okey_eq (run_table okey_hash okey_eq ops) k = mref okey_eq (run_map okey_eq ops) k.
Proof.
  intros V. apply TableProofs.table_refines_map.
  - intros [a [Wa Ia]]. apply ObjEqual.equal_refl; assumption.
  - intros [a [Wa Ia]] [b [Wb Ib]] H. unfold okey_eq in *. cbn [proj1_sig] in *.
    rewrite <- (ObjEqual.equal_sym a b Wa Wb Ia Ib). exact H.
  - intros [a [Wa Ia]] [b [Wb Ib]] [c [Wc Ic]] H1 H2. unfold okey_eq in *. cbn [proj1_sig] in *.
    apply (ObjEqual.equal_trans a b c); assumption.
  - intros [a [Wa Ia]] [b [Wb Ib]] n H. unfold okey_eq, okey_hash in *. cbn [proj1_sig] in *.
    rewrite (ObjEqual.hash_respects_equal a b (Z.of_nat n) Wa Wb Ia H). reflexivity.
Qed.
