(** C15 — the two halves together: tables keyed by objects, hashed by `hash' and compared by equal?. *)
From Coq Require Import List ZArith Bool.
From ChibiV Require Import Common.Words Gen.C15_Consts C15.Table C15.TableProofs C15.Obj C15.ObjProofs C15.ObjEqual C15.Graph Gen.C15_Equiv.
From ChibiV Require C15.GraphProofs.
Import ListNotations.
Local Open Scope Z_scope.

(** keys: well-formed objects inside the default limits of sexp_equalp_op *)
Definition okey : Type := { o : obj | wf o /\ inb o }.
Definition okey_eq (a b : okey) : bool := equalb (proj1_sig a) (proj1_sig b).
Definition okey_hash (a : okey) (n : nat) : nat := Z.to_nat (hash_one (proj1_sig a) (Z.of_nat n)).

Theorem object_tables_are_maps : forall (V : Type) (ops : list (@op okey V)) (k : okey),
  tref okey_hash okey_eq (run_table okey_hash okey_eq ops) k = mref okey_eq (run_map okey_eq ops) k.
Proof.
  intros V. apply TableProofs.table_refines_map.
  - intros [a [Wa Ia]]. apply ObjEqual.equal_refl; assumption.
  - intros [a [Wa Ia]] [b [Wb Ib]] H. unfold okey_eq in *. cbn [proj1_sig] in *.
    rewrite <- (ObjEqual.equal_sym a b Wa Wb Ia Ib). exact H.
  - intros [a [Wa Ia]] [b [Wb Ib]] [c [Wc Ic]] H1 H2. unfold okey_eq in *. cbn [proj1_sig] in *.
    apply (ObjEqual.equal_trans a b c); assumption.
  - intros [a [Wa Ia]] [b [Wb Ib]] n H. unfold okey_eq, okey_hash in *. cbn [proj1_sig] in *.
    rewrite (ObjEqual.hash_respects_equal a b (Z.of_nat n) Wa Wb Ia H). reflexivity.
Qed.

(** data with sharing and cycles whose leaves are atoms of Obj.v (well formed, inside the limits of the core
    equal?, which is what equiv.scm calls on them): the whole (scheme base) equal? decides bisimilarity *)
Theorem equal_on_object_graphs : forall (g : list (node obj)) res a b,
  wfg g -> (forall l, In (NLeaf l) g -> wf l /\ inb l) -> (a < length g)%nat -> (b < length g)%nat ->
  GraphProofs.bounded_sound equalb g res a b ->
  (equal_top equalb g res a b = Some true <-> bisim equalb g a b) /\
  (equal_top equalb g res a b = Some false <-> ~ bisim equalb g a b) /\
  equal_top equalb g res a b <> None.
Proof.
  intros g res a b Hwf Hl Ha Hb Hs. apply GraphProofs.equal_total_correct; try assumption. split.
  - intros l Hin. destruct (Hl l Hin). apply ObjEqual.equal_refl; assumption.
  - intros l1 l2 l3 H1 H2 H3. destruct (Hl l1 H1), (Hl l2 H2), (Hl l3 H3). apply ObjEqual.equal_trans; assumption.
Qed.
