(** C15 — pointer-level model of the bucket chains of lib/srfi/69/hash.c.  NO proofs in this file
    (see ChainProofs.v).

    Table.v treats a bucket as a list VALUE.  In the code a bucket is a chain of spine pairs in the
    heap: [car] = pointer to the (key . value) cell, [cdr] = next spine pair or '().  Two
    operations mutate spine pairs IN PLACE, so aliasing matters for them:
    - sexp_hash_table_delete, hash.c:230-236 (pinned text, gen/c15_consts.py): a non-head match is
      unlinked by walking to its predecessor [p] and [sexp_cdr(p) = sexp_cdr(res)];
    - the "move the links instead of consing" variant of sexp_regrow_hash_table (seeded change
      C02-c2): [next = sexp_cdr(ls); j = bucket; sexp_cdr(ls) = newvec[j]; newvec[j] = ls; ls = next].
    The cells themselves (the (key . value) pairs) are never touched by these two operations, so a
    cell is an abstract value [K * V] here. *)
From Coq Require Import List ZArith Bool Arith.
From ChibiV Require Import C15.Table.
Import ListNotations.

Section Chain.
Context {K V : Type}.
Variable hashf : K -> nat -> nat.
Variable eqf : K -> K -> bool.

Definition ptr := option nat.                         (* '() or the address of a spine pair *)
Record spine : Type := Sp { scar : K * V; scdr : ptr }.
Definition heap := nat -> spine.                      (* total; addresses outside the chains hold junk *)
Definition hupd (h : heap) (a : nat) (s : spine) : heap :=
  fun x => if Nat.eqb x a then s else h x.
Definition set_cdr (h : heap) (a : nat) (p : ptr) : heap := hupd h a (Sp (scar (h a)) p).

(** the cells of a chain, front to back; [None] = the walk did not end within [fuel] pairs (cyclic) *)
Fixpoint read (fuel : nat) (h : heap) (p : ptr) : option (list (K * V)) :=
  match p with
  | None => Some []
  | Some a =>
      match fuel with
      | O => None
      | S f => match read f h (scdr (h a)) with
               | Some l => Some (scar (h a) :: l)
               | None => None
               end
      end
  end.

(** sexp_scan_bucket (user eq_fn arm), hash.c:155-164: address of the first spine pair whose cell's
    key satisfies eq_fn(caar p, obj); [Some None] = no match, [None] = out of fuel *)
Fixpoint scan (fuel : nat) (h : heap) (p : ptr) (k : K) : option ptr :=
  match p with
  | None => Some None
  | Some a =>
      match fuel with
      | O => None
      | S f => if eqf (fst (scar (h a))) k then Some (Some a) else scan f h (scdr (h a)) k
      end
  end.

(** hash.c:233-235: for (p=bucket; sexp_cdr(p)!=res; p=sexp_cdr(p)) ; sexp_cdr(p) = sexp_cdr(res); *)
Fixpoint splice (fuel : nat) (h : heap) (p : nat) (res : nat) : option heap :=
  match fuel with
  | O => None
  | S f =>
      match scdr (h p) with
      | Some q => if Nat.eqb q res then Some (set_cdr h p (scdr (h res))) else splice f h q res
      | None => None                                  (* the code would dereference '() *)
      end
  end.

(** the chain part of sexp_hash_table_delete, hash.c:228-237: returns the new heap and the new
    content of the bucket slot *)
Definition chain_delete (fuel : nat) (h : heap) (head : ptr) (k : K) : option (heap * ptr) :=
  match scan fuel h head k with
  | None => None
  | Some None => Some (h, head)
  | Some (Some res) =>
      match head with
      | Some a =>
          if Nat.eqb res a then Some (h, scdr (h res))
          else match splice fuel h a res with Some h' => Some (h', head) | None => None end
      | None => None
      end
  end.

(** inner loop of the relinking regrow (seeded change C02-c2) *)
Fixpoint relink_chain (fuel n : nat) (st : heap * list ptr) (ls : ptr) : option (heap * list ptr) :=
  match ls with
  | None => Some st
  | Some a =>
      match fuel with
      | O => None
      | S f =>
          let (h, nv) := st in
          let next := scdr (h a) in
          let j := get_bucket hashf n (fst (scar (h a))) in
          relink_chain f n (set_cdr h a (nth j nv None), upd_nth j (fun _ => Some a) nv) next
      end
  end.

Fixpoint relink_all (fuel n : nat) (st : heap * list ptr) (ov : list ptr) : option (heap * list ptr) :=
  match ov with
  | [] => Some st
  | p :: r => match relink_chain fuel n st p with
              | Some st' => relink_all fuel n st' r
              | None => None
              end
  end.

(** the relinking sexp_regrow_hash_table: old buckets 0..n-1, new vector of 2n empty buckets *)
Definition regrow_relink (fuel : nat) (h : heap) (ov : list ptr) : option (heap * list ptr) :=
  let n := (2 * length ov)%nat in relink_all fuel n (h, repeat None n) ov.

(** WRONG variant 1: the cdr of the moved pair is only overwritten when the new bucket is not empty
    ([if (sexp_pairp(newvec[j])) sexp_cdr(ls) = newvec[j];]) — the pair drags its old tail along *)
Fixpoint relink_chain_noclear (fuel n : nat) (st : heap * list ptr) (ls : ptr) : option (heap * list ptr) :=
  match ls with
  | None => Some st
  | Some a =>
      match fuel with
      | O => None
      | S f =>
          let (h, nv) := st in
          let next := scdr (h a) in
          let j := get_bucket hashf n (fst (scar (h a))) in
          let h' := match nth j nv None with Some _ => set_cdr h a (nth j nv None) | None => h end in
          relink_chain_noclear f n (h', upd_nth j (fun _ => Some a) nv) next
      end
  end.

(** WRONG variant 2: the last pair of a chain of two or more is not moved
    ([if (ls != oldvec[i] && !sexp_pairp(next)) break;]) *)
Fixpoint relink_chain_droplast (first : bool) (fuel n : nat) (st : heap * list ptr) (ls : ptr)
  : option (heap * list ptr) :=
  match ls with
  | None => Some st
  | Some a =>
      match fuel with
      | O => None
      | S f =>
          let (h, nv) := st in
          let next := scdr (h a) in
          if negb first && (match next with None => true | Some _ => false end) then Some st
          else
            let j := get_bucket hashf n (fst (scar (h a))) in
            relink_chain_droplast false f n (set_cdr h a (nth j nv None), upd_nth j (fun _ => Some a) nv) next
      end
  end.

(** SPEC side: a heap pointer [p] represents the list of cells [l] through the distinct addresses [as_] *)
Fixpoint is_chain (h : heap) (p : ptr) (as_ : list nat) : Prop :=
  match as_ with
  | [] => p = None
  | a :: r => p = Some a /\ is_chain h (scdr (h a)) r
  end.

Definition cells (h : heap) (as_ : list nat) : list (K * V) := map (fun a => scar (h a)) as_.

(** a bucket vector in the heap: slot i is the chain with addresses [nth i ass], all addresses of the
    whole vector pairwise distinct (no sharing between or inside chains), contents [bs] *)
Definition heap_buckets (h : heap) (vec : list ptr) (ass : list (list nat)) (bs : list (list (K * V))) : Prop :=
  Forall2 (is_chain h) vec ass /\ NoDup (concat ass) /\ bs = map (cells h) ass.

End Chain.
