(** C15 — data with sharing and cycles: rooted graphs, the SPEC (bisimilarity of two rooted graphs) and the
    primitives of the cycle-safe slow path of equal? (lib/chibi/equiv.scm).  NO proofs in this file
    (GraphProofs.v).  The function [equiv] itself is REGENERATED from lib/chibi/equiv.scm by
    gen/c15_equiv.py into Gen/C15_Equiv.v out of the combinators defined here.

    A datum is a node of a finite graph: node ids are indices into a list of nodes; a pair has two
    successor ids, a vector a list of them, everything else (numbers, strings, bytevectors, symbols,
    characters: what equiv.scm hands to the core equal?) is a leaf carrying a value of a type L compared by
    [leq].  Node identity (eq?) is equality of ids. *)
From Coq Require Import List ZArith Bool Arith.
Import ListNotations.

Inductive node (L : Type) : Type :=
| NPair (a d : nat)
| NVec (slots : list nat)
| NLeaf (l : L).
Arguments NPair {L} a d.
Arguments NVec {L} slots.
Arguments NLeaf {L} l.

(** the state of one run of equiv?: the eq?-table [equivs] of equiv.scm:8, mapping a node to ITS table
    (equiv.scm:9-13: created once per node by get-equivs), a table being a set of nodes (the values stored
    in it are the table itself: only presence is ever tested).  A table is named by its owner node. *)
Definition st : Type := list (nat * list nat).
Definition tab : Type := nat.
(** result of an expression in an `and'/`or' context: a boolean, or None = model fuel exhausted *)
Definition M : Type := st -> option bool * st.

Definition ret (b : bool) : M := fun s => (Some b, s).
Definition m_fuel : M := fun s => (None, s).
(** (and x y) / (or x y): y is evaluated in the state left by x *)
Definition m_and (x y : M) : M := fun s => match x s with (Some true, s') => y s' | r => r end.
Definition m_or (x y : M) : M := fun s => match x s with (Some false, s') => y s' | r => r end.
(** cond clause (t e) / (if t x y) *)
Definition m_ite (t x y : M) : M :=
  fun s => match t s with (Some true, s') => x s' | (Some false, s') => y s' | r => r end.
(** (let ((v (get-equivs x))) body) *)
Definition m_let (c : st -> tab * st) (body : tab -> M) : M := fun s => let '(t, s') := c s in body t s'.
(** statement; expression *)
Definition m_seq (c : st -> st) (x : M) : M := fun s => x (c s).

Fixpoint row (s : st) (x : nat) : option (list nat) :=
  match s with
  | [] => None
  | (y, ks) :: r => if Nat.eqb y x then Some ks else row r x
  end.
Fixpoint memb (k : nat) (ks : list nat) : bool :=
  match ks with [] => false | y :: r => Nat.eqb y k || memb k r end.
(** (hash-table-set! tab k tab): k joins the table owned by t *)
Fixpoint row_add (t k : nat) (s : st) : st :=
  match s with
  | [] => [(t, [k])]
  | (y, ks) :: r => if Nat.eqb y t then (y, if memb k ks then ks else k :: ks) :: r else (y, ks) :: row_add t k r
  end.
(** get-equivs, equiv.scm:9-13: the table of x, created empty on first use *)
Definition get_equivs (x : nat) (s : st) : tab * st :=
  match row s x with Some _ => (x, s) | None => (x, (x, []) :: s) end.
(** (hash-table-ref tab k thunk): is k present in the table *)
Definition tab_mem (s : st) (t : tab) (k : nat) : bool :=
  match row s t with Some ks => memb k ks | None => false end.
Definition m_tabref (t : tab) (k : nat) (thunk : M) : M :=
  fun s => if tab_mem s t k then (Some true, s) else thunk s.
(** merge!, equiv.scm:14-19: x joins tab, and so does every member of x's own table (if it has one) *)
Definition merge (t : tab) (x : nat) (s : st) : st :=
  let s1 := row_add t x s in
  match row s1 x with
  | Some ks => fold_left (fun s' k => row_add t k s') ks s1
  | None => s1
  end.

Section Graph.
Context {L : Type}.
Variable leq : L -> L -> bool.        (* the core equal? on two leaves *)
Variable g : list (node L).

Definition nd (i : nat) : option (node L) := nth_error g i.
Definition is_pair (a : nat) : bool := match nd a with Some (NPair _ _) => true | _ => false end.
Definition is_vector (a : nat) : bool := match nd a with Some (NVec _) => true | _ => false end.
Definition ncar (a : nat) : nat := match nd a with Some (NPair x _) => x | _ => a end.
Definition ncdr (a : nat) : nat := match nd a with Some (NPair _ y) => y | _ => a end.
Definition slots_of (a : nat) : list nat := match nd a with Some (NVec s) => s | _ => [] end.
Definition vlen (a : nat) : Z := Z.of_nat (length (slots_of a)).
Definition vref (a : nat) (i : Z) : nat := nth (Z.to_nat i) (slots_of a) a.
(** the `else' clause of equiv.scm: (equal? a b) of the core on an a that is neither pair nor vector *)
Definition leaf_equal (a b : nat) : bool :=
  match nd a, nd b with Some (NLeaf x), Some (NLeaf y) => leq x y | _, _ => false end.

(** iterations granted to a named-let loop over the slots of the vector a (vector-length + 2) *)
Definition loop_fuel (a : nat) : nat := S (S (length (slots_of a))).

(** fuel of the generated [equiv]: nesting depth of calls; every nested call below a pair/vector call has
    one more entry in the tables, of which there are at most |g|^2 *)
Definition equiv_fuel : nat := S (length g * length g).

(** ---------------------------------------------------------------- SPEC: bisimilarity *)
Definition step (R : nat -> nat -> Prop) (x y : nat) : Prop :=
  match nd x, nd y with
  | Some (NPair a d), Some (NPair a' d') => R a a' /\ R d d'
  | Some (NVec s), Some (NVec s') => Forall2 R s s'
  | Some (NLeaf l), Some (NLeaf l') => leq l l' = true
  | _, _ => False
  end.
Definition bisimulation (R : nat -> nat -> Prop) : Prop := forall x y, R x y -> step R x y.
(** greatest fixed point: x and y have the same (possibly infinite) unfolding *)
Definition bisim (x y : nat) : Prop := exists R, bisimulation R /\ R x y.

(** every successor id is a node of the graph *)
Definition node_closed (n : node L) : Prop :=
  match n with
  | NPair a d => a < length g /\ d < length g
  | NVec s => Forall (fun i => i < length g) s
  | NLeaf _ => True
  end.
Definition wfg : Prop := Forall node_closed g.

(** the obvious decision procedure for finite graphs: start from all pairs of nodes and delete the pairs
    whose one-step condition fails, until nothing changes (at most |g|^2 rounds) *)
Fixpoint memp (p : nat * nat) (l : list (nat * nat)) : bool :=
  match l with [] => false | q :: r => (Nat.eqb (fst q) (fst p) && Nat.eqb (snd q) (snd p)) || memp p r end.
Fixpoint all2b (R : nat -> nat -> bool) (s s' : list nat) : bool :=
  match s, s' with
  | [], [] => true
  | x :: r, y :: r' => R x y && all2b R r r'
  | _, _ => false
  end.
Definition stepb (R : nat -> nat -> bool) (x y : nat) : bool :=
  match nd x, nd y with
  | Some (NPair a d), Some (NPair a' d') => R a a' && R d d'
  | Some (NVec s), Some (NVec s') => all2b R s s'
  | Some (NLeaf l), Some (NLeaf l') => leq l l'
  | _, _ => false
  end.
Definition refine (S : list (nat * nat)) : list (nat * nat) :=
  filter (fun p => stepb (fun u v => memp (u, v) S) (fst p) (snd p)) S.
Fixpoint gfp (n : nat) (S : list (nat * nat)) : list (nat * nat) :=
  match n with
  | O => S
  | S n' => let S' := refine S in if Nat.eqb (length S') (length S) then S else gfp n' S'
  end.
Definition all_pairs : list (nat * nat) := list_prod (seq 0 (length g)) (seq 0 (length g)).
Definition bisim_dec (x y : nat) : bool := memp (x, y) (gfp (length all_pairs) all_pairs).

End Graph.
