(** C15 — which hash function goes with which equivalence (round 3): names of the equivalences / hash
    functions a constructor of (srfi 69) / (srfi 125) can choose between (the choice itself is
    REGENERATED from the source: Gen/C15_OptHash.v), their meaning on objects that live at an
    address, and the coherence table.  NO proofs in this file (see DefaultHashProofs.v). *)
From Coq Require Import List ZArith Bool.
From ChibiV Require Import Common.Words Gen.C15_Consts C15.Obj.
Import ListNotations.
Local Open Scope Z_scope.

Inductive eqname : Type := EqEq | EqEqv | EqEqual | EqStringEq | EqStringCi.
Inductive hashname : Type := HIdentity | HHash | HStringHash | HStringCiHash.

Definition eqname_eqb (a b : eqname) : bool :=
  match a, b with
  | EqEq, EqEq | EqEqv, EqEqv | EqEqual, EqEqual | EqStringEq, EqStringEq | EqStringCi, EqStringCi => true
  | _, _ => false
  end.

(** an object together with the address it lives at (immediates: the address is irrelevant) *)
Record lobj : Type := { addr : Z; ob : obj }.

(** eq?: the same immediate word, or the same heap address *)
Definition heap_eq (x y : lobj) : bool :=
  match ob x, ob y with
  | Imm a, Imm b => a =? b
  | Imm _, _ | _, Imm _ => false
  | _, _ => addr x =? addr y
  end.

(** the equivalences with a modelled meaning (string-ci=? has none: no claim is made for it) *)
Definition sem_eq (e : eqname) (x y : lobj) : bool :=
  match e with
  | EqEq => heap_eq x y
  | EqEqv => heap_eq x y || (is_number (ob x) && equalb (ob x) (ob y))
  | EqEqual => equalb (ob x) (ob y)
  | EqStringEq => match ob x, ob y with
                  | Str s1 o1 l1, Str s2 o2 l2 => list_eqb (str_data s1 o1 l1) (str_data s2 o2 l2)
                  | _, _ => false
                  end
  | EqStringCi => false
  end.

(** hash-by-identity = sexp_hash_by_identity: the raw word (immediate or POINTER) modulo the bound *)
Definition sem_hash (h : hashname) (x : lobj) (n : Z) : Z :=
  match h with
  | HIdentity => match ob x with Imm w => (w64 w) mod n | _ => (addr x) mod n end
  | HHash => hash_one (ob x) n
  | HStringHash => string_hash (ob x) n
  | HStringCiHash => 0
  end.

(** the pairs (equivalence, hash function) for which the hash respects the equivalence *)
Definition coherent_b (e : eqname) (h : hashname) : bool :=
  match e, h with
  | EqEq, HIdentity | EqEq, HHash | EqEqv, HHash | EqEqual, HHash | EqStringEq, HHash | EqStringEq, HStringHash => true
  | _, _ => false
  end.

(** the equivalences SRFI 69 / 125 allow to be given without a hash function and that are modelled *)
Definition standard_eqs : list eqname := [EqEq; EqEqv; EqEqual; EqStringEq].
