(** C15 — proofs about two-table histories and about hash-table->alist / hash-table-fold (round 4). *)
From Coq Require Import List ZArith Bool Arith Lia.
From ChibiV Require Import C15.Table C15.TableProofs C15.Table2.
Import ListNotations.
Local Open Scope Z_scope.

Section Proofs.
Context {K V : Type}.
Variable hashf : K -> nat -> nat.
Variable eqf : K -> K -> bool.
Hypothesis eqf_refl : forall a, eqf a a = true.
Hypothesis eq_sym : forall a b, eqf a b = true -> eqf b a = true.
Hypothesis eq_trans : forall a b c, eqf a b = true -> eqf b c = true -> eqf a c = true.
Hypothesis hash_eq : forall a b n, eqf a b = true -> hashf a n = hashf b n.

Notation sim := (@sim K V hashf eqf).
Notation tref := (@tref K V hashf eqf).

Definition sim_opt (u : option (@table K V)) (mu : option (@amap K V)) : Prop :=
  match u, mu with
  | Some t, Some m => sim t m
  | None, None => True
  | _, _ => False
  end.
Definition sim2 (tt : @table K V * option (@table K V)) (mm : @amap K V * option (@amap K V)) : Prop :=
  sim (fst tt) (fst mm) /\ sim_opt (snd tt) (snd mm).

Lemma sim_set t m k v : sim t m -> sim (tset hashf eqf t k v) (mset eqf m k v).
Proof. intros H. exact (sim_step hashf eqf eqf_refl eq_sym eq_trans hash_eq t m (OSet k v) H). Qed.
Lemma sim_del t m k : sim t m -> sim (tdelete hashf eqf t k) (mdel eqf m k).
Proof. intros H. exact (sim_step hashf eqf eqf_refl eq_sym eq_trans hash_eq t m (ODel k) H). Qed.
Lemma sim_copy t m : sim t m -> sim (tcopy hashf eqf t) m.
Proof. intros H. exact (sim_step hashf eqf eqf_refl eq_sym eq_trans hash_eq t m OCopy H). Qed.

Lemma sim2_step tt mm o : sim2 tt mm -> sim2 (tstep2 hashf eqf tt o) (mstep2 eqf mm o).
Proof.
  destruct tt as [t u], mm as [m mu]. intros [H1 H2]. cbn [fst snd] in H1, H2.
  destruct o as [k v|k|k f d| | | | |k f]; cbn [tstep2 mstep2].
  - split; cbn [fst snd]; [apply sim_set; exact H1 | exact H2].
  - split; cbn [fst snd]; [apply sim_del; exact H1 | exact H2].
  - split; cbn [fst snd]; [|exact H2]. unfold tupdate.
    destruct H1 as [Hi [Hu [Hr Hs]]]. rewrite (Hr k).
    apply sim_set. split; [exact Hi|]. split; [exact Hu|]. split; [exact Hr | exact Hs].
  - split; cbn [fst snd]; [apply sim_copy; exact H1 | exact H1].
  - split; cbn [fst snd]; [exact H1 | apply sim_copy; exact H1].
  - destruct u as [t'|], mu as [m'|]; cbn [sim_opt] in H2; try contradiction; split; cbn [fst snd sim_opt]; auto.
  - split; cbn [fst snd]; assumption.
  - split; cbn [fst snd]; [|exact H2].
    pose proof H1 as [Hi [Hu [Hr Hs]]]. rewrite (Hr k).
    destruct (mref eqf m k) as [[k0 v0]|] eqn:E; [|exact H1].
    unfold tupdate. rewrite (Hr k), E. apply sim_set. exact H1.
Qed.

Lemma sim2_run ops : forall tt mm, sim2 tt mm ->
  sim2 (fold_left (tstep2 hashf eqf) ops tt) (fold_left (mstep2 eqf) ops mm).
Proof.
  induction ops as [|o ops IH]; intros tt mm H; cbn [fold_left]; [exact H|].
  apply IH. apply sim2_step. exact H.
Qed.

(** hash-table->alist / hash-table-fold of a table in the invariant: exactly the cells the lookups return *)
Lemma alist_graph t m : sim t m ->
  (forall e, In e (to_alist t) <-> mref eqf m (fst e) = Some e) /\
  (forall k, (cnt eqf k (to_alist t) <= 1)%nat) /\
  Z.of_nat (length (to_alist t)) = tsize t.
Proof.
  intros [Hi [Hu [Hr Hs]]]. pose proof Hi as [Hne Hp Hb Hsz].
  assert (Hin : forall e, In e (to_alist t) <-> In e (concat (buckets t))).
  { intros e. unfold to_alist. rewrite <- in_rev. apply walk_in. }
  split; [|split].
  - intros e. rewrite Hin, <- Hr. unfold Table.tref. split.
    + intros He. apply (afind_unique eqf); [apply Hb | | apply eqf_refl].
      apply (placed_in_concat hashf eqf hash_eq); auto.
    + intros He. apply (afind_some_in eqf) in He. destruct He as [He _].
      apply in_concat_nth. eexists. exact He.
  - intros k. unfold to_alist.
    assert (Hc : forall l : list (K * V), cnt eqf k (rev l) = cnt eqf k l).
    { induction l as [|[k0 v0] l IH]; [reflexivity|]. cbn [rev]. rewrite (cnt_app eqf), IH. cbn [cnt app]. lia. }
    rewrite Hc. apply (walk_uniq hashf eqf hash_eq); exact Hi.
  - unfold to_alist, walk. rewrite rev_length, length_concat_rev. symmetry. exact Hsz.
Qed.

Theorem two_table_histories_refine_maps (ops : list (@op2 K V)) :
  sim2 (run_table2 hashf eqf ops) (run_map2 eqf ops).
Proof.
  apply sim2_run. split; cbn [fst snd sim_opt]; [|exact I].
  exact (sim_empty hashf eqf).
Qed.

End Proofs.
