(** C15 — proofs about the SRFI 69 table model (Table.v): for ANY hash function that respects the
    equivalence, any history of set / delete / copy (incl. every regrow) makes the table answer
    lookups exactly like the association-list map; size is the number of cells; no two cells of
    the table have equivalent keys; regrow preserves every lookup. *)
From Coq Require Import List ZArith Bool Arith Lia.
From ChibiV Require Import C15.Table.
Import ListNotations.
Local Open Scope Z_scope.

Section Proofs.
Context {K V : Type}.
Variable hashf : K -> nat -> nat.
Variable eqf : K -> K -> bool.
Hypothesis eqf_refl : forall a, eqf a a = true.
Hypothesis eq_sym : forall a b, eqf a b = true -> eqf b a = true.
Hypothesis eq_trans : forall a b c, eqf a b = true -> eqf b c = true -> eqf a c = true.
Hypothesis hash_eq : forall a b n, eqf a b = true -> hashf a n = hashf b n.

Notation gb := (get_bucket hashf).
Notation afind := (@afind K V eqf).
Notation bset := (@bset K V eqf).
Notation brem := (@brem K V eqf).
Notation tref := (@tref K V hashf eqf).
Notation tset := (@tset K V hashf eqf).
Notation tdelete := (@tdelete K V hashf eqf).
Notation regrow := (@regrow K V hashf).
Notation fill := (@fill K V hashf).
Notation bucket := (list (K * V)).
Notation table := (@table K V).

(* ------------------------------------------------------------------ the equivalence *)
Lemma eq_cong_r a b c : eqf a b = true -> eqf c a = eqf c b.
Proof.
  intros Hab. destruct (eqf c b) eqn:Hcb.
  - apply eq_trans with b; [exact Hcb | apply eq_sym; exact Hab].
  - destruct (eqf c a) eqn:Hca; [|reflexivity].
    rewrite (eq_trans c a b Hca Hab) in Hcb. discriminate.
Qed.

Lemma eq_cong_l a b c : eqf a b = true -> eqf a c = eqf b c.
Proof.
  intros Hab. destruct (eqf b c) eqn:Hbc.
  - apply eq_trans with b; assumption.
  - destruct (eqf a c) eqn:Hac; [|reflexivity].
    rewrite (eq_trans b a c (eq_sym _ _ Hab) Hac) in Hbc. discriminate.
Qed.

Lemma gb_eq n a b : eqf a b = true -> gb n a = gb n b.
Proof. intros H. unfold get_bucket. rewrite (hash_eq a b n H). reflexivity. Qed.

Lemma gb_lt n k : (0 < n)%nat -> (gb n k < n)%nat.
Proof.
  intros Hn. unfold get_bucket. destruct (Nat.ltb_spec (hashf k n) n); lia.
Qed.

(* ------------------------------------------------------------------ upd_nth / concat *)
Lemma length_upd_nth {A} n (f : A -> A) l : length (upd_nth n f l) = length l.
Proof. revert n. induction l as [|x r IH]; intros [|n]; cbn; auto. Qed.

Lemma nth_upd_nth_eq {A} n (f : A -> A) l d : (n < length l)%nat -> nth n (upd_nth n f l) d = f (nth n l d).
Proof.
  revert n. induction l as [|x r IH]; intros [|n] Hn; cbn in *; try lia; auto. apply IH. lia.
Qed.

Lemma nth_upd_nth_neq {A} n m (f : A -> A) l d : n <> m -> nth m (upd_nth n f l) d = nth m l d.
Proof.
  revert n m. induction l as [|x r IH]; intros [|n] [|m] Hn; cbn; try congruence; auto.
Qed.

Lemma concat_split {A} j (nb : list (list A)) : (j < length nb)%nat ->
  concat nb = concat (firstn j nb) ++ nth j nb [] ++ concat (skipn (S j) nb).
Proof.
  revert j. induction nb as [|b r IH]; intros [|j] Hj; cbn [length] in *; try lia.
  - reflexivity.
  - cbn [firstn skipn nth concat]. rewrite <- app_assoc. f_equal. apply IH. lia.
Qed.

Lemma concat_upd_split {A} j (f : list A -> list A) (nb : list (list A)) : (j < length nb)%nat ->
  concat (upd_nth j f nb) = concat (firstn j nb) ++ f (nth j nb []) ++ concat (skipn (S j) nb).
Proof.
  revert j. induction nb as [|b r IH]; intros [|j] Hj; cbn [length] in *; try lia.
  - reflexivity.
  - cbn [firstn skipn nth concat upd_nth]. rewrite <- app_assoc. f_equal. apply IH. lia.
Qed.

Lemma in_concat_nth {A} (e : A) bs : In e (concat bs) <-> exists j, In e (nth j bs []).
Proof.
  split.
  - intros H. apply in_concat in H. destruct H as [b [Hb He]].
    destruct (In_nth _ _ [] Hb) as [j [_ Hj]]. exists j. rewrite Hj. exact He.
  - intros [j Hj]. destruct (Nat.lt_ge_cases j (length bs)) as [Hl|Hl].
    + apply in_concat. exists (nth j bs []). split; [apply nth_In; exact Hl | exact Hj].
    + rewrite nth_overflow in Hj by exact Hl. destruct Hj.
Qed.

(* ------------------------------------------------------------------ counting matching cells *)
Fixpoint cnt (k : K) (l : bucket) : nat :=
  match l with [] => O | (k0, _) :: r => ((if eqf k0 k then 1 else 0) + cnt k r)%nat end.

Lemma cnt_app k a b : cnt k (a ++ b) = (cnt k a + cnt k b)%nat.
Proof. induction a as [|[k0 v0] a IH]; cbn [cnt app]; [reflexivity|]. rewrite IH. lia. Qed.

Lemma cnt_cong k k' l : eqf k k' = true -> cnt k l = cnt k' l.
Proof.
  intros H. induction l as [|[k0 v0] l IH]; cbn [cnt]; [reflexivity|].
  rewrite IH, (eq_cong_r k k' k0 H). reflexivity.
Qed.

Lemma cnt_zero_forall k l : (forall e, In e l -> eqf (fst e) k = false) -> cnt k l = O.
Proof.
  induction l as [|[k0 v0] l IH]; intros H; cbn [cnt]; [reflexivity|].
  pose proof (H (k0, v0) (or_introl eq_refl)) as H0. cbn [fst] in H0. rewrite H0. rewrite IH; [reflexivity|].
  intros e He. apply H. right. exact He.
Qed.

Lemma in_cnt_pos k l e : In e l -> eqf (fst e) k = true -> (1 <= cnt k l)%nat.
Proof.
  induction l as [|[k0 v0] l IH]; intros Hin He; [destruct Hin|].
  cbn [cnt]. destruct Hin as [<-|Hin].
  - cbn [fst] in He. rewrite He. lia.
  - specialize (IH Hin He). lia.
Qed.

Lemma afind_none_cnt l k : afind l k = None <-> cnt k l = O.
Proof.
  induction l as [|[k0 v0] l IH]; cbn [Table.afind cnt]; [tauto|].
  destruct (eqf k0 k); [split; [discriminate|lia]|]. rewrite IH. cbn. tauto.
Qed.

Lemma afind_some_in l k e : afind l k = Some e -> In e l /\ eqf (fst e) k = true.
Proof.
  induction l as [|[k0 v0] l IH]; cbn [Table.afind]; [discriminate|].
  destruct (eqf k0 k) eqn:E.
  - intros [= <-]. split; [left; reflexivity | exact E].
  - intros H. destruct (IH H). split; [right|]; assumption.
Qed.

Lemma afind_unique l k e : (cnt k l <= 1)%nat -> In e l -> eqf (fst e) k = true -> afind l k = Some e.
Proof.
  induction l as [|[k0 v0] l IH]; intros Hc Hin He; [destruct Hin|].
  cbn [Table.afind cnt] in *. destruct Hin as [<-|Hin].
  - cbn [fst] in He. rewrite He. reflexivity.
  - destruct (eqf k0 k) eqn:E.
    + pose proof (in_cnt_pos k l e Hin He). lia.
    + apply IH; auto.
Qed.

Lemma afind_ext l1 l2 k : (cnt k l1 <= 1)%nat -> (cnt k l2 <= 1)%nat ->
  (forall e, eqf (fst e) k = true -> (In e l1 <-> In e l2)) -> afind l1 k = afind l2 k.
Proof.
  intros H1 H2 H. destruct (afind l1 k) as [e|] eqn:E1.
  - apply afind_some_in in E1. destruct E1 as [Hin He]. symmetry. apply afind_unique; auto.
    apply H; auto.
  - destruct (afind l2 k) as [e|] eqn:E2; [|reflexivity].
    apply afind_some_in in E2. destruct E2 as [Hin He]. apply H in Hin; [|exact He].
    rewrite (afind_unique l1 k e H1 Hin He) in E1. discriminate.
Qed.

(* ------------------------------------------------------------------ chain-level laws *)
Lemma afind_bset l k v k' c : afind l k = Some c ->
  afind (bset l k v) k' = if eqf k k' then Some (fst c, v) else afind l k'.
Proof.
  induction l as [|[k0 v0] l IH]; cbn [Table.afind Table.bset]; [discriminate|].
  destruct (eqf k0 k) eqn:E.
  - intros [= <-]. cbn [Table.afind fst]. rewrite (eq_cong_l k0 k k' E).
    destruct (eqf k k'); reflexivity.
  - intros H. cbn [Table.afind]. destruct (eqf k0 k') eqn:E'.
    + destruct (eqf k k') eqn:E''; [|reflexivity].
      rewrite (eq_cong_r k' k k0 (eq_sym _ _ E'')) in E'. congruence.
    + apply IH. exact H.
Qed.

Lemma cnt_bset l k v k' : cnt k' (bset l k v) = cnt k' l.
Proof.
  induction l as [|[k0 v0] l IH]; cbn [Table.bset cnt]; [reflexivity|].
  destruct (eqf k0 k); cbn [cnt]; [reflexivity|]. rewrite IH. reflexivity.
Qed.

Lemma in_bset_key l k v e : In e (bset l k v) -> exists e0, In e0 l /\ fst e0 = fst e.
Proof.
  induction l as [|[k0 v0] l IH]; cbn [Table.bset]; [intros []|].
  destruct (eqf k0 k).
  - intros [<-|H]; [exists (k0, v0); split; [left|]; reflexivity | exists e; split; [right; exact H | reflexivity]].
  - intros [<-|H]; [exists (k0, v0); split; [left|]; reflexivity|].
    destruct (IH H) as [e0 [H0 H1]]. exists e0. split; [right|]; assumption.
Qed.

Lemma length_bset l k v : length (bset l k v) = length l.
Proof.
  induction l as [|[k0 v0] l IH]; cbn [Table.bset length]; [reflexivity|].
  destruct (eqf k0 k); cbn [length]; congruence.
Qed.

Lemma afind_brem l k k' : (forall x, (cnt x l <= 1)%nat) ->
  afind (brem l k) k' = if eqf k k' then None else afind l k'.
Proof.
  induction l as [|[k0 v0] l IH]; intros Hu; cbn [Table.afind Table.brem].
  - destruct (eqf k k'); reflexivity.
  - assert (forall x, (cnt x l <= 1)%nat) as Hu' by (intros x; specialize (Hu x); cbn [cnt] in Hu; lia).
    destruct (eqf k0 k) eqn:E.
    + rewrite (eq_cong_l k0 k k' E). destruct (eqf k k') eqn:E'; [|reflexivity].
      apply afind_none_cnt. specialize (Hu k'). cbn [cnt] in Hu.
      rewrite (eq_cong_l k0 k k' E), E' in Hu. lia.
    + cbn [Table.afind]. destruct (eqf k0 k') eqn:E'.
      * destruct (eqf k k') eqn:E''; [|reflexivity].
        rewrite (eq_cong_r k' k k0 (eq_sym _ _ E'')) in E'. congruence.
      * apply IH. exact Hu'.
Qed.

Lemma cnt_brem l k k' : (cnt k' (brem l k) <= cnt k' l)%nat.
Proof.
  induction l as [|[k0 v0] l IH]; cbn [Table.brem cnt]; [lia|].
  destruct (eqf k0 k); cbn [cnt]; lia.
Qed.

Lemma in_brem l k e : In e (brem l k) -> In e l.
Proof.
  induction l as [|[k0 v0] l IH]; cbn [Table.brem]; [intros []|].
  destruct (eqf k0 k); [intros H; right; exact H|].
  intros [<-|H]; [left; reflexivity | right; apply IH; exact H].
Qed.

Lemma length_brem l k c : afind l k = Some c -> S (length (brem l k)) = length l.
Proof.
  induction l as [|[k0 v0] l IH]; cbn [Table.afind Table.brem length]; [discriminate|].
  destruct (eqf k0 k); [reflexivity|]. intros H. cbn [length]. rewrite (IH H). reflexivity.
Qed.

(* ------------------------------------------------------------------ invariants *)
Definition placed (bs : list bucket) : Prop :=
  forall i e, In e (nth i bs []) -> gb (length bs) (fst e) = i.
Definition buniq (bs : list bucket) : Prop := forall i k, (cnt k (nth i bs []) <= 1)%nat.

Record inv (t : table) : Prop := {
  inv_ne : buckets t <> [];
  inv_placed : placed (buckets t);
  inv_uniq : buniq (buckets t);
  inv_size : tsize t = Z.of_nat (length (concat (buckets t))) }.

Lemma cnt_concat_single k (bs : list bucket) i0 :
  (forall i e, i <> i0 -> In e (nth i bs []) -> eqf (fst e) k = false) ->
  cnt k (concat bs) = cnt k (nth i0 bs []).
Proof.
  revert i0. induction bs as [|b r IH]; intros i0 H.
  - destruct i0; reflexivity.
  - cbn [concat]. rewrite cnt_app. destruct i0 as [|i0].
    + cbn [nth]. rewrite (IH (length r)).
      * rewrite nth_overflow by lia. cbn [cnt]. lia.
      * intros i e _ He. apply (H (S i) e); [lia | exact He].
    + cbn [nth]. rewrite (cnt_zero_forall k b).
      * apply IH. intros i e Hi He. apply (H (S i) e); [lia | exact He].
      * intros e He. apply (H O e); [lia | exact He].
Qed.

Lemma cnt_concat_placed k bs : placed bs -> cnt k (concat bs) = cnt k (nth (gb (length bs) k) bs []).
Proof.
  intros Hp. apply cnt_concat_single. intros i e Hi He.
  destruct (eqf (fst e) k) eqn:E; [|reflexivity].
  exfalso. apply Hi. rewrite <- (Hp i e He). apply gb_eq. exact E.
Qed.

Lemma cnt_nth_le_concat k (bs : list bucket) j : (cnt k (nth j bs []) <= cnt k (concat bs))%nat.
Proof.
  destruct (Nat.lt_ge_cases j (length bs)) as [Hl|Hl].
  - rewrite (concat_split j bs Hl). rewrite !cnt_app. etransitivity; [|apply Nat.le_add_l]. apply Nat.le_add_r.
  - rewrite nth_overflow by exact Hl. cbn. lia.
Qed.

Lemma placed_in_concat bs e k : placed bs -> In e (concat bs) -> eqf (fst e) k = true ->
  In e (nth (gb (length bs) k) bs []).
Proof.
  intros Hp Hin He. apply in_concat_nth in Hin. destruct Hin as [j Hj].
  rewrite <- (gb_eq (length bs) _ _ He), (Hp j e Hj). exact Hj.
Qed.

(* ------------------------------------------------------------------ regrow *)
Lemma fold_fill_concat n (bs : list bucket) nb : fold_left (fill n) bs nb = fill n nb (concat bs).
Proof.
  revert nb. induction bs as [|b r IH]; intros nb; cbn [fold_left concat]; [reflexivity|].
  rewrite IH. unfold Table.fill. rewrite fold_left_app. reflexivity.
Qed.

Lemma fill_length n nb es : length (fill n nb es) = length nb.
Proof.
  revert nb. induction es as [|e es IH]; intros nb; cbn; [reflexivity|].
  unfold Table.fill in IH. rewrite IH. unfold Table.push_at. apply length_upd_nth.
Qed.

Lemma push_at_concat_cnt k nb j e : (j < length nb)%nat ->
  cnt k (concat (push_at nb j e)) = ((if eqf (fst e) k then 1 else 0) + cnt k (concat nb))%nat.
Proof.
  intros Hj. unfold Table.push_at. rewrite (concat_upd_split j (cons e) nb Hj), (concat_split j nb Hj) at 1.
  rewrite !cnt_app. destruct e as [k0 v0]. cbn [cnt fst]. lia.
Qed.

Lemma push_at_concat_in (x : K * V) nb j (e : K * V) : (j < length nb)%nat ->
  In x (concat (push_at nb j e)) <-> x = e \/ In x (concat nb).
Proof.
  intros Hj. unfold Table.push_at. rewrite (concat_upd_split j (cons e) nb Hj), (concat_split j nb Hj) at 1.
  rewrite !in_app_iff. cbn [In]. intuition congruence.
Qed.

Lemma push_at_concat_length nb j (e : K * V) : (j < length nb)%nat ->
  length (concat (push_at nb j e)) = S (length (concat nb)).
Proof.
  intros Hj. unfold Table.push_at. rewrite (concat_upd_split j (cons e) nb Hj), (concat_split j nb Hj) at 1.
  rewrite !app_length. cbn [length]. lia.
Qed.

Lemma fill_props n nb es : (0 < n)%nat -> length nb = n ->
  (forall i e, In e (nth i nb []) -> gb n (fst e) = i) ->
  (forall i e, In e (nth i (fill n nb es) []) -> gb n (fst e) = i) /\
  (forall k, cnt k (concat (fill n nb es)) = (cnt k (concat nb) + cnt k es)%nat) /\
  (forall x, In x (concat (fill n nb es)) <-> In x (concat nb) \/ In x es) /\
  length (concat (fill n nb es)) = (length (concat nb) + length es)%nat.
Proof.
  intros Hn. revert nb. induction es as [|e es IH]; intros nb Hl Hp.
  - cbn [Table.fill fold_left cnt In length]. split; [exact Hp|]. split; [intros k; lia|]. split; [intros x; tauto | lia].
  - change (fill n nb (e :: es)) with (fill n (push_at nb (gb n (fst e)) e) es).
    assert (gb n (fst e) < length nb)%nat as Hj by (rewrite Hl; apply gb_lt; exact Hn).
    specialize (IH (push_at nb (gb n (fst e)) e)).
    destruct IH as [P1 [P2 [P3 P4]]].
    + unfold Table.push_at. rewrite length_upd_nth. exact Hl.
    + intros i x Hx. unfold Table.push_at in Hx.
      destruct (Nat.eq_dec (gb n (fst e)) i) as [<-|Hne].
      * rewrite nth_upd_nth_eq in Hx by exact Hj. destruct Hx as [<-|Hx]; [reflexivity | apply Hp; exact Hx].
      * rewrite nth_upd_nth_neq in Hx by exact Hne. apply Hp. exact Hx.
    + split; [exact P1|]. split; [|split].
      * intros k. rewrite P2, (push_at_concat_cnt k nb _ e Hj). destruct e as [k0 v0]. cbn [cnt fst]. lia.
      * intros x. rewrite P3, (push_at_concat_in x nb _ e Hj). cbn [In]. intuition congruence.
      * rewrite P4, (push_at_concat_length nb _ e Hj). cbn [length]. lia.
Qed.

Lemma concat_repeat_nil {A} n : concat (repeat (@nil A) n) = [].
Proof. induction n; cbn; auto. Qed.

Lemma nth_repeat_nil {A} n i : nth i (repeat (@nil A) n) [] = [].
Proof. revert i. induction n; intros [|i]; cbn; auto. Qed.

Lemma regrow_ok bs : bs <> [] -> placed bs -> buniq bs ->
  length (regrow bs) = (2 * length bs)%nat /\ placed (regrow bs) /\ buniq (regrow bs) /\
  (forall k, afind (nth (gb (length (regrow bs)) k) (regrow bs) []) k =
             afind (nth (gb (length bs) k) bs []) k) /\
  length (concat (regrow bs)) = length (concat bs).
Proof.
  intros Hne Hp Hu. set (n := (2 * length bs)%nat).
  assert (0 < n)%nat as Hn by (destruct bs; [congruence | cbn [length] in n; lia]).
  assert (regrow bs = fill n (repeat [] n) (concat bs)) as E by (unfold Table.regrow; apply fold_fill_concat).
  destruct (fill_props n (repeat [] n) (concat bs) Hn (repeat_length _ _)) as [P1 [P2 [P3 P4]]].
  { intros i e He. rewrite nth_repeat_nil in He. destruct He. }
  assert (length (regrow bs) = n) as Hlen by (rewrite E, fill_length; apply repeat_length).
  rewrite concat_repeat_nil in P2, P3, P4. cbn [cnt In length] in P2, P3, P4.
  assert (placed (regrow bs)) as Hp' by (unfold placed; rewrite Hlen, E; exact P1).
  split; [exact Hlen|]. split; [exact Hp'|].
  assert (forall j k, (cnt k (nth j (regrow bs) []) <= 1)%nat) as Hu'.
  { intros j k. eapply Nat.le_trans; [apply cnt_nth_le_concat|].
    rewrite E, P2, (cnt_concat_placed k bs Hp). cbn [Nat.add]. apply Hu. }
  split; [exact Hu'|]. split.
  - intros k. apply afind_ext; [apply Hu' | apply Hu |].
    intros e He. split; intros Hin.
    + apply placed_in_concat; [exact Hp | | exact He].
      assert (In e (concat (regrow bs))) as Hc by (apply in_concat_nth; eexists; exact Hin).
      rewrite E in Hc. apply P3 in Hc. destruct Hc as [[]|Hc]. exact Hc.
    + apply placed_in_concat; [exact Hp' | | exact He].
      rewrite E. apply P3. right. apply in_concat_nth. eexists; exact Hin.
  - rewrite E at 1. rewrite P4. reflexivity.
Qed.

(* ------------------------------------------------------------------ the three laws + invariant *)
Lemma length_concat_upd {A} i (f : list A -> list A) (bs : list (list A)) : (i < length bs)%nat ->
  (length (concat (upd_nth i f bs)) + length (nth i bs []) = length (concat bs) + length (f (nth i bs [])))%nat.
Proof.
  intros Hi. rewrite (concat_upd_split i f bs Hi), (concat_split i bs Hi) at 1.
  rewrite !app_length. lia.
Qed.

Lemma ne_length {A} (l : list A) : l <> [] -> (0 < length l)%nat.
Proof. destruct l; [congruence | cbn; lia]. Qed.

Lemma upd_ne {A} i (f : A -> A) l : l <> [] -> upd_nth i f l <> [].
Proof. intros H E. apply H. apply length_zero_iff_nil. rewrite <- (length_upd_nth i f l), E. reflexivity. Qed.

Theorem tset_law t k v : inv t ->
  inv (tset t k v) /\
  forall k', tref (tset t k v) k' =
    if eqf k k' then Some (match tref t k with Some c => fst c | None => k end, v) else tref t k'.
Proof.
  intros [Hne Hp Hu Hs]. unfold Table.tset, Table.tref.
  set (bs := buckets t) in *. set (i := gb (length bs) k).
  assert (i < length bs)%nat as Hi by (apply gb_lt, ne_length, Hne).
  destruct (afind (nth i bs []) k) as [c|] eqn:Ef.
  - (* existing cell: value replaced in place *)
    cbn [buckets tsize]. split.
    + constructor; cbn [buckets tsize].
      * apply upd_ne. exact Hne.
      * intros j e He. rewrite length_upd_nth. destruct (Nat.eq_dec i j) as [<-|Hne'].
        -- rewrite nth_upd_nth_eq in He by exact Hi. apply in_bset_key in He.
           destruct He as [e0 [H0 H1]]. rewrite <- H1. apply Hp. exact H0.
        -- rewrite nth_upd_nth_neq in He by exact Hne'. apply Hp. exact He.
      * intros j x. destruct (Nat.eq_dec i j) as [<-|Hne'].
        -- rewrite nth_upd_nth_eq by exact Hi. rewrite cnt_bset. apply Hu.
        -- rewrite nth_upd_nth_neq by exact Hne'. apply Hu.
      * pose proof (length_concat_upd i (fun b => bset b k v) bs Hi) as HL.
        cbv beta in HL. rewrite length_bset in HL. rewrite Hs. f_equal. symmetry. eapply Nat.add_cancel_r. exact HL.
    + intros k'. rewrite length_upd_nth. fold i.
      destruct (Nat.eq_dec i (gb (length bs) k')) as [E|E].
      * rewrite <- E. rewrite nth_upd_nth_eq by exact Hi. apply afind_bset. exact Ef.
      * rewrite nth_upd_nth_neq by exact E.
        destruct (eqf k k') eqn:E'; [|reflexivity]. exfalso. apply E. apply gb_eq. exact E'.
  - (* new cell, possibly after a regrow *)
    set (bs' := if resize_check (tsize t) (length bs) then regrow bs else bs).
    assert (bs' <> [] /\ placed bs' /\ buniq bs' /\
            (forall x, afind (nth (gb (length bs') x) bs' []) x = afind (nth (gb (length bs) x) bs []) x) /\
            length (concat bs') = length (concat bs)) as [Hne' [Hp' [Hu' [Hr' Hl']]]].
    { unfold bs'. destruct (resize_check (tsize t) (length bs)).
      - destruct (regrow_ok bs Hne Hp Hu) as [R1 [R2 [R3 [R4 R5]]]].
        repeat split; auto. intros E. apply length_zero_iff_nil in E. rewrite R1 in E.
        apply ne_length in Hne. lia.
      - repeat split; auto. }
    set (i' := gb (length bs') k).
    assert (i' < length bs')%nat as Hi' by (apply gb_lt, ne_length, Hne').
    assert (afind (nth i' bs' []) k = None) as Ef' by (unfold i'; rewrite Hr'; exact Ef).
    cbn [buckets tsize]. split.
    + constructor; cbn [buckets tsize]; unfold Table.push_at.
      * apply upd_ne. exact Hne'.
      * intros j e He. rewrite length_upd_nth. destruct (Nat.eq_dec i' j) as [<-|Hnj].
        -- rewrite nth_upd_nth_eq in He by exact Hi'. destruct He as [<-|He]; [reflexivity | apply Hp'; exact He].
        -- rewrite nth_upd_nth_neq in He by exact Hnj. apply Hp'. exact He.
      * intros j x. destruct (Nat.eq_dec i' j) as [<-|Hnj].
        -- rewrite nth_upd_nth_eq by exact Hi'. cbn [cnt]. destruct (eqf k x) eqn:E.
           ++ apply afind_none_cnt in Ef'. rewrite <- (cnt_cong k x _ E), Ef'. lia.
           ++ specialize (Hu' i' x). lia.
        -- rewrite nth_upd_nth_neq by exact Hnj. apply Hu'.
      * fold (push_at bs' i' (k, v)). rewrite (push_at_concat_length bs' i' (k, v) Hi'), Hl', Hs. lia.
    + intros k'. unfold Table.push_at. rewrite length_upd_nth.
      destruct (Nat.eq_dec i' (gb (length bs') k')) as [E|E].
      * rewrite <- E. rewrite nth_upd_nth_eq by exact Hi'. cbn [Table.afind].
        destruct (eqf k k'); [reflexivity|]. rewrite E. apply Hr'.
      * rewrite nth_upd_nth_neq by exact E. rewrite Hr'.
        destruct (eqf k k') eqn:E'; [|reflexivity]. exfalso. apply E. apply gb_eq. exact E'.
Qed.

Theorem tdelete_law t k : inv t ->
  inv (tdelete t k) /\
  forall k', tref (tdelete t k) k' = if eqf k k' then None else tref t k'.
Proof.
  intros [Hne Hp Hu Hs]. unfold Table.tdelete, Table.tref.
  set (bs := buckets t) in *. set (i := gb (length bs) k).
  assert (i < length bs)%nat as Hi by (apply gb_lt, ne_length, Hne).
  destruct (afind (nth i bs []) k) as [c|] eqn:Ef.
  - cbn [buckets tsize]. split.
    + constructor; cbn [buckets tsize].
      * apply upd_ne. exact Hne.
      * intros j e He. rewrite length_upd_nth. destruct (Nat.eq_dec i j) as [<-|Hne'].
        -- rewrite nth_upd_nth_eq in He by exact Hi. apply in_brem in He. apply Hp. exact He.
        -- rewrite nth_upd_nth_neq in He by exact Hne'. apply Hp. exact He.
      * intros j x. destruct (Nat.eq_dec i j) as [<-|Hne'].
        -- rewrite nth_upd_nth_eq by exact Hi. eapply Nat.le_trans; [apply cnt_brem | apply Hu].
        -- rewrite nth_upd_nth_neq by exact Hne'. apply Hu.
      * pose proof (length_concat_upd i (fun b => brem b k) bs Hi) as HL.
        cbv beta in HL. pose proof (length_brem _ _ _ Ef) as HB. rewrite <- HB in HL.
        rewrite Nat.add_succ_r, <- Nat.add_succ_l in HL. apply Nat.add_cancel_r in HL.
        rewrite Hs, <- HL, Nat2Z.inj_succ. lia.
    + intros k'. rewrite length_upd_nth. fold i.
      destruct (Nat.eq_dec i (gb (length bs) k')) as [E|E].
      * rewrite <- E. rewrite nth_upd_nth_eq by exact Hi. apply afind_brem. intros x. apply Hu.
      * rewrite nth_upd_nth_neq by exact E.
        destruct (eqf k k') eqn:E'; [|reflexivity]. exfalso. apply E. apply gb_eq. exact E'.
  - split; [constructor; assumption|]. intros k'. fold bs.
    destruct (eqf k k') eqn:E'; [|reflexivity].
    rewrite <- (gb_eq (length bs) k k' E'). fold i.
    apply afind_none_cnt. rewrite <- (cnt_cong k k' _ E'). apply afind_none_cnt. exact Ef.
Qed.

Lemma tempty_inv : inv (@tempty K V).
Proof.
  constructor; cbn [buckets tsize Table.tempty].
  - discriminate.
  - intros i e He. rewrite nth_repeat_nil in He. destruct He.
  - intros i k. rewrite nth_repeat_nil. cbn. lia.
  - rewrite concat_repeat_nil. reflexivity.
Qed.

Lemma tref_tempty k : tref (@tempty K V) k = None.
Proof. unfold Table.tref. cbn [buckets Table.tempty]. rewrite nth_repeat_nil. reflexivity. Qed.

(** size bookkeeping: +1 exactly when the key was absent, -1 exactly when it was present *)
Lemma tset_size t k v : tsize (tset t k v) = tsize t + (match tref t k with Some _ => 0 | None => 1 end).
Proof. unfold Table.tset, Table.tref. destruct (afind _ k); cbn [tsize]; lia. Qed.

Lemma tdelete_size t k : tsize (tdelete t k) = tsize t - (match tref t k with Some _ => 1 | None => 0 end).
Proof. unfold Table.tdelete, Table.tref. destruct (afind _ k); cbn [tsize]; lia. Qed.

(* ------------------------------------------------------------------ copy *)
Notation tmerge := (@tmerge K V hashf eqf).
Notation tcopy := (@tcopy K V hashf eqf).

Lemma tref_none_cong (t : table) k k' : eqf k k' = true -> tref t k = None -> tref t k' = None.
Proof.
  intros E H. unfold Table.tref in *. rewrite <- (gb_eq _ k k' E).
  apply afind_none_cnt. rewrite <- (cnt_cong k k' _ E). apply afind_none_cnt. exact H.
Qed.

Lemma tmerge_law es : forall a, inv a ->
  inv (tmerge a es) /\
  (forall k, tref (tmerge a es) k = match tref a k with Some c => Some c | None => afind es k end) /\
  tsize (tmerge a es) = Z.of_nat (length (concat (buckets (tmerge a es)))).
Proof.
  induction es as [|[k0 v0] es IH]; intros a Ha.
  - cbn. split; [exact Ha|]. split; [|apply Ha]. intros k. destruct (tref a k); reflexivity.
  - cbn [Table.tmerge fold_left fst snd]. fold (tmerge (match tref a k0 with Some _ => a | None => tset a k0 v0 end) es).
    destruct (tref a k0) as [c|] eqn:E0.
    + destruct (IH a Ha) as [I1 [I2 I3]]. split; [exact I1|]. split; [|exact I3].
      intros k. rewrite I2. destruct (tref a k) as [c'|] eqn:Ek; [reflexivity|].
      cbn [Table.afind]. destruct (eqf k0 k) eqn:E; [|reflexivity].
      exfalso. rewrite (tref_none_cong a k k0 (eq_sym _ _ E) Ek) in E0. discriminate.
    + destruct (tset_law a k0 v0 Ha) as [Hi Hl]. destruct (IH _ Hi) as [I1 [I2 I3]].
      split; [exact I1|]. split; [|exact I3].
      intros k. rewrite I2, Hl, E0. cbn [Table.afind]. destruct (eqf k0 k) eqn:E; [|reflexivity].
      rewrite (tref_none_cong a k0 k E E0). reflexivity.
Qed.

Lemma walk_in (t : table) e : In e (walk t) <-> In e (concat (buckets t)).
Proof.
  unfold walk. rewrite !in_concat. split; intros [b [Hb He]]; exists b; split; auto.
  - apply in_rev. exact Hb.
  - apply in_rev in Hb. exact Hb.
Qed.

Lemma cnt_concat_rev k (bs : list bucket) : cnt k (concat (rev bs)) = cnt k (concat bs).
Proof.
  induction bs as [|b r IH]; [reflexivity|]. cbn [rev concat].
  rewrite concat_app, !cnt_app, IH. cbn [concat]. rewrite app_nil_r. lia.
Qed.

Lemma tmerge_size es : forall a, inv a -> (forall k, (cnt k es <= 1)%nat) ->
  (forall e, In e es -> tref a (fst e) = None) ->
  tsize (tmerge a es) = tsize a + Z.of_nat (length es).
Proof.
  induction es as [|[k0 v0] es IH]; intros a Ha Hc Hn.
  - cbn. lia.
  - cbn [Table.tmerge fold_left fst snd].
    pose proof (Hn (k0, v0) (or_introl eq_refl)) as Hk0. cbn [fst] in Hk0. rewrite Hk0.
    fold (tmerge (tset a k0 v0) es).
    destruct (tset_law a k0 v0 Ha) as [Hi Hl]. rewrite IH.
    + rewrite tset_size, Hk0. cbn [length]. lia.
    + exact Hi.
    + intros k. specialize (Hc k). cbn [cnt] in Hc. lia.
    + intros e He. rewrite Hl. destruct (eqf k0 (fst e)) eqn:E.
      * exfalso. specialize (Hc (fst e)). cbn [cnt] in Hc. rewrite E in Hc.
        pose proof (in_cnt_pos (fst e) es e He (eqf_refl _)). lia.
      * apply Hn. right. exact He.
Qed.

Lemma length_concat_rev {A} (bs : list (list A)) : length (concat (rev bs)) = length (concat bs).
Proof.
  induction bs as [|b r IH]; [reflexivity|]. cbn [rev concat].
  rewrite concat_app, !app_length, IH. cbn [concat length]. rewrite app_nil_r. lia.
Qed.

Lemma walk_uniq t : inv t -> forall k, (cnt k (walk t) <= 1)%nat.
Proof.
  intros [Hne Hp Hu Hs] k. unfold walk. rewrite cnt_concat_rev, (cnt_concat_placed k _ Hp). apply Hu.
Qed.

Lemma tcopy_size t : inv t -> tsize (tcopy t) = tsize t.
Proof.
  intros Ht. unfold Table.tcopy. rewrite tmerge_size.
  - cbn [tsize Table.tempty]. unfold walk. rewrite length_concat_rev. destruct Ht as [_ _ _ Hs]. rewrite Hs. lia.
  - apply tempty_inv.
  - apply walk_uniq. exact Ht.
  - intros e _. apply tref_tempty.
Qed.

Theorem tcopy_law t : inv t -> inv (tcopy t) /\ forall k, tref (tcopy t) k = tref t k.
Proof.
  intros Ht. destruct (tmerge_law (walk t) tempty tempty_inv) as [I1 [I2 _]].
  split; [exact I1|]. intros k. unfold Table.tcopy. rewrite I2, tref_tempty.
  destruct Ht as [Hne Hp Hu Hs]. unfold Table.tref. apply afind_ext.
  - apply walk_uniq. constructor; assumption.
  - apply Hu.
  - intros e He. rewrite walk_in. split; intros Hin.
    + apply placed_in_concat; assumption.
    + apply in_concat_nth. eexists; exact Hin.
Qed.

(* ------------------------------------------------------------------ the SPEC map obeys the finite-map equations *)
Definition muniq (m : amap) : Prop := forall k, (cnt k m <= 1)%nat.

Lemma mset_law (m : @amap K V) k v k' :
  mref eqf (mset eqf m k v) k' =
    if eqf k k' then Some (match mref eqf m k with Some c => fst c | None => k end, v) else mref eqf m k'.
Proof.
  unfold mref, mset. destruct (afind m k) as [c|] eqn:E.
  - apply afind_bset. exact E.
  - cbn [Table.afind]. destruct (eqf k k'); reflexivity.
Qed.

Lemma mset_uniq (m : @amap K V) k v : muniq m -> muniq (mset eqf m k v).
Proof.
  intros Hu x. unfold mset. destruct (afind m k) eqn:E.
  - rewrite cnt_bset. apply Hu.
  - cbn [cnt]. destruct (eqf k x) eqn:E'; [|apply Hu].
    apply afind_none_cnt in E. rewrite <- (cnt_cong k x _ E'), E. lia.
Qed.

Lemma mdel_law (m : @amap K V) k k' : muniq m ->
  mref eqf (mdel eqf m k) k' = if eqf k k' then None else mref eqf m k'.
Proof. intros Hu. apply afind_brem. exact Hu. Qed.

Lemma mdel_uniq (m : @amap K V) k : muniq m -> muniq (mdel eqf m k).
Proof. intros Hu x. eapply Nat.le_trans; [apply cnt_brem | apply Hu]. Qed.

Lemma mset_length (m : @amap K V) k v :
  length (mset eqf m k v) = (length m + match mref eqf m k with Some _ => 0 | None => 1 end)%nat.
Proof. unfold mset, mref. destruct (afind m k); [rewrite length_bset|cbn [length]]; lia. Qed.

Lemma mdel_length (m : @amap K V) k :
  (length (mdel eqf m k) + match mref eqf m k with Some _ => 1 | None => 0 end = length m)%nat.
Proof.
  unfold mdel, mref. destruct (afind m k) eqn:E.
  - pose proof (length_brem _ _ _ E). lia.
  - assert (brem m k = m) as ->; [|lia].
    clear -E. induction m as [|[k0 v0] m IH]; cbn [Table.afind Table.brem] in *; [reflexivity|].
    destruct (eqf k0 k); [discriminate|]. rewrite IH; auto.
Qed.

(* ------------------------------------------------------------------ histories *)
Notation run_table := (@run_table K V hashf eqf).
Notation run_map := (@run_map K V eqf).
Notation tstep := (@tstep K V hashf eqf).
Notation mstep := (@mstep K V eqf).

Definition sim (t : table) (m : @amap K V) : Prop :=
  inv t /\ muniq m /\ (forall k, tref t k = mref eqf m k) /\ tsize t = Z.of_nat (length m).

Lemma sim_step t m o : sim t m -> sim (tstep t o) (mstep m o).
Proof.
  intros [Hi [Hu [Hr Hs]]]. destruct o as [k v|k|]; cbn [Table.tstep Table.mstep].
  - destruct (tset_law t k v Hi) as [Hi' Hl]. split; [exact Hi'|]. split; [apply mset_uniq; exact Hu|]. split.
    + intros k'. rewrite Hl, mset_law, !Hr. reflexivity.
    + rewrite tset_size, mset_length, Hr, Hs. destruct (mref eqf m k); lia.
  - destruct (tdelete_law t k Hi) as [Hi' Hl]. split; [exact Hi'|]. split; [apply mdel_uniq; exact Hu|]. split.
    + intros k'. rewrite Hl, mdel_law, Hr by exact Hu. reflexivity.
    + rewrite tdelete_size, Hr, Hs. pose proof (mdel_length m k). destruct (mref eqf m k); lia.
  - destruct (tcopy_law t Hi) as [Hi' Hl]. split; [exact Hi'|]. split; [exact Hu|]. split.
    + intros k'. rewrite Hl. apply Hr.
    + rewrite tcopy_size by exact Hi. exact Hs.
Qed.

Lemma sim_run ops : forall t m, sim t m -> sim (fold_left tstep ops t) (fold_left mstep ops m).
Proof.
  induction ops as [|o ops IH]; intros t m H; cbn [fold_left]; [exact H|].
  apply IH. apply sim_step. exact H.
Qed.

Lemma sim_empty : sim (@tempty K V) [].
Proof.
  split; [apply tempty_inv|]. split; [intros k; cbn; lia|]. split; [intros k; apply tref_tempty | reflexivity].
Qed.

(** ---- the property theorems (restated in Properties_C15.v) ---- *)

(** any history: every lookup of the table = the lookup of the association-list map *)
Theorem table_refines_map ops k : tref (run_table ops) k = mref eqf (run_map ops) k.
Proof. destruct (sim_run ops _ _ sim_empty) as [_ [_ [H _]]]. apply H. Qed.

(** size slot = number of cells = number of keys of the map *)
Theorem size_is_cardinality ops :
  tsize (run_table ops) = Z.of_nat (length (concat (buckets (run_table ops)))) /\
  tsize (run_table ops) = Z.of_nat (length (run_map ops)).
Proof.
  destruct (sim_run ops _ _ sim_empty) as [[_ _ _ Hs] [_ [_ H]]]. split; assumption.
Qed.

(** no two cells anywhere in the table carry equivalent keys, and every cell sits in the bucket
    its key hashes to *)
Theorem no_duplicate_keys ops k :
  (cnt k (concat (buckets (run_table ops))) <= 1)%nat /\ placed (buckets (run_table ops)).
Proof.
  destruct (sim_run ops _ _ sim_empty) as [[_ Hp Hu _] _]. split; [|exact Hp].
  unfold Table.run_table. rewrite (cnt_concat_placed k _ Hp). apply Hu.
Qed.

(** growing the bucket vector keeps every lookup and the number of cells *)
Theorem regrow_preserves_contents t k : inv t ->
  tref (Tbl (regrow (buckets t)) (tsize t)) k = tref t k /\
  inv (Tbl (regrow (buckets t)) (tsize t)) /\
  length (regrow (buckets t)) = (2 * length (buckets t))%nat.
Proof.
  intros [Hne Hp Hu Hs]. destruct (regrow_ok _ Hne Hp Hu) as [R1 [R2 [R3 [R4 R5]]]].
  split; [apply R4|]. split; [|exact R1]. constructor; cbn [buckets tsize]; auto.
  - intros E. apply length_zero_iff_nil in E. rewrite R1 in E. apply ne_length in Hne. lia.
  - rewrite R5. exact Hs.
Qed.

(** the SPEC is a finite map modulo eqf: three equations determine every lookup *)
Theorem map_laws (m : @amap K V) k v k' : muniq m ->
  option_map snd (mref eqf (mset eqf m k v) k') = (if eqf k k' then Some v else option_map snd (mref eqf m k')) /\
  option_map snd (mref eqf (mdel eqf m k) k') = (if eqf k k' then None else option_map snd (mref eqf m k')) /\
  mref eqf (@nil (K * V)) k' = None /\ muniq (mset eqf m k v) /\ muniq (mdel eqf m k).
Proof.
  intros Hu. rewrite mset_law, (mdel_law m k k' Hu).
  split; [destruct (eqf k k'); reflexivity|]. split; [destruct (eqf k k'); reflexivity|].
  split; [reflexivity|]. split; [apply mset_uniq | apply mdel_uniq]; exact Hu.
Qed.

End Proofs.

(** non-vacuity: keys = naturals modulo 7 with a hash that leaves [0,n) for small n (bucket 0 by the
    clamp); the hypotheses hold, the history regrows twice, deletes, copies, and the lookups agree *)
Example table_example :
  let eqf := fun a b : nat => (a mod 7 =? b mod 7)%nat in
  let hashf := fun (a n : nat) => (a mod 7 + 20)%nat in
  let ops := [OSet 1%nat 10; OSet 2%nat 20; OSet 8%nat 11; OSet 3%nat 30; OSet 4%nat 40; ODel 2%nat; OCopy; OSet 5%nat 50; OSet 12%nat 51] in
  (forall a b n, eqf a b = true -> hashf a n = hashf b n) /\
  length (buckets (run_table hashf eqf ops)) = 46%nat /\
  tsize (run_table hashf eqf ops) = 4 /\
  map (fun k => tref hashf eqf (run_table hashf eqf ops) k) [1; 2; 3; 4; 5; 15]%nat =
  map (fun k => mref eqf (run_map eqf ops) k) [1; 2; 3; 4; 5; 15]%nat /\
  tref hashf eqf (run_table hashf eqf ops) 15%nat = Some (1%nat, 11).
Proof.
  cbv zeta. split.
  - intros a b n H. apply Nat.eqb_eq in H. rewrite H. reflexivity.
  - vm_compute. repeat split; reflexivity.
Qed.
