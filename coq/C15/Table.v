(** C15 — the SRFI 69 hash table: executable model of lib/srfi/69/hash.c:108-239 and of the
    Scheme wrappers in lib/srfi/69/interface.scm.  NO proofs in this file (see TableProofs.v).

    A table is the record of lib/srfi/69/type.scm: a vector of buckets (each an association list,
    new cells pushed at the front), and the [size] fixnum.  The hash function and the equivalence
    are Section variables: they stand for slots 2 and 3 of the record (1 = hash-by-identity / eq?,
    2 = hash / equal?, otherwise a user procedure called through sexp_apply). *)
From Coq Require Import List ZArith Bool Arith.
Import ListNotations.
Local Open Scope Z_scope.

Section Table.
Context {K V : Type}.
Variable hashf : K -> nat -> nat.     (* (hash-fn key bound), bound = number of buckets *)
Variable eqf : K -> K -> bool.        (* (eq-fn stored-key probe-key) — this argument order *)

Local Notation bucket := (list (K * V)).
Record table : Type := Tbl { buckets : list bucket; tsize : Z }.

(** sexp_get_bucket, hash.c:108-130.  A user hash function answering outside [0,len) selects
    bucket 0 (line 124-125); the built-in ones reduce modulo len themselves. *)
Definition get_bucket (len : nat) (k : K) : nat :=
  let h := hashf k len in if (h <? len)%nat then h else O.

(** sexp_scan_bucket, hash.c:132-167: the first cell of the chain whose key satisfies
    eq_fn(caar p, obj); returns the cell. *)
Fixpoint afind (ls : bucket) (k : K) : option (K * V) :=
  match ls with
  | [] => None
  | (k0, v0) :: r => if eqf k0 k then Some (k0, v0) else afind r k
  end.

Fixpoint upd_nth {A : Type} (n : nat) (f : A -> A) (l : list A) : list A :=
  match l, n with
  | [], _ => []
  | x :: r, O => f x :: r
  | x :: r, S n' => x :: upd_nth n' f r
  end.

(** #define sexp_hash_resize_check(n, len) (((n)*3) > ((len)>>2)), hash.c:18 *)
Definition resize_check (n : Z) (len : nat) : bool := (n * 3) >? Z.shiftr (Z.of_nat len) 2.

(** sexp_push(ctx, newvec[j], cell), hash.c:181 *)
Definition push_at (bs : list bucket) (j : nat) (e : K * V) : list bucket := upd_nth j (cons e) bs.

(** inner loop of sexp_regrow_hash_table, hash.c:179-182: the cells of one old bucket, front to
    back, each pushed onto the new bucket chosen by the hash function with the NEW length *)
Definition fill (n : nat) (nb : list bucket) (es : bucket) : list bucket :=
  fold_left (fun nb e => push_at nb (get_bucket n (fst e)) e) es nb.

(** sexp_regrow_hash_table, hash.c:169-187: newsize = 2*oldsize, buckets visited 0..oldsize-1 *)
Definition regrow (bs : list bucket) : list bucket :=
  let n := (2 * length bs)%nat in fold_left (fill n) bs (repeat [] n).

(** (hash-table-cell table key #f), hash.c:189-203: the cell or nothing *)
Definition tref (t : table) (k : K) : option (K * V) :=
  afind (nth (get_bucket (length (buckets t)) k) (buckets t) []) k.

(** (set-cdr! cell value) on the first matching cell of a chain *)
Fixpoint bset (ls : bucket) (k : K) (v : V) : bucket :=
  match ls with
  | [] => []
  | (k0, v0) :: r => if eqf k0 k then (k0, v) :: r else (k0, v0) :: bset r k v
  end.

(** hash-table-set! = (set-cdr! (hash-table-cell table key #t) value), interface.scm:52-55 with
    hash.c:189-217: an existing cell keeps its key and gets the value; otherwise the table is
    regrown when 3*size > len/4 (the bucket index is then recomputed), a new cell is pushed at the
    FRONT of its bucket and size is incremented. *)
Definition tset (t : table) (k : K) (v : V) : table :=
  let bs := buckets t in
  let i := get_bucket (length bs) k in
  match afind (nth i bs []) k with
  | Some _ => Tbl (upd_nth i (fun b => bset b k v) bs) (tsize t)
  | None =>
      let bs' := if resize_check (tsize t) (length bs) then regrow bs else bs in
      let i' := get_bucket (length bs') k in
      Tbl (push_at bs' i' (k, v)) (tsize t + 1)
  end.

(** unlinking the first matching cell of a chain: hash.c:230-236 (head: bucket := cdr; otherwise
    walk to the predecessor and splice) *)
Fixpoint brem (ls : bucket) (k : K) : bucket :=
  match ls with
  | [] => []
  | (k0, v0) :: r => if eqf k0 k then r else (k0, v0) :: brem r k
  end.

(** sexp_hash_table_delete, hash.c:219-239 *)
Definition tdelete (t : table) (k : K) : table :=
  let bs := buckets t in
  let i := get_bucket (length bs) k in
  match afind (nth i bs []) k with
  | Some _ => Tbl (upd_nth i (fun b => brem b k) bs) (tsize t - 1)
  | None => t
  end.

(** hash-table-update!/default, interface.scm:74-80: the cell is found or created (same regrow
    rule) and receives (func old-or-default) *)
Definition tupdate (t : table) (k : K) (f : V -> V) (d : V) : table :=
  tset t k (f (match tref t k with Some (_, v) => v | None => d end)).

(** hash-table-fold visits bucket len-1 first, each chain front to back (interface.scm:84-94) *)
Definition walk (t : table) : list (K * V) := concat (rev (buckets t)).
(** hash-table->alist conses each visited cell onto the accumulator *)
Definition to_alist (t : table) : list (K * V) := rev (walk t).

(** make-hash-table, interface.scm:7-22: 23 empty buckets, size 0 *)
Definition tempty : table := Tbl (repeat [] 23%nat) 0.

(** hash-table-copy, interface.scm:122-128 = merge! of the walk into a fresh table: set the key
    unless it already exists *)
Definition tmerge (a : table) (es : list (K * V)) : table :=
  fold_left (fun a e => match tref a (fst e) with Some _ => a | None => tset a (fst e) (snd e) end) es a.
Definition tcopy (t : table) : table := tmerge tempty (walk t).

(** SPEC: an association list keyed by the equivalence (first match wins).  [mlaws] in
    TableProofs.v shows that its lookups obey the three equations of a finite map modulo eqf. *)
Definition amap : Type := list (K * V).
Definition mref (m : amap) (k : K) : option (K * V) := afind m k.
Definition mset (m : amap) (k : K) (v : V) : amap :=
  match afind m k with Some _ => bset m k v | None => (k, v) :: m end.
Definition mdel (m : amap) (k : K) : amap := brem m k.

(** operation histories *)
Inductive op : Type := OSet (k : K) (v : V) | ODel (k : K) | OCopy.

Definition tstep (t : table) (o : op) : table :=
  match o with OSet k v => tset t k v | ODel k => tdelete t k | OCopy => tcopy t end.
Definition mstep (m : amap) (o : op) : amap :=
  match o with OSet k v => mset m k v | ODel k => mdel m k | OCopy => m end.
Definition run_table (ops : list op) : table := fold_left tstep ops tempty.
Definition run_map (ops : list op) : amap := fold_left mstep ops [].

End Table.
