(** C15 — histories on TWO tables (round 4): the operation language of the correspondence runs
    (Run.v [hop]: set / delete / update!/default / copy continued on / copy kept aside / swap), stated
    for ANY key and value types.  NO proofs here (see Table2Proofs.v).  [tstep2] is what Run.v's
    [ostep] computes (Table2Proofs.ostep_is_tstep2, by computation), [mstep2] what [mstep'] computes. *)
From Coq Require Import List ZArith Bool Arith.
From ChibiV Require Import C15.Table.
Import ListNotations.

Section Two.
Context {K V : Type}.
Variable hashf : K -> nat -> nat.
Variable eqf : K -> K -> bool.

(** PUpd = (hash-table-update!/default t k f d), interface.scm:74-80; PCopy: the history continues on
    (hash-table-copy t), the original is kept as "the other table"; PKeep: the copy is kept aside;
    PSwap: the two tables change roles.  Both tables are observable after every operation. *)
Inductive op2 : Type :=
  PSet (k : K) (v : V) | PDel (k : K) | PUpd (k : K) (f : V -> V) (d : V) | PCopy | PKeep | PSwap
  | PNop                          (* an update whose procedure raises *)
  | PUpdP (k : K) (f : V -> V).   (* hash-table-update! without default: only a present key is updated *)

Definition tstep2 (tt : @table K V * option (@table K V)) (o : op2) : @table K V * option (@table K V) :=
  let '(t, u) := tt in
  match o with
  | PSet k v => (tset hashf eqf t k v, u)
  | PDel k => (tdelete hashf eqf t k, u)
  | PUpd k f d => (tupdate hashf eqf t k f d, u)
  | PCopy => (tcopy hashf eqf t, Some t)
  | PKeep => (t, Some (tcopy hashf eqf t))
  | PSwap => match u with Some t' => (t', Some t) | None => (t, u) end
  | PNop => (t, u)
  | PUpdP k f => (match tref hashf eqf t k with Some (_, v) => tupdate hashf eqf t k f v | None => t end, u)
  end.

(** SPEC: two independent association maps; a copy is the same map *)
Definition mstep2 (mm : @amap K V * option (@amap K V)) (o : op2) : @amap K V * option (@amap K V) :=
  let '(m, u) := mm in
  match o with
  | PSet k v => (mset eqf m k v, u)
  | PDel k => (mdel eqf m k, u)
  | PUpd k f d => (mset eqf m k (f (match mref eqf m k with Some (_, v) => v | None => d end)), u)
  | PCopy => (m, Some m)
  | PKeep => (m, Some m)
  | PSwap => match u with Some m' => (m', Some m) | None => (m, u) end
  | PNop => (m, u)
  | PUpdP k f => (match mref eqf m k with Some (_, v) => mset eqf m k (f v) | None => m end, u)
  end.

Definition run_table2 (ops : list op2) := fold_left tstep2 ops (tempty, None).
Definition run_map2 (ops : list op2) := fold_left mstep2 ops ([], None).
End Two.
