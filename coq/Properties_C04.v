(** C04 — exact arithmetic is exact at every magnitude: property theorems only. *)
From ChibiV Require Import Common.Words C04.Model C04.Proofs.
Local Open Scope Z_scope.

Theorem add_digits_val : forall a b, words a -> words b -> a <> [] -> b <> [] ->
  val (add_digits a b) = val a + val b /\ words (add_digits a b).
Proof. exact add_digits_spec. Qed.
Print Assumptions add_digits_val.
