(** C04 — exact arithmetic is exact at every magnitude: property theorems only. *)
From ChibiV Require Import Common.Words C04.Model C04.Proofs.
Local Open Scope Z_scope.

(** digit layer (bignum.c:171-186, 419-507): any length, any number of spare high zero words *)
Theorem add_digits_val : forall a b, words a -> words b -> a <> [] -> b <> [] ->
  val (add_digits a b) = val a + val b /\ words (add_digits a b).
Proof. exact add_digits_spec. Qed.
Print Assumptions add_digits_val.

Theorem sub_digits_val : forall a b, words a -> words b -> a <> [] -> b <> [] ->
  val (sub_digits a b) = Z.abs (val a - val b) /\ words (sub_digits a b) /\ sub_digits a b <> [].
Proof. exact sub_digits_spec. Qed.
Print Assumptions sub_digits_val.

Theorem compare_Z : forall a b, words a -> words b -> a <> [] -> b <> [] ->
  (compare_abs a b > 0 <-> val a > val b) /\ (compare_abs a b < 0 <-> val a < val b).
Proof. exact compare_abs_spec. Qed.
Print Assumptions compare_Z.

Theorem bignum_add_Z : forall x y, wf_big x -> wf_big y ->
  bval (bignum_add x y) = bval x + bval y /\ wf_big (bignum_add x y).
Proof. exact bignum_add_spec. Qed.
Print Assumptions bignum_add_Z.

Theorem bignum_sub_Z : forall x y, wf_big x -> wf_big y ->
  bval (bignum_sub x y) = bval x - bval y /\ wf_big (bignum_sub x y).
Proof. exact bignum_sub_spec. Qed.
Print Assumptions bignum_sub_Z.

(** single-word operations (bignum.c:215-301); the 128-bit intermediate is modelled as Z mod 2^128 *)
From ChibiV Require Import C04.Model2 C04.ProofsFx C04.ProofsMul.

Theorem fxadd_val : forall a b, words a -> a <> [] -> isword b ->
  val (fxadd a b) = val a + b /\ words (fxadd a b) /\ fxadd a b <> [].
Proof. exact fxadd_spec. Qed.
Print Assumptions fxadd_val.

Theorem fxsub_val : forall s a b r c, wf_big (s, a) -> isword b -> fxsub (s, a) b = (r, c) ->
  c = 0 /\ bval r = s * (val a - b) /\ wf_big r.
Proof. exact fxsub_spec. Qed.
Print Assumptions fxsub_val.

Theorem fxmul_val : forall a b off, words a -> isword b ->
  val (fxmul a b off) = val a * b * B ^ Z.of_nat off /\ words (fxmul a b off).
Proof. exact fxmul_spec. Qed.
Print Assumptions fxmul_val.

Theorem fxdiv_val : forall a b q r, words a -> a <> [] -> 0 < b < B -> fxdiv a b 0 = (q, r) ->
  val a = val q * b + r /\ 0 <= r < b /\ words q /\ length q = length a.
Proof. exact fxdiv_spec. Qed.
Print Assumptions fxdiv_val.

Theorem fxrem_Z : forall s a b, wf_big (s, a) -> Z.abs b < B ->
  fxrem (s, a) b = if b =? 0 then None else Some (Z.rem (s * val a) b).
Proof. exact fxrem_spec. Qed.
Print Assumptions fxrem_Z.

(** value preserved, and the result is a fixnum iff the value fits *)
Theorem normalize_canonical : forall s d, wf_big (s, d) ->
  nval (normalize (Big s d)) = s * val d /\ canon (normalize (Big s d)) /\ wf_num (normalize (Big s d)).
Proof. exact normalize_spec. Qed.
Print Assumptions normalize_canonical.

(** generic sexp_add / sexp_sub on fixnum|bignum: exact and canonical *)
Theorem num_add_Z : forall a b, wf_num a -> wf_num b ->
  nval (num_add a b) = nval a + nval b /\ canon (num_add a b) /\ wf_num (num_add a b).
Proof. exact num_add_spec. Qed.
Print Assumptions num_add_Z.

(** round 2: no premise any more (sexp_sub FIX_FIX hands over to bignums, fix C04-sub-fixnum-difference-overflow) *)
Theorem num_sub_Z : forall a b, wf_num a -> wf_num b ->
  nval (num_sub a b) = nval a - nval b /\ canon (num_sub a b) /\ wf_num (num_sub a b).
Proof. exact num_sub_total_spec. Qed.
Print Assumptions num_sub_Z.

(** VM fast paths (vm.c:1763-1820): exact for all operands, including the overflow hand-over *)
Theorem fix_add_handover : forall a b, wf_num a -> wf_num b ->
  nval (vm_add a b) = nval a + nval b /\ canon (vm_add a b) /\ wf_num (vm_add a b).
Proof. exact vm_add_spec. Qed.
Print Assumptions fix_add_handover.

Theorem fix_sub_handover : forall a b, wf_num a -> wf_num b ->
  nval (vm_sub a b) = nval a - nval b /\ canon (vm_sub a b) /\ wf_num (vm_sub a b).
Proof. exact vm_sub_spec. Qed.
Print Assumptions fix_sub_handover.

(** Karatsuba (bignum.c:509-567): whenever the fuelled recursion returns, it returns the product *)
Theorem mul_karatsuba_val : forall fuel x y r, wf_big x -> wf_big y ->
  bignum_mul fuel x y = Some r -> bval r = bval x * bval y /\ wf_big r.
Proof. exact bignum_mul_spec. Qed.
Print Assumptions mul_karatsuba_val.

(** quot_rem (bignum.c:569-668): total correctness minus termination.  Whenever the fuelled loop
    finishes, quotient and remainder are exactly Z.quot / Z.rem (truncating division, remainder with
    the sign of the dividend), for ANY quotient-digit estimate; a zero divisor is reported. *)
From ChibiV Require Import C04.ProofsDiv.

Theorem quot_rem_sound : forall fuel mf x y q r, wf_big x -> wf_big y ->
  quot_rem fuel mf x y = QR q r ->
  bval y <> 0 /\ nval q = Z.quot (bval x) (bval y) /\ nval r = Z.rem (bval x) (bval y)
  /\ wf_num q /\ wf_num r.
Proof. exact quot_rem_spec. Qed.
Print Assumptions quot_rem_sound.

Theorem quot_rem_zero_divisor : forall fuel mf x y, wf_big x -> wf_big y ->
  (quot_rem fuel mf x y = QDivZero <-> bval y = 0).
Proof. exact quot_rem_divzero. Qed.
Print Assumptions quot_rem_zero_divisor.

Theorem num_mul_Z : forall mf a b r, wf_num a -> wf_num b -> num_mul mf a b = Some r ->
  nval r = nval a * nval b /\ canon r /\ wf_num r.
Proof. exact num_mul_spec. Qed.
Print Assumptions num_mul_Z.

(** generic quotient / remainder (sexp_quotient / sexp_remainder with the F-C04-3 repair) and the
    VM opcodes, incl. MIN_FIXNUM / -1 and MIN_FIXNUM / 2^62 *)
From ChibiV Require Import C04.Model3 C04.ProofsQuot C04.ProofsRadix C04.Spec.

Theorem num_quotient_Z : forall fuel mf a b r, wf_num a -> wf_num b ->
  num_quotient fuel mf a b = NV r ->
  nval b <> 0 /\ nval r = Z.quot (nval a) (nval b) /\ wf_num r.
Proof. exact num_quotient_spec. Qed.
Print Assumptions num_quotient_Z.

Theorem num_remainder_Z : forall fuel mf a b r, wf_num a -> wf_num b ->
  num_remainder fuel mf a b = NV r ->
  nval b <> 0 /\ nval r = Z.rem (nval a) (nval b) /\ wf_num r.
Proof. exact num_remainder_spec. Qed.
Print Assumptions num_remainder_Z.

Theorem fx_quotient_handover : forall fuel mf a b r, wf_num a -> wf_num b ->
  vm_quotient fuel mf a b = NV r ->
  nval b <> 0 /\ nval r = Z.quot (nval a) (nval b) /\ wf_num r.
Proof. exact vm_quotient_spec. Qed.
Print Assumptions fx_quotient_handover.

Theorem fx_remainder_Z : forall fuel mf a b r, wf_num a -> wf_num b ->
  vm_remainder fuel mf a b = NV r ->
  nval b <> 0 /\ nval r = Z.rem (nval a) (nval b) /\ wf_num r.
Proof. exact vm_remainder_spec. Qed.
Print Assumptions fx_remainder_Z.

(** expt by squaring (sexp_bignum_expt), non-negative exponent *)
Theorem expt_Z : forall fuel mf a e r, wf_big a -> 0 <= e ->
  bignum_expt fuel mf a e = Some r -> nval r = bval a ^ e /\ canon r /\ wf_num r.
Proof. exact bignum_expt_spec. Qed.
Print Assumptions expt_Z.

(** printing / parsing of bignums in radix 2..36 (any word-sized radix) *)
Theorem write_bignum_digits_val : forall fuel a base ds, words a -> a <> [] -> 2 <= base < B ->
  write_bignum_digits fuel a base = Some ds ->
  of_radix base ds = val a /\ Forall (isdigit base) ds /\ ds <> [].
Proof. exact write_bignum_digits_spec. Qed.
Print Assumptions write_bignum_digits_val.

Theorem number_to_string_radix_roundtrip : forall fuel a base ds, words a -> a <> [] -> 2 <= base < B ->
  write_bignum_digits fuel a base = Some ds ->
  val (read_bignum_digits 0 base ds) = val a.
Proof. exact bignum_radix_roundtrip. Qed.
Print Assumptions number_to_string_radix_roundtrip.

Theorem read_number_handover : forall base, 2 <= base <= 36 -> forall ds v,
  0 <= v <= FIXMAX -> Forall (isdigit base) ds ->
  nval (read_number_digits base ds v) = horner base ds v /\ canon (read_number_digits base ds v).
Proof. exact read_number_digits_spec. Qed.
Print Assumptions read_number_handover.

(** comparison (sexp_compare with the F-C04-4 repair) and exact integer square root (Newton loop of
    sexp_bignum_sqrt): the result is the integer square root for ANY starting estimate *)
From ChibiV Require Import C04.Model4 C04.ProofsSqrt.

Theorem num_compare_Z : forall a b, wf_num a -> wf_num b -> cmp_ok a b ->
  Z.sgn (num_compare a b) = Z.sgn (nval a - nval b).
Proof. exact num_compare_spec. Qed.
Print Assumptions num_compare_Z.

Theorem sqrt_newton_sound : forall fuel qf mf a res s r,
  wf_num a -> is_fix a = false -> wf_num res -> seed_ok res ->
  sqrt_loop fuel qf mf a res = SV s r ->
  nval s * nval s <= nval a < (nval s + 1) * (nval s + 1) /\ nval r = nval a - nval s * nval s
  /\ canon s /\ canon r.
Proof. exact sqrt_loop_spec. Qed.
Print Assumptions sqrt_newton_sound.

(** exact rationals: sexp_ratio_normalize (with the F-C04-1/2 repair) returns the same fraction in
    lowest terms with denominator > 1, or an integer; add / mul / div / compare agree with Q *)
From ChibiV Require Import C04.Model5 C04.ProofsRatio.
From Coq Require Import QArith.
Local Open Scope Z_scope.

Theorem ratio_normalize_lowest_terms : forall fuel qf mf n d, wf_num n -> wf_num d -> nval d <> 0 ->
  rat_ok (ratio_normalize fuel qf mf n d) (nval n) (nval d).
Proof. exact ratio_normalize_spec. Qed.
Print Assumptions ratio_normalize_lowest_terms.

Theorem ratio_add_Q : forall fuel qf mf na da nb db q,
  wf_num na -> wf_num da -> wf_num nb -> wf_num db -> 0 < nval da -> 0 < nval db ->
  rat_value (ratio_add fuel qf mf na da nb db) = Some q ->
  (q == (nval na # Z.to_pos (nval da)) + (nval nb # Z.to_pos (nval db)))%Q.
Proof. exact ProofsRatio.ratio_add_Q. Qed.
Print Assumptions ratio_add_Q.

Theorem ratio_mul_Q : forall fuel qf mf na da nb db q,
  wf_num na -> wf_num da -> wf_num nb -> wf_num db -> 0 < nval da -> 0 < nval db ->
  rat_value (ratio_mul fuel qf mf na da nb db) = Some q ->
  (q == (nval na # Z.to_pos (nval da)) * (nval nb # Z.to_pos (nval db)))%Q.
Proof. exact ProofsRatio.ratio_mul_Q. Qed.
Print Assumptions ratio_mul_Q.

Theorem ratio_div_Q : forall fuel qf mf na da nb db,
  wf_num na -> wf_num da -> wf_num nb -> wf_num db -> nval da <> 0 -> nval nb <> 0 ->
  rat_ok (ratio_div fuel qf mf na da nb db) (nval na * nval db) (nval da * nval nb).
Proof. exact ratio_div_spec. Qed.
Print Assumptions ratio_div_Q.

Theorem ratio_compare_Q : forall mf na da nb db c,
  wf_num na -> wf_num da -> wf_num nb -> wf_num db ->
  ratio_compare mf na da nb db = Some c ->
  Z.sgn c = Z.sgn (nval na * nval db - nval nb * nval da).
Proof. exact ratio_compare_spec. Qed.
Print Assumptions ratio_compare_Q.

(** subtraction (sexp_sub RAT_RAT with the F-C04-5 repair) and rounding of exact rationals
    (sexp_ratio_trunc / _floor / _ceiling / _round with the F-C04-6 repair) *)
From ChibiV Require Import C04.Model6 C04.ProofsRound.

Theorem ratio_sub_Q : forall fuel qf mf na da nb db,
  wf_num na -> wf_num da -> wf_num nb -> wf_num db -> nval da <> 0 -> nval db <> 0 ->
  rat_ok (ratio_sub fuel qf mf na da nb db) (nval na * nval db - nval nb * nval da) (nval da * nval db).
Proof. exact ratio_sub_spec. Qed.
Print Assumptions ratio_sub_Q.

Theorem truncate_ratio_Q : forall qf mf n d r, wf_num n -> wf_num d ->
  ratio_trunc qf mf n d = NV r -> nval r = Z.quot (nval n) (nval d).
Proof. exact ratio_trunc_spec. Qed.
Print Assumptions truncate_ratio_Q.

Theorem floor_ratio_Q : forall qf mf n d r, wf_num n -> wf_num d -> 0 < nval d -> Z.rem (nval n) (nval d) <> 0 ->
  ratio_floor qf mf n d = NV r -> nval r = nval n / nval d.
Proof. exact ratio_floor_spec. Qed.
Print Assumptions floor_ratio_Q.

Theorem ceiling_ratio_Q : forall qf mf n d r, wf_num n -> wf_num d -> 0 < nval d -> Z.rem (nval n) (nval d) <> 0 ->
  ratio_ceiling qf mf n d = NV r -> nval r = - ((- nval n) / nval d).
Proof. exact ratio_ceiling_spec. Qed.
Print Assumptions ceiling_ratio_Q.

(** round to even: the result is a nearest integer, and the even one on a tie *)
Theorem round_ratio_Q : forall qf mf n d R, wf_num n -> wf_num d -> canon d ->
  1 < nval d -> Z.gcd (nval n) (nval d) = 1 ->
  ratio_round qf mf n d = NV R -> round_ok (nval n) (nval d) (nval R).
Proof. exact ratio_round_spec. Qed.
Print Assumptions round_ratio_Q.

Theorem fix_mul_handover : forall mf a b r, wf_num a -> wf_num b -> vm_mul mf a b = Some r ->
  nval r = nval a * nval b /\ canon r /\ wf_num r.
Proof. exact vm_mul_spec. Qed.
Print Assumptions fix_mul_handover.

(** termination where it is cheap: the digit loop of sexp_write_bignum ends within one round per bit *)
From ChibiV Require Import C04.ProofsTerm.
Theorem write_bignum_digits_terminates : forall fuel a base, words a -> a <> [] -> 2 <= base < B ->
  val a < 2 ^ Z.of_nat fuel -> write_bignum_digits fuel a base <> None.
Proof. exact write_bignum_terminates. Qed.
Print Assumptions write_bignum_digits_terminates.

(** the models' constants are those of the source tree under check (regenerated on every run) *)
From ChibiV Require Import C04.ConstsCheck Gen.C04_Consts.
Theorem constants_match_source :
  src_fixmax = FIXMAX /\ src_fixmin = FIXMIN /\ src_fixnum_bits = 1
  /\ src_uint_max = WMAX /\ 2 ^ src_uint_bits = B /\ 2 ^ src_luint_bits = B2 /\ 2 ^ src_half_shift = HALF
  /\ src_custom_long_longs = 0
  /\ Z.of_nat (length (read_bignum_digits 0 10 [])) = src_init_bignum_size.
Proof. exact consts_match. Qed.
Print Assumptions constants_match_source.

(** Karatsuba: total correctness.  Every recursive call has operands of strictly smaller value, so the
    recursion ends for all operands (no bound on the depth is claimed). *)
From ChibiV Require Import C04.ProofsMulTerm.
Theorem mul_karatsuba_total : forall x y, wf_big x -> wf_big y ->
  exists fuel r, bignum_mul fuel x y = Some r /\ bval r = bval x * bval y /\ wf_big r.
Proof. exact karatsuba_total. Qed.
Print Assumptions mul_karatsuba_total.

Theorem expt_total : forall a e, wf_big a -> 0 <= e ->
  exists fuel mf r, bignum_expt fuel mf a e = Some r /\ nval r = bval a ^ e /\ canon r /\ wf_num r.
Proof. exact bignum_expt_total. Qed.
Print Assumptions expt_total.

(** quot_rem: total correctness.  In each of its four variants the quotient-digit estimate x satisfies
    0 < |b| * x < 2 * |a1|, so every round strictly decreases |a1| and the loop ends (no bound on the number
    of rounds is claimed). *)
From ChibiV Require Import C04.ProofsDivTerm.

Theorem quot_rem_estimate_good : forall a1 b1 d off,
  words a1 -> words b1 -> (2 <= hi b1)%nat -> val b1 <= val a1 ->
  qr_guess a1 b1 (hi a1) (hi b1) = (d, off) ->
  (1 <= off <= hi a1 - 1)%nat /\ 1 <= d < B * B
  /\ 0 < val b1 * (d * B ^ Z.of_nat (off - 1)) < 2 * val a1.
Proof. exact qr_guess_good. Qed.
Print Assumptions quot_rem_estimate_good.

Theorem quot_rem_terminates : forall x y, wf_big x -> wf_big y -> bval y <> 0 ->
  exists fuel mf q r, quot_rem fuel mf x y = QR q r
    /\ nval q = Z.quot (bval x) (bval y) /\ nval r = Z.rem (bval x) (bval y) /\ wf_num q /\ wf_num r.
Proof. exact quot_rem_total. Qed.
Print Assumptions quot_rem_terminates.

(** hence quotient and remainder (sexp_quotient / sexp_remainder) always return for a non-zero divisor *)
From ChibiV Require Import C04.ProofsDivTerm2.
Theorem num_quotient_terminates : forall a b, wf_num a -> wf_num b -> nval b <> 0 ->
  exists qf mf r, num_quotient qf mf a b = NV r /\ nval r = Z.quot (nval a) (nval b) /\ wf_num r.
Proof. exact num_quotient_total. Qed.
Print Assumptions num_quotient_terminates.

Theorem num_remainder_terminates : forall a b, wf_num a -> wf_num b -> nval b <> 0 ->
  exists qf mf r, num_remainder qf mf a b = NV r /\ nval r = Z.rem (nval a) (nval b) /\ wf_num r.
Proof. exact num_remainder_total. Qed.
Print Assumptions num_remainder_terminates.

(** the oracle of the outer correspondence (Spec.qround) is that rounding, and it is the only one *)
From ChibiV Require Import C04.ProofsSpec.
Theorem round_ratio_eq_spec : forall qf mf n d R, wf_num n -> wf_num d -> canon d ->
  1 < nval d -> Z.gcd (nval n) (nval d) = 1 ->
  ratio_round qf mf n d = NV R -> nval R = qround (nval n) (nval d).
Proof. exact ratio_round_eq_spec. Qed.
Print Assumptions round_ratio_eq_spec.

(** Euclid's loop and sexp_ratio_normalize terminate: the result is always an integer or a ratio *)
From ChibiV Require Import C04.ProofsRatioTerm.
Theorem euclid_loop_terminates : forall n x y, wf_num x -> wf_num y -> canon y -> Z.abs (nval y) < Z.of_nat n ->
  exists fuel qf mf g, gcd_loop fuel qf mf x y = Some (Some g).
Proof. exact gcd_loop_total. Qed.
Print Assumptions euclid_loop_terminates.

Theorem ratio_normalize_terminates : forall n d, wf_num n -> wf_num d -> canon d -> nval d <> 0 ->
  exists fuel qf mf, (exists v, ratio_normalize fuel qf mf n d = RInt v)
                     \/ (exists n' d', ratio_normalize fuel qf mf n d = RRat n' d').
Proof. exact ratio_normalize_total. Qed.
Print Assumptions ratio_normalize_terminates.

(** exact integer square root: total correctness.  From any positive estimate one Newton step reaches or
    passes the root, then the estimate strictly decreases until the exit test holds. *)
From ChibiV Require Import C04.ProofsSqrtTerm.
Theorem sqrt_newton_total : forall a res, wf_num a -> is_fix a = false -> 1 <= nval a ->
  wf_num res -> seed_ok res -> 1 <= nval res ->
  exists fuel qf mf s r, sqrt_loop fuel qf mf a res = SV s r
    /\ nval s * nval s <= nval a < (nval s + 1) * (nval s + 1) /\ nval r = nval a - nval s * nval s
    /\ canon s /\ canon r.
Proof. exact sqrt_total. Qed.
Print Assumptions sqrt_newton_total.

(** ============================== round 2 ============================== *)
From Coq Require Import QArith.
From ChibiV Require Import C04.Model7 C04.Model8 C04.Model9 C04.Spec2 C04.SpecFloat C04.Store
  C04.ProofsComplex C04.ProofsRadixQ C04.ProofsConv C04.ProofsStore C04.ProofsBound.

(** ** round 2 *)
(** generic dispatch of sexp_add / _sub / _mul / _div over every pair of exact REAL types {fixnum, bignum, ratio}
    (the x_ functions of Model7): the result is the exact rational of Spec2 (fadd/fsub/fmul/fdiv on the operands' fractions), canonical:
    [r_ok] = same fraction, integer iff the denominator is 1, fixnum iff it fits, lowest terms, denominator > 1 *)
Theorem exact_real_add_Q :
  forall (fuel qf mf : nat) (a b : xnum), wf_x a -> wf_x b -> r_ok (x_add fuel qf mf a b) (fadd (xfr a) (xfr b)).
Proof. exact ProofsComplex.x_add_ok. Qed.
Print Assumptions exact_real_add_Q.

Theorem exact_real_sub_Q :
  forall (fuel qf mf : nat) (a b : xnum), wf_x a -> wf_x b -> r_ok (x_sub fuel qf mf a b) (fsub (xfr a) (xfr b)).
Proof. exact ProofsComplex.x_sub_ok. Qed.
Print Assumptions exact_real_sub_Q.

Theorem exact_real_mul_Q :
  forall (fuel qf mf : nat) (a b : xnum), wf_x a -> wf_x b -> r_ok (x_mul fuel qf mf a b) (fmul (xfr a) (xfr b)).
Proof. exact ProofsComplex.x_mul_ok. Qed.
Print Assumptions exact_real_mul_Q.

Theorem exact_real_div_Q :
  forall (fuel qf mf : nat) (a b : xnum),
       wf_x a -> wf_x b -> fst (xfr b) <> 0%Z -> r_ok (x_div fuel qf mf a b) (fdiv (xfr a) (xfr b)).
Proof. exact ProofsComplex.x_div_ok. Qed.
Print Assumptions exact_real_div_Q.

Theorem exact_real_div_by_zero :
  forall (fuel qf mf : nat) (a b : xnum),
       wf_x a -> wf_x b -> fst (xfr b) = 0%Z -> x_of (x_div fuel qf mf a b) = None.
Proof. exact ProofsComplex.x_div_zero. Qed.
Print Assumptions exact_real_div_by_zero.

(** every exact x exact entry of the type-pair table incl. complex numbers (the g_ functions of Model7): the result is the exact
    Gaussian rational of Spec2 (gadd/gsub/gmul/gdiv) with both parts canonical, and a complex object iff the imaginary
    part is not zero ([g_ok]); operands [wf_g]: canonical parts, complex objects have a non-zero imaginary part *)
Theorem exact_complex_add_Qi :
  forall (fuel qf mf : nat) (a b : gnum), wf_g a -> wf_g b -> g_ok (g_add fuel qf mf a b) (gadd (gfr a) (gfr b)).
Proof. exact ProofsComplex.g_add_ok. Qed.
Print Assumptions exact_complex_add_Qi.

Theorem exact_complex_sub_Qi :
  forall (fuel qf mf : nat) (a b : gnum), wf_g a -> wf_g b -> g_ok (g_sub fuel qf mf a b) (gsub (gfr a) (gfr b)).
Proof. exact ProofsComplex.g_sub_ok. Qed.
Print Assumptions exact_complex_sub_Qi.

Theorem exact_complex_mul_Qi :
  forall (fuel qf mf : nat) (a b : gnum), wf_g a -> wf_g b -> g_ok (g_mul fuel qf mf a b) (gmul (gfr a) (gfr b)).
Proof. exact ProofsComplex.g_mul_ok. Qed.
Print Assumptions exact_complex_mul_Qi.

Theorem exact_complex_div_Qi :
  forall (fuel qf mf : nat) (a b : gnum),
       wf_g a ->
       wf_g b ->
       fst (fst (gfr b)) <> 0%Z \/ fst (snd (gfr b)) <> 0%Z -> g_ok (g_div fuel qf mf a b) (gdiv (gfr a) (gfr b)).
Proof. exact ProofsComplex.g_div_ok. Qed.
Print Assumptions exact_complex_div_Qi.

(** rationals in radix 2..36: reading the digits of a ratio in lowest terms gives back that ratio (numerator by the
    fixnum accumulation or the bignum hand-over, denominator in the same radix, sexp_ratio_normalize) *)
Theorem read_number_signed_handover :
  forall sg base : Z,
       sg = 1%Z \/ sg = (-1)%Z ->
       (2 <= base <= 36)%Z ->
       forall (ds : list Z) (v : Z),
       (0 <= v <= FIXMAX)%Z ->
       Forall (isdigit base) ds ->
       nval (read_number_signed sg base ds v) = (sg * horner base ds v)%Z /\
       canon (read_number_signed sg base ds v) /\ wf_num (read_number_signed sg base ds v).
Proof. exact ProofsRadixQ.read_number_signed_spec. Qed.
Print Assumptions read_number_signed_handover.

Theorem ratio_radix_roundtrip :
  forall (fuel qf mf : nat) (sg base : Z) (dn dd : list Z) (n d : Z),
       sg = 1%Z \/ sg = (-1)%Z ->
       (2 <= base <= 36)%Z ->
       Forall (isdigit base) dn ->
       Forall (isdigit base) dd ->
       of_radix base dn = n ->
       of_radix base dd = d ->
       (1 < d)%Z ->
       Z.gcd n d = 1%Z ->
       match read_ratio fuel qf mf sg base dn dd with
       | RInt _ => False
       | RRat n' d' => nval n' = (sg * n)%Z /\ nval d' = d /\ canon n' /\ canon d' /\ wf_num n' /\ wf_num d'
       | _ => True
       end.
Proof. exact ProofsRadixQ.ratio_radix_roundtrip. Qed.
Print Assumptions ratio_radix_roundtrip.

(** exact <-> inexact (SpecFloat = IEEE binary64 as Z bit fields; Model8 = sexp_inexact_to_exact, sexp_double_to_bignum,
    sexp_double_to_ratio_2, sexp_exact_to_inexact, sexp_bignum_to_double, the repaired sexp_ratio_to_double) *)
Theorem binary64_decode_encode :
  forall (neg : bool) (M e : Z),
       b64_valid M e = true -> b64_decode (b64_encode neg M e) = Some (((if neg then -1 else 1) * M)%Z, e).
Proof. exact ProofsConv.b64_decode_encode. Qed.
Print Assumptions binary64_decode_encode.

Theorem inexact_spec_sound :
  forall n d bits : Z,
       representable n d = Some bits ->
       exists m e : Z,
         b64_decode bits = Some (m, e) /\
         (if (e <=? 0)%Z then (n * 2 ^ (- e))%Z = (m * d)%Z else n = (m * 2 ^ e * d)%Z).
Proof. exact ProofsConv.representable_decode. Qed.
Print Assumptions inexact_spec_sound.

Theorem double_to_bignum_val :
  forall (fuel : nat) (m e : Z),
       (Z.abs m < 2 ^ 53)%Z ->
       (e <= 971)%Z ->
       (256 <= fuel)%nat ->
       exists b : big,
         double_to_bignum fuel (dy_trunc m e) = Some b /\
         wf_big b /\ bval b = dy_trunc m e /\ fst b = (if (dy_trunc m e <? 0)%Z then (-1)%Z else 1%Z).
Proof. exact ProofsConv.double_to_bignum_val. Qed.
Print Assumptions double_to_bignum_val.

Theorem exact_of_double_integer_canonical :
  forall (fuel rf qf mf : nat) (m e : Z),
       (Z.abs m < 2 ^ 53)%Z ->
       (e <= 971)%Z ->
       (256 <= fuel)%nat ->
       dy_is_int m e = true ->
       exists v : num,
         inexact_to_exact fuel rf qf mf (Some (m, e)) = XNum (RInt v) /\
         wf_num v /\ canon v /\ nval v = dy_trunc m e /\ fst (dy_val m e) = (nval v * snd (dy_val m e))%Z.
Proof. exact ProofsConv.exact_of_double_int. Qed.
Print Assumptions exact_of_double_integer_canonical.

Theorem exact_of_double_exact :
  forall (fuel rf qf mf : nat) (m e : Z),
       (Z.abs m < 2 ^ 53)%Z ->
       (-1074 <= e <= 971)%Z ->
       (1100 <= fuel)%nat ->
       exists r : rres,
         inexact_to_exact fuel rf qf mf (Some (m, e)) = XNum r /\
         rat_ok r (fst (dy_val m e)) (snd (dy_val m e)) /\
         (dy_is_int m e = true -> exists v : num, r = RInt v /\ nval v = dy_trunc m e).
Proof. exact ProofsConv.exact_of_double_exact. Qed.
Print Assumptions exact_of_double_exact.

Theorem inexact_of_representable_ratio_div :
  forall (rnd : Q -> option Q) (qf mf : nat) (n d : num) (yn yd : Q),
       rnd_exact rnd ->
       num_to_double rnd n = Some yn ->
       yn == inject_Z (nval n) ->
       num_to_double rnd d = Some yd ->
       yd == inject_Z (nval d) ->
       nval n <> 0%Z ->
       nval d <> 0%Z ->
       repr (inject_Z (nval n) / inject_Z (nval d)) ->
       exists y : Q,
         exact_to_inexact rnd qf mf (ERat n d) = Some (Some y) /\ y == inject_Z (nval n) / inject_Z (nval d).
Proof. exact ProofsConv.inexact_of_representable_ratio_div. Qed.
Print Assumptions inexact_of_representable_ratio_div.



(** exactness of `inexact` on representable values: the Horner loop of sexp_bignum_to_double rounds nowhere (every prefix and
    every word of a representable integer is representable); integers (fixnum or bignum); ratios whose parts are in double range *)
From ChibiV Require Import C04.ProofsConv2.

Theorem bignum_to_double_exact :
  forall (rnd : Q -> option Q) (x : big),
       rnd_exact rnd ->
       wf_big x ->
       repr (inject_Z (bval x)) -> exists y : Q, bignum_to_double rnd x = Some y /\ y == inject_Z (bval x).
Proof. exact ProofsConv2.bignum_to_double_exact. Qed.
Print Assumptions bignum_to_double_exact.

Theorem inexact_of_representable_integer :
  forall (rnd : Q -> option Q) (qf mf : nat) (v : num),
       rnd_exact rnd ->
       wf_num v ->
       repr (inject_Z (nval v)) ->
       exists y : Q, exact_to_inexact rnd qf mf (EInt v) = Some (Some y) /\ y == inject_Z (nval v).
Proof. exact ProofsConv2.inexact_of_representable_integer. Qed.
Print Assumptions inexact_of_representable_integer.

Theorem inexact_of_representable_exact :
  forall (rnd : Q -> option Q) (qf mf : nat) (n d : num),
       rnd_exact rnd ->
       wf_num n ->
       wf_num d ->
       nval n <> 0%Z ->
       nval d <> 0%Z ->
       repr (inject_Z (nval n)) ->
       repr (inject_Z (nval d)) ->
       repr (inject_Z (nval n) / inject_Z (nval d)) ->
       exists y : Q,
         exact_to_inexact rnd qf mf (ERat n d) = Some (Some y) /\ y == inject_Z (nval n) / inject_Z (nval d).
Proof. exact ProofsConv2.inexact_of_representable_ratio. Qed.
Print Assumptions inexact_of_representable_exact.

(** the scaled path of the repaired sexp_ratio_to_double (a part beyond the double range): exact for n / 2^j.  PARTIAL: the premises
    "the plain division is not finite or zero" (needs an overflow hypothesis on rnd) and the three facts about [shift] (they follow from
    exact_integer_bits = log2 + 1, not proved at word level) stay visible; full statement wanted: forall representable n/d, exact_to_inexact = n/d *)
Theorem inexact_ratio_scaled_path_partial :
  forall (rnd : Q -> option Q) (qf mf : nat) (n d : num) (j : Z) (r : fl),
       rnd_exact rnd ->
       wf_num n ->
       wf_num d ->
       nval n <> 0%Z ->
       (Z.abs (nval n) < 2 ^ 53)%Z ->
       (0 < j)%Z ->
       nval d = (2 ^ j)%Z ->
       is_zero n = false ->
       negb (fl_finite (fl_div rnd (num_to_double rnd n) (num_to_double rnd d)))
       || fl_is_zero (fl_div rnd (num_to_double rnd n) (num_to_double rnd d)) = true ->
       let shift := (exact_integer_bits d - exact_integer_bits n + 62)%Z in
       (j <= shift)%Z ->
       (shift - j <= 971)%Z ->
       (Z.abs (nval n) * 2 ^ (shift - j) < B)%Z ->
       repr (inject_Z (nval n) / inject_Z (nval d)) ->
       ratio_to_double rnd qf mf n d = Some r ->
       exists y : Q, r = Some y /\ y == inject_Z (nval n) / inject_Z (nval d).
Proof. exact ProofsConv2.ratio_to_double_scaled. Qed.
Print Assumptions inexact_ratio_scaled_path_partial.

(** store-passing model (Store.v): no generic operation modifies an object that existed before the call, for all
    stores and operands incl. aliased ones; which results can alias an operand; refinement to the value-level models *)
Theorem operands_unchanged :
  forall (o : op) (σ : store) (a b : value),
       let '(σ', _) := run o σ a b in forall ref : nat, (ref < length σ)%nat -> lookup σ' ref = lookup σ ref.
Proof. exact ProofsStore.operands_unchanged. Qed.
Print Assumptions operands_unchanged.

Theorem store_grows :
  forall (o : op) (σ : list obj) (a b : value), (length σ <= length (fst (run o σ a b)))%nat.
Proof. exact ProofsStore.store_grows. Qed.
Print Assumptions store_grows.

Theorem result_fresh_or_alias :
  forall (o : op) (σ : store) (a b : value),
       is_div o = false ->
       match run o σ a b with
       | (σ', SV (VRef x)) =>
           (length σ <= x)%nat \/
           (exists fuel mf : nat, o = OpQuotient fuel mf) /\ b = VFix 1 /\ a = VRef x /\ σ' = σ
       | (σ', SV (VFix _)) | (σ', SErr) | (σ', SFuel) => True
       end.
Proof. exact ProofsStore.result_fresh_or_alias. Qed.
Print Assumptions result_fresh_or_alias.

Theorem result_fresh_or_alias_div :
  forall (fuel qf mf : nat) (σ : store) (a b : value),
       match s_div fuel qf mf σ a b with
       | (_, SV (VRef x)) => (length σ <= x)%nat \/ a = VRef x
       | _ => True
       end.
Proof. exact ProofsStore.result_fresh_or_alias_div. Qed.
Print Assumptions result_fresh_or_alias_div.

Theorem store_refines_value_add :
  forall (σ : store) (a b : value) (x y : num),
       absv σ a = Some x -> absv σ b = Some y -> refines (s_add σ a b) (num_add x y).
Proof. exact ProofsStore.store_refines_value_add. Qed.
Print Assumptions store_refines_value_add.

Theorem store_refines_value_sub :
  forall (σ : store) (a b : value) (x y : num),
       absv σ a = Some x -> absv σ b = Some y -> refines (s_sub σ a b) (num_sub x y).
Proof. exact ProofsStore.store_refines_value_sub. Qed.
Print Assumptions store_refines_value_sub.

Theorem store_refines_value_mul :
  forall (mf : nat) (σ : store) (a b : value) (x y n : num),
       absv σ a = Some x -> absv σ b = Some y -> num_mul mf x y = Some n -> refines (s_mul mf σ a b) n.
Proof. exact ProofsStore.store_refines_value_mul. Qed.
Print Assumptions store_refines_value_mul.

Theorem store_refines_value_quotient :
  forall (fuel mf : nat) (σ : store) (a b : value) (x y : num),
       absv σ a = Some x -> absv σ b = Some y -> res_matches (s_quotient fuel mf σ a b) (num_quotient fuel mf x y).
Proof. exact ProofsStore.store_refines_value_quotient. Qed.
Print Assumptions store_refines_value_quotient.

Theorem store_refines_value_remainder :
  forall (fuel mf : nat) (σ : store) (a b : value) (x y : num),
       absv σ a = Some x -> absv σ b = Some y -> res_matches (s_remainder fuel mf σ a b) (num_remainder fuel mf x y).
Proof. exact ProofsStore.store_refines_value_remainder. Qed.
Print Assumptions store_refines_value_remainder.

(** explicit fuel: 64*(la+lb)+3 levels of Karatsuba recursion always suffice (also inside quot_rem) *)
Theorem mul_karatsuba_fuel_bound :
  forall x y : big,
       wf_big x ->
       wf_big y ->
       exists r : big,
         bignum_mul (64 * (length (snd x) + length (snd y)) + 3) x y = Some r /\
         bval r = (bval x * bval y)%Z /\ wf_big r.
Proof. exact ProofsBound.mul_karatsuba_fuel_bound. Qed.
Print Assumptions mul_karatsuba_fuel_bound.

Theorem mul_karatsuba_fuel_enough :
  forall (x y : big) (f : nat),
       wf_big x ->
       wf_big y ->
       (64 * (length (snd x) + length (snd y)) + 3 <= f)%nat ->
       exists r : big, bignum_mul f x y = Some r /\ bval r = (bval x * bval y)%Z.
Proof. exact ProofsBound.mul_karatsuba_fuel_enough. Qed.
Print Assumptions mul_karatsuba_fuel_enough.

Theorem quot_rem_karatsuba_fuel_bound :
  forall x y : big,
       wf_big x ->
       wf_big y ->
       bval y <> 0%Z ->
       exists (fuel : nat) (q r : num),
         quot_rem fuel (qr_mf (length (snd y)) (length (snd x))) x y = QR q r /\
         nval q = (bval x ÷ bval y)%Z /\ nval r = Z.rem (bval x) (bval y) /\ wf_num q /\ wf_num r.
Proof. exact ProofsBound.quot_rem_total_mf. Qed.
Print Assumptions quot_rem_karatsuba_fuel_bound.

(** round 3: comparisons in which an operand is a flonum (SpecCmp.v, Model10.v: the FIX_FLO, FLO_BIG, FLO_RAT entries
    of sexp_compare; a finite double denotes the exact dyadic rational m * 2^e) *)
From ChibiV Require Import C04.Model10 C04.SpecCmp C04.ProofsCmp.

Theorem mixed_order_is_Q : forall n d n' d' : Z, (0 < d)%Z -> (0 < d')%Z ->
  ext_cmp (EFin n d) (EFin n' d') =
  Some (match (n # Z.to_pos d ?= n' # Z.to_pos d')%Q with Lt => (-1)%Z | Eq => 0%Z | Gt => 1%Z end).
Proof. exact ext_cmp_Q_spec. Qed.
Print Assumptions mixed_order_is_Q.

Theorem mixed_order_trichotomy : forall (a b : ext) (s : Z), ext_cmp a b = Some s ->
  ext_cmp b a = Some (- s)%Z /\ (s = (-1)%Z \/ s = 0%Z \/ s = 1%Z).
Proof. exact ext_cmp_antisym_spec. Qed.
Print Assumptions mixed_order_trichotomy.

Theorem mixed_order_transitive_through_flonum : forall (a b c : ext) (s1 s2 : Z), ext_ok a -> ext_ok b -> ext_ok c ->
  ext_cmp a b = Some s1 -> ext_cmp b c = Some s2 -> (s1 <= 0)%Z -> (s2 <= 0)%Z ->
  exists s3, ext_cmp a c = Some s3 /\ (s3 <= 0)%Z /\ ((s1 < 0)%Z \/ (s2 < 0)%Z -> (s3 < 0)%Z).
Proof. exact ext_cmp_trans_spec. Qed.
Print Assumptions mixed_order_transitive_through_flonum.

Theorem mixed_compare_Q : forall (fuel rf qf mf : nat) (a b : cnum), cwf a -> cwf b -> (ctype a <= ctype b)%Z ->
  match a, b with CFlo _, CFlo _ => False | _, _ => True end -> (1100 <= fuel)%nat ->
  match cmp_le fuel rf qf mf a b with
  | CV c => ext_cmp (cval a) (cval b) = Some (Z.sgn c)
  | CNan => ext_cmp (cval a) (cval b) = None
  | CFuel => True
  end.
Proof. exact cmp_le_spec. Qed.
Print Assumptions mixed_compare_Q.

Theorem mixed_compare_ordered : forall (fuel rf qf mf : nat) (a b : cnum) (c : Z), cwf a -> cwf b -> (ctype a <= ctype b)%Z ->
  match a, b with CFlo _, CFlo _ => False | _, _ => True end -> (1100 <= fuel)%nat ->
  x_compare fuel rf qf mf a b = CV c -> ext_cmp (cval a) (cval b) = Some (Z.sgn c).
Proof. exact x_compare_ordered_spec. Qed.
Print Assumptions mixed_compare_ordered.

Theorem mixed_compare_swapped_partial : forall (fuel rf qf mf : nat) (a b : cnum) (c : Z), cwf a -> cwf b -> (ctype b < ctype a)%Z ->
  match a, b with CFlo _, CFlo _ => False | _, _ => True end -> (1100 <= fuel)%nat ->
  x_compare fuel rf qf mf a b = CV c ->
  exists c0, cmp_le fuel rf qf mf b a = CV c0 /\ c = wrap_fix (- c0) /\
             (fits_fix (- c0) = true -> ext_cmp (cval a) (cval b) = Some (Z.sgn c)).
Proof. exact x_compare_swapped_partial. Qed.
Print Assumptions mixed_compare_swapped_partial.

(** the FLO_FLO entry (two doubles) and with it EVERY entry of the switch, operands in type order *)
From ChibiV Require Import C04.ProofsCmp2.

Theorem flonum_compare_is_dyadic_order : forall m e m' e' : Z,
  dy_cmp m e m' e' = Z.sgn (fst (dy_val m e) * snd (dy_val m' e') - fst (dy_val m' e') * snd (dy_val m e)).
Proof. exact dy_cmp_spec. Qed.
Print Assumptions flonum_compare_is_dyadic_order.

Theorem mixed_compare_all_entries : forall (fuel rf qf mf : nat) (a b : cnum), cwf a -> cwf b -> (ctype a <= ctype b)%Z -> (1100 <= fuel)%nat ->
  match cmp_le fuel rf qf mf a b with
  | CV c => ext_cmp (cval a) (cval b) = Some (Z.sgn c)
  | CNan => ext_cmp (cval a) (cval b) = None
  | CFuel => True
  end.
Proof. exact cmp_le_spec_all. Qed.
Print Assumptions mixed_compare_all_entries.
